#!/bin/bash
# usage: confirm_mutant.sh <Cxx> <A|B> ; confirms a sub-agent mutant in a fresh scratch worktree:
#  patch applies, full suite 56/56 with the patch, demo FAILS with the patch and PASSES without. Writes result json.
id=$1; v=$2
src=/tmp/mut/$id/$v
wt=/tmp/cm_${id}_$v
out=/tmp/mut/$id/$v/confirm.json
rm -rf $wt
git -C /repo worktree add -q --detach $wt HEAD || exit 3
cd $wt
res_apply=ok; git apply $src/patch.diff || res_apply=fail
tests=unknown
if [ $res_apply = ok ]; then
  cmake -G Ninja -S . -B _b -DCTPG_ENABLE_TESTS=ON >/dev/null 2>&1
  if cmake --build _b -j4 >/dev/null 2>&1; then
    tests=$(ctest --test-dir _b -j4 2>&1 | grep "tests passed" | sed 's/"//g')
  else tests="build failed"; fi
fi
cmd=$(head -1 $src/demo.cpp | sed 's#^// *##')
# demo with the patch
demo_with=unknown; demo_without=unknown
comp="g++ -std=gnu++17 -I$wt/include $src/demo.cpp -o $wt/demo_bin"
case "$cmd" in *fsanitize*|*clang*|*pthread*|*-O*) comp=$(echo "$cmd" | sed "s#/tmp/wt/$id#$wt#g; s#&&.*##; s#-o [^ ]*#-o $wt/demo_bin#; s# demo.cpp# $src/demo.cpp#; s#/tmp/mut/$id/$v/demo.cpp#$src/demo.cpp#");; esac
( $comp >$wt/demo_build.log 2>&1 && timeout 120 $wt/demo_bin >$wt/demo_run.log 2>&1; echo $? > $wt/demo_rc ) 
rc_with=$(cat $wt/demo_rc)
git checkout -q -- include
rm -f $wt/demo_bin
( $comp >$wt/demo_build2.log 2>&1 && timeout 120 $wt/demo_bin >$wt/demo_run2.log 2>&1; echo $? > $wt/demo_rc2 )
rc_without=$(cat $wt/demo_rc2)
python3 - <<PY
import json
json.dump({"id":"$id","variant":"$v","apply":"$res_apply","tests":"""$tests""".strip(),"demo_compile_cmd":"""$comp""","demo_rc_with_patch":$rc_with,"demo_rc_without_patch":$rc_without,
 "demo_tail_with": open("$wt/demo_run.log").read()[-300:] if __import__("os").path.exists("$wt/demo_run.log") else open("$wt/demo_build.log").read()[-300:],
 "demo_tail_without": open("$wt/demo_run2.log").read()[-200:] if __import__("os").path.exists("$wt/demo_run2.log") else open("$wt/demo_build2.log").read()[-300:]}, open("$out","w"), indent=1)
PY
cd /; git -C /repo worktree remove --force $wt
echo "$id/$v apply=$res_apply tests=[$tests] demo_with=$rc_with demo_without=$rc_without"
