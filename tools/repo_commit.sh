#!/bin/bash
# usage: repo_commit.sh <message-file> ; builds /repo/_build, runs the 56 tests, commits include/ if all pass
set -e
cd /repo
cmake --build _build -j16 2>&1 | tail -1
out=$(ctest --test-dir _build -j8 2>&1 | grep "tests passed")
echo "$out"
case "$out" in *"100% tests passed, 0 tests failed out of 56"*) ;; *) echo "TESTS FAILED"; exit 1;; esac
git add include
git commit -q -F "$1"
git log --oneline | head -1
