#!/usr/bin/env python3
"""Regenerates /verif/MANIFEST.json from the table below (single source of truth for the claims)."""
import json
import os

VERIF = os.path.dirname(os.path.dirname(os.path.abspath(__file__)))

TB = ("Trusted base: clang 14 front end (template instantiation, overload and name resolution), the ctpgx "
      "extractor plugin, the frozen seed tables in ctpgsa (existence-checked on every run). Rules run on the "
      "instantiations of the witness matrix (/verif/witness) and, in the thorough tier, on every TU the repository "
      "builds; verdicts are per source construct of /repo's current ctpg.hpp.")

CLAIMS = {
    "C15": dict(
        category="proof",
        text="All the ways C++ lets a const call modify the parser object or shared state are enumerated from the "
             "resolved declarations and bodies of the current header and shown absent (IMM-1..9): entry points "
             "const, no mutable field, no const-removing cast, no non-const variable with static storage, no "
             "static local, parse state and custom lexer automatic locals, no pointer/reference-to-mutable "
             "member, no write through this. That is a proof of independence for all interleavings; a test or "
             "TSan run samples a few schedules.",
        design_ref="DESIGN.md 5/C15",
        note=TB + " Assumes thread-safe user functors/lexers/streams and a re-entrant standard library.",
        technique="declaration and effect analysis over the type-checked AST (custom clang plugin + rule engine)",
    ),
    "C16": dict(
        category="other",
        text="Non-interference of the verbose flag and of the error stream with the parse is decided by an effect "
             "and taint analysis of every function reachable from context_parse / regex::expr::match in the "
             "std::ostream and no_stream instantiations (EFF-V1..V5): stream writes only under verbose tests or in "
             "the three documented reports, verbose-guarded branches and printed operands effect-free, flag and "
             "stream flow nowhere else. TRACE ties the operand printed for each action to the operand the action "
             "uses. This covers all grammars and inputs; a test compares outputs for a few.",
        design_ref="DESIGN.md 5/C16",
        note=TB + " Not decided: completeness of the trace as a transcript of a reference LR run. Assumes the "
                  "user's operator<< and stream do not touch the parser.",
        technique="effect / taint analysis over resolved ASTs and call graph (custom clang plugin + rule engine)",
    ),
    "C10": dict(
        category="other",
        text="source_point::update is decided exactly by abstract interpretation over the finite domain "
             "{newline, other}; every advance of the parse position is shown, on every structured path of every "
             "function that writes it, to be paired with current_sp.update over exactly the skipped range; lexers "
             "receive the position by value; term values and messages read ps.current_sp; the whitespace skip is "
             "committed before any return. By induction over advances current_sp is the true line/column for all "
             "inputs and options, which no finite set of test inputs shows.",
        design_ref="DESIGN.md 5/C10",
        note=TB + " Loops are unrolled 0/1 times for the pairing rule, which is exact because the pairing is a "
                  "per-statement adjacency property.",
        technique="finite-domain abstract interpretation + path-sensitive pairing (must-precede) analysis",
    ),
    "C05": dict(
        category="other",
        text="solve_conflict and calculate_rule_precedence/associativity touch precedences only through "
             "comparisons, so their behaviour is a finite table: it is extracted by abstract interpretation of "
             "every structured path over {<,=,>} x {no_assoc,ltor,rtol} and compared with the readme rule (9+4+2 "
             "cases, exhaustive). The conflict-detection loop of transitions() is explored exhaustively as a "
             "finite-state system (flags, entry kind) x item class and its outcomes compared with the documented "
             "ones for every order of items. PRECPASS shows the numbers the user writes reach the tables "
             "(constructors, getters, rule operators), ORDER that the tables are filled in dependency order, "
             "PRECFLOW that nothing else reads them, IDX that RULE/RINFO/TERM indices are not confused.",
        design_ref="DESIGN.md 5/C05",
        note=TB + " Not decided: that every expression groups accordingly (LR theory + C01).",
        technique="finite-domain abstract interpretation + finite-state exploration + units-of-measure (index space) "
                  "inference over resolved ASTs",
    ),
    "C08": dict(
        category="other",
        text="One iteration of the driver loop is interpreted over the finite abstract domain (recovery_mode, "
             "consume_mode) x entry kind x {lexer failure, stack empty after pop, pending term is <eof>} with the "
             "helper members inlined; the extracted transition relation (next modes, ordered stack/input/report "
             "actions, loop exit) is compared row by row with the documented recovery algorithm (96 abstract "
             "cases, exhaustive). Unreachable rows are justified by reachability over the relation (MODES), by "
             "the abstract behaviour of get_current_term (GCT) and by the kinds the table builder can put into "
             "the error-token column (ERRCOL). Holds for every grammar, input and error placement.",
        design_ref="DESIGN.md 5/C08 + appendix B",
        note=TB + " Not decided: which states accept the error symbol (LR table, C01).",
        technique="finite-domain abstract interpretation of the driver loop with inlined helpers, compared with a "
                  "reference transition table",
    ),
    "C09": dict(
        category="other",
        text="The driver relation extracted as for C08 is queried for reporting: 'Syntax error' exactly once and "
             "only on the normal->recovery edge, 'Unexpected character' exactly once immediately before the "
             "lexer-failure sentinel after which the driver leaves the loop without any action, input consumed "
             "only by a shift or the documented discard, the result optional written only on the success edge, "
             "message contents (position first, offending term / byte), no unguarded stream write elsewhere.",
        design_ref="DESIGN.md 5/C09",
        note=TB + " Not decided: that an error entry is met exactly when the input leaves the language and at the "
                  "first offending term (canonical LR(1) property of the table, C01).",
        technique="finite-domain abstract interpretation of the driver loop + effect analysis of stream writes",
    ),
    "C01": dict(
        category="other",
        text="Language equality is not decided (it is a semantic property of an algorithm). Decided, exactly and for "
             "every grammar, are necessary conditions of a correct canonical-LR(1) construction that the suite's "
             "grammars cannot exercise: memo tables depend on their key only and are not published early on a "
             "recursive path (MEMO-K/P); linearised keys are injective, fit their table and agree between siblings "
             "(INJ); scans cover their whole index space (SCAN); the items produced by closure and goto, the "
             "FIRST/nullable scans and fixpoints, the column an item is filed under and the root item match the "
             "canonical definitions role by role on name-insensitive canonical forms (CLOSURE, FIRSTSFX, NULLSFX, "
             "FIXPOINT, GOTO, ADDSIT, ROOT); index spaces are not confused (IDX) and per-term/per-rule tables are "
             "filled slot-for-slot in order (TIX). These rules found and now guard the repaired defects D1-D3.",
        design_ref="DESIGN.md 5/C01",
        note=TB + " Not decided: that the construction as a whole yields exactly the grammar's language. A template "
                  "whose shape is not recognised yields exit 2 (no verdict), never a pass.",
        technique="memo-purity / injectivity / scan-coverage analyses, role templates over canonical forms, "
                  "units-of-measure inference for indices (custom clang plugin + rule engine)",
    ),
    "C11": dict(
        category="other",
        text="The per-cell printing code of write_state_diag_str is interpreted over the finite domain entry kind x "
             "conflict flag (11 cells, exhaustive) and the text printed is compared with what the driver does with "
             "such a cell; printed operands are tied to the cell by canonical forms and index-space typing (rule "
             "numbers as written, target states); the CONF fixpoint shows flag and kind are produced exactly when a "
             "shift and a reduce item (or two reduce items) meet; coverage rules show every rule, state, item and "
             "lookahead is listed; the diagnostics read the members the driver executes. The structural rules of "
             "the table construction are included as necessary conditions of 'the conflicts reported are the real "
             "ones'. These rules found the repaired defects D12 and D13.",
        design_ref="DESIGN.md 5/C11",
        note=TB + " Not decided: that the item sets are the true LR(1) item sets (undecided part of C01).",
        technique="finite-domain abstract interpretation of the printing code + canonical-form operand matching + "
                  "index-space inference",
    ),
    "C02": dict(
        category="other",
        text="The evaluation discipline of the driver is decided structurally on the resolved bodies, for every "
             "grammar and input: both stacks move in lock-step in every action (LOCK), a reduction uncovers the "
             "state, takes the goto from the rule's left side, invokes the rule's own functor exactly once on exactly "
             "the r topmost values in right-side order and only then erases them and pushes the result (ONCE, ARGS "
             "over all three arms of reduce_value_impl), a term's value is its own functor applied to the exact "
             "lexeme view with the current position (TERMV, SLICE), the result is the bottom value (RESULT); rule "
             "numbers, sorted positions, states and terms are never confused (IDX, TIX). The lexer's snapshot rule "
             "(MATCH) and the structural table rules are included as necessary conditions.",
        design_ref="DESIGN.md 5/C02",
        note=TB + " Not decided: that the table drives exactly the reductions of the derivation (undecided part of "
                  "C01).",
        technique="stack-effect pairing and ordering on structured paths, role templates over canonical forms, "
                  "index-space inference",
    ),
    "C04": dict(
        category="other",
        text="Longest match and first-listed priority are decided as structural facts for every term set and input: "
             "dfa_match snapshots (length, priority slot 0) at every accepting state and scans while transitions "
             "exist (MATCH, role template); slot order equals listing order because add_conflicted_term is the only "
             "writer and fills the first free slot, terms are added in ascending index by an ordered fold, each "
             "term's states are marked before being alt()-ed INTO the earlier terms' automaton and merge appends "
             "(PRIO); the whitespace sets are read from the constant tables and the skip loop's advance condition is "
             "extracted path-wise (WS); the functor receives exactly [current_it, current_it+len) of the caller's "
             "buffer (SLICE); a failed match reports once and returns the sentinel (GCT); iterators are compared "
             "with the end before every dereference (ITER); byte tables are indexed through char_to_idx (CHARIDX).",
        design_ref="DESIGN.md 5/C04",
        note=TB + " Not decided: that the merged automaton recognises the union of the terms' languages with the "
                  "right winner in every state (algorithmic, see C03).",
        technique="role templates over canonical forms, writer/reader analysis, constant-table reading, path-wise "
                  "condition extraction, finite-domain interpretation of get_current_term",
    ),
    "C12": dict(
        category="other",
        text="Each capacity is tied to the code that fills it, for all patterns/grammars/limits: the automaton size "
             "analyser and the builder are compared operation by operation as polynomials over their operands "
             "(states created, slice returned; rep for n == 0 and n != 0) (CAP-D); per-term-kind sizes against the "
             "states add_term_data_to_dfa creates and their sum against lexer_sm (CAP-T); pushes into item vectors "
             "against membership tests and the default cap against the count of valid items (CAP-I); growth of every "
             "fixed-capacity container against an inside capacity test, so that too-small user limits throw / are "
             "not constant expressions (CAP-K, CAP-B); the new-state index against the state cap by a small linear "
             "argument on every path (CAP-ST); the fixed parse stacks by push-site accounting (CAP-S), which reports "
             "the two recorded known findings.",
        design_ref="DESIGN.md 5/C12",
        note=TB + " Not decided: that the default STATE cap suffices for every grammar (heuristic; overflow is "
                  "checked and loud). Known findings: CAP-S x2 (known_findings.txt).",
        technique="symbolic (polynomial) comparison of sibling implementations, guarded-growth and path-wise bound "
                  "analysis, push-site accounting",
    ),
    "C06": dict(
        category="other",
        text="Memory-safety clauses that are visible in the shape of the code are decided for every input: a lexer "
             "result's length is used only after its validity test (TAG), containers test capacity before growing "
             "and bitsets their index (CAP-K/B/ST), byte tables are indexed through char_to_idx (CHARIDX), an index "
             "of space X only indexes arrays of dimension X (IDX over the whole header), sentinel-carrying values "
             "are compared with the sentinel before use as an index (SENT), moving iterators are compared with the "
             "end before every dereference and scans advance (ITER, MATCH), the match length is never narrowed "
             "(LENW), the stack top is read only when non-empty in pop_stacks (EMPTY), fixed parse stacks are "
             "accounted (CAP-S: the two recorded findings, loud since the cvector fix).",
        design_ref="DESIGN.md 5/C06",
        note=TB + " Not decided: termination of the driver loop; stack bounds that follow from LR table invariants "
                  "(erase(end - r), goto cell after a reduce); iterator discipline inside regex_lexer.",
        technique="typestate/tag analysis, guarded-growth analysis, units-of-measure inference, path-wise must-"
                  "precede analysis on structured control flow",
    ),
    "C07": dict(
        category="other",
        text="Decided for every literal-typed grammar and input: every function reachable (resolved call graph plus "
             "the two function-pointer tables) from a constexpr construction, parse or match is constexpr, structured, "
             "has literal locals and calls only constexpr library functions, which covers the error, recovery, "
             "verbose and diagnostic paths that the single constexpr test never evaluates (CEX); no code branches on "
             "is_constant_evaluated (NOFORK); the run-time undefined behaviours that the constant evaluator rejects "
             "are excluded structurally (TAG, EMPTY, ITER); the three buffer classes are const siblings with the "
             "same meaning of begin/end/get_view (BUF); stack types are chosen per buffer kind as documented "
             "(STACKSEL); the only buffer-dependent behaviour is the fixed stack capacity (CAP-S: recorded findings). "
             "A compile-fail witness (CEVAL: constexpr parses of rejected inputs must compile) accompanies the rules.",
        design_ref="DESIGN.md 5/C07",
        note=TB + " Not decided: equality of compile-time and run-time results as such; compiler-specific limits of "
                  "constant evaluation (g++ is used for the witness in the thorough tier only).",
        technique="constexpr-closure over the resolved call graph, sibling-implementation agreement on canonical "
                  "forms, typestate rules, compile-fail witness",
    ),
    "C13": dict(
        category="proof",
        text="The context travels through six functions and one function-pointer type. In every instantiation of the "
             "witness matrix (context passed as lvalue, const lvalue, prvalue, move-only rvalue, non-copyable "
             "lvalue) each carrying parameter is a reference type and each hand-over is std::forward of exactly "
             "that parameter (CTX-R), nothing of the context's type is constructed on the way (CTX-C), the context "
             "is the first functor argument iff the rule is contextual in all three arms of reduce_value_impl "
             "(ARGS), the rule operators produce the contextual flag as documented (CTX-O) and parse is "
             "context_parse with an empty context (CTX-P). By the C++ reference-binding rules this is identity and "
             "constness preservation for all inputs and grammars; obligations are enumerated from the source and "
             "each discharged by a resolved-AST rule.",
        design_ref="DESIGN.md 5/C13",
        note=TB + " 'In reduction order' is the order of reductions (C02). What a functor that takes the context by "
                  "value does to an rvalue context is the functor's own move.",
        technique="reference/forwarding chain analysis over resolved instantiations (custom clang plugin + rules)",
    ),
    "C14": dict(
        category="other",
        text="Copies are resolved calls of copy constructors / copy assignments: the parser's transport functions are "
             "scanned in the instantiations with std::string, std::vector and unique_ptr values, where a copy would "
             "compile silently (MOVE-T); every functor argument is std::get<T_k>(std::move(*(start+k))) of a distinct "
             "slot (ARGS); term_value moves its value in and, as an rvalue, out, cvector primitives move, the result "
             "is moved into the optional (MOVE-V); the consumed slice is erased right after the single invocation "
             "(ONCE); a parser with move-only nonterminal and typed-term values compiles on all buffers (MOVE-W, "
             "type-level witness); the value stack is an automatic std::vector or a cvector of a trivially "
             "destructible variant, hence exactly-once destruction on every exit (RAII). These rules found the "
             "repaired defects D11/D11b.",
        design_ref="DESIGN.md 5/C14",
        note=TB + " Not decided: copies made by design in user-visible helpers (val, push_back, lvalue conversion of "
                  "term_value).",
        technique="copy/move resolution analysis over instantiations with non-trivial value types, type-level "
                  "(compile-fail) witness",
    ),
    "C17": dict(
        category="other",
        text="Rejection is decided as a control-flow fact on every structured path: the three constructions that parse "
             "a pattern throw when the parse yields no value and read the value only after has_value() (REJ-1), and "
             "the automaton sizes are in-class constant initialisers so that a throwing parse is a compile error; "
             "find_str throws after a full scan, is the only producer of symbol indices (right sides by unique id, "
             "left sides by name) and regex ids embed the pattern (REJ-2); nterm rejects an empty name (REJ-3); all "
             "uses of the pattern parser run it with its own lexer and without white-space skipping (REJ-4); "
             "regex_lexer accepts a raw byte only after a printable test or a comparison with a literal syntax "
             "character, on every path (REJ-5).",
        design_ref="DESIGN.md 5/C17",
        note=TB + " Not decided: the exact set of strings the fixed pattern grammar + regex_lexer accept beyond these "
                  "clauses; that scanning a malformed pattern never reads past its end.",
        technique="must-throw / must-test path analysis on structured control flow, canonical-form matching of "
                  "symbol producers",
    ),
    "C18": dict(
        category="other",
        text="The custom-lexer path differs from the generated one in a single call expression: both arms of the one "
             "`if constexpr` are compared on canonical forms (same five arguments), and the finite-domain summary of "
             "get_current_term is computed separately for an instantiation of each kind and required to be identical "
             "(LEXARM). The uses of the result are decided by the shared rules: default result = the failure constant "
             "tested (SENT-C), consumes exactly the returned length and hands exactly that slice to the functor "
             "(SLICE, POS-P), length never narrowed (LENW) and read only when valid (TAG), index used as a term index "
             "(IDX), custom terms contribute no automaton states (CAP-T).",
        design_ref="DESIGN.md 5/C18",
        note=TB + " Not decided: behaviour for indices / lengths out of range (excluded by the property).",
        technique="sibling-arm agreement on canonical forms + finite-domain abstract interpretation per instantiation",
    ),
    "C19": dict(
        category="proof",
        text="All arities 1..9, all positions and all ordered position pairs are enumerated in a generated translation "
             "unit of 636 static_asserts over decltype with distinct non-copyable tag types and containers that accept "
             "only the documented element's tag; it is compiled, never run (clang++; g++ too in the thorough tier). "
             "Which argument is picked, that its value category is preserved, that the container comes back without "
             "a copy are facts of overload resolution and types, so compilation is the proof; negative witnesses must "
             "fail. That no other argument is read, and that construct list-initialises, follows from the patterns' "
             "ASTs (skipped parameters are unnamed) (HLP-A).",
        design_ref="DESIGN.md 5/C19",
        note="Trusted base: the C++ type checker of clang 14 (and g++ 12), the witness generator "
             "ctpgsa/gen/helpers_witness.py, the extractor for HLP-A.",
        technique="type-level encoding with compile-fail witnesses + AST rules on the template patterns",
    ),
}

# necessary-condition rules added during the validation rounds (DESIGN.md 5.A, second table)
ADDED = {
    "C01": "Also: the grammar the table is built from is the grammar the user wrote (GAPI2, NAMEFILL, TERMAPI: constructors, rule operators, ids, symbol lookup); reference summaries of the stable sort and the rule slices (SORTSL) and the frozen dependence order "
           "of the statements of the table construction (DEPORD-T); symbol lookup (REJ-2) and bitset primitives (BITSET).",
    "C02": "Also: the three buffers' get_view (BUF); no user functor is copied anywhere on the parse path (FCOPY), the fixed-capacity vector primitives "
           "match their reference summaries (CVEC), dependent statements of the driver keep their order (DEPORD), the "
           "helper functors' type-level witness (HLP).",
    "C04": "Also: reference summaries of the automaton construction (DFAB), of the pattern front end and of every term getter the lexer builder reads (REGEXFE, "
           "TERMAPI), dependence order of the statements of matcher and automaton builder (DEPORD), width of every "
           "carrier of a lexeme length (WIDTH), the caller's buffer is never taken by value or copied (BUFREF).",
    "C05": "Also: the scan for a rule's last term reaches position 0 (CALC range); precedences are signed ints end to end (WIDTH over the copy-flow class of term::precedence), every "
           "term kind defaults to precedence 0 / no associativity (DEFARG), getters' reference summaries (TERMAPI).",
    "C06": "Also: CVEC reference summaries, DEPORD over matcher and driver, WIDTH (lexeme length, stack depth), BUFREF, "
           "the reduce ordering rules ONCE/LOCK, POSB (a right-side position is read only after it was compared with the "
           "rule's length) and the driver relation DRV/MODES (the discard loop ends at end of input).",
    "C07": "Also: no library function takes or copies the caller's buffer by value (BUFREF).",
    "C11": "Also: reference summaries of the listing functions (DIAG) and the operand after 'prefer shift over reduce(' must "
           "be computed for this column, not carried from another one.",
    "C12": "Also: the size analyser and the builder read a pattern with the same parser and options (REJ-4).",
    "C19": "The type-level witness is decided in a pre-phase, before the witness grammars are extracted.",
    "C08": "Also: which symbol is the error symbol (NAMEFILL, TERMAPI), the recovery-mode flag primitives (GAPI); the fixed-capacity stack accounting for the recovery path (CAP-S, with its recorded finding) and the "
           "dependence order of the driver's statements (DEPORD); table rules as necessary conditions.",
    "C09": "Also: the names printed come from the term getters (TERMAPI), lengths and line/column counters do not wrap "
           "(WIDTH), white-space and matcher rules (WS, MATCH) and the table rules as necessary conditions.",
    "C10": "Also: line/column and lexeme-length carriers are wide enough (WIDTH) and position updates keep their order "
           "relative to the iterator advances (DEPORD).",
    "C13": "Also RULE-T (type-level witness of the rule operators, pre-phase), OVL (the convenience overloads forward the context) and CTX-T: on the template arguments of every instantiation, init_nth_reductor<Nr, RC, F> stores "
           "&reduce_value<Nr, RC, F>, which calls reduce_value_impl<RC, F> (including a contextual functor that could "
           "also be called without the context).",
    "C14": "Also: the lock-step of cursor and value stack (LOCK) and the helper functors' type-level witness (HLP-T).",
    "C15": "Also RULE-T (the functor is stored by value whatever the argument's category / constness; type-level, pre-phase) and IMM-10: rules, terms and nterms own their members in every instantiation (no reference members; witness "
           "with lvalue functors), and the library's own functors move only from rvalues (HLP-T).",
    "C16": "Also: NAMEFILL (every printed name is filled in), OVL (stream-less / option-less overloads hand everything else on unchanged); the name table of the trace is indexed through char_to_idx (CHARIDX), every path of get_current_term that "
           "produces a term announces it exactly once after storing it (TRACE-R), no stateful stream manipulator is inserted "
           "into the caller's stream (EFF-V5).",
    "C17": "Also: REGEXGRAM (the pattern grammar object itself as a reference: terms, nonterminals, rules, functors), NAMEFILL / GAPI2 (tables, constructors), reference summaries of the pattern lexer / character decoding and of the term getters (REGEXFE, TERMAPI).",
    "C18": "Also: LEXLOCAL (a fresh lexer object per request), WIDTH over the returned length, TERMAPI / DEFARG for custom_term, BUF, white-space and capacity rules.",
}

NOT_APPLICABLE = {
    "C03": "Language equality between a regex pattern and the automaton built by in-place state merging is a "
           "semantic property of an algorithm over unbounded patterns; no dataflow/typestate/shape rule is a "
           "necessary and checkable condition of it (the alphabet-indexing clause is claimed under C04/C06). "
           "Counter-examples found by reading ([ab]c|ad accepts bd; a*a rejects a) are recorded in DESIGN.md 6 "
           "for other technique families.",
}

NOT_YET = "check not built yet in this session (rules designed in DESIGN.md 5); listed here until its command exists"

ALL = ["C%02d" % i for i in range(1, 20)]


def main():
    checks = []
    for pid in ALL:
        if pid not in CLAIMS:
            continue
        c = CLAIMS[pid]
        checks.append({
            "property_id": pid,
            "quick_cmd": "python3 ctpgsa/check.py %s --tier quick" % pid,
            "thorough_cmd": "python3 ctpgsa/check.py %s --tier thorough" % pid,
            "evidence_file": "/verif/evidence/%s.json" % pid,
            "replay_cmd_template": "cat {path}",
            "engine": "ctpgsa",
            "level_claimed": {"category": c["category"], "text": c["text"] + (" " + ADDED[pid] if pid in ADDED else ""),
                              "design_ref": c["design_ref"]},
            "level_note": c["note"],
            "technique": c["technique"],
        })
    na = []
    for pid in ALL:
        if pid in CLAIMS:
            continue
        na.append({"property_id": pid, "reason": NOT_APPLICABLE.get(pid, NOT_YET)})
    m = {
        "version": 1,
        "setup_cmd": "./setup.sh",
        "hooks": {
            "guard": "CTPG_VERIF",
            "enable": "no hooks: every rule reads the unmodified source through the clang front end",
            "baseline_off_cmd": "cmake -G Ninja -S /repo -B /repo/_build -DCTPG_ENABLE_TESTS=ON && "
                                "cmake --build /repo/_build -j16 && ctest --test-dir /repo/_build -j8 --timeout 900",
            "source_commits": [],
            "add_only": True,
        },
        "engines": [{
            "name": "ctpgsa",
            "path": "/verif/ctpgsa",
            "serves_properties": sorted(CLAIMS),
            "kind_free_text": "custom static analysis: clang-14 frontend plugin (extractor/ctpgx.cc) dumping the "
                              "resolved AST of every template pattern and instantiation of ctpg.hpp + Python rule "
                              "engine (declaration rules, effect/taint, structured-path and finite-domain abstract "
                              "interpretation, units-of-measure inference for indices, compile-fail witnesses)",
        }],
        "checks": checks,
        "not_applicable": na,
        "notes": "Static analysis only. exit 0 = every obligation discharged; exit 1 + VIOLATION line = a construct "
                 "violates a rule; exit 2 + ANALYSIS-INCOMPLETE = the tree could not be analysed (vanished anchor, "
                 "unrecognised shape): no verdict. Genuine defects repaired in /repo are listed as 'fixed:' in "
                 "known_findings.txt; recorded ones as 'known:'.",
    }
    with open(os.path.join(VERIF, "MANIFEST.json"), "w") as f:
        json.dump(m, f, indent=1)
        f.write("\n")
    print("MANIFEST.json: %d checks, %d not applicable" % (len(checks), len(na)))


if __name__ == "__main__":
    main()
