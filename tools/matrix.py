#!/usr/bin/env python3
"""Runs every check against every seeded / self-test change on scratch copies of the repository (never /repo itself).
usage: matrix.py [--only <substring>] [--checks C01,C02] [--jobs N]
Writes /verif/selftest/matrix.json: {change: {check: exit code}} and prints the table."""
import concurrent.futures as cf
import glob
import json
import os
import shutil
import subprocess
import sys
import tempfile

VERIF = os.path.dirname(os.path.dirname(os.path.abspath(__file__)))
ALL = ["C%02d" % i for i in range(1, 20) if i != 3]


def changes():
    out = []
    for d in sorted(glob.glob(os.path.join(VERIF, "seeded", "*"))):
        p = os.path.join(d, "patch.diff")
        if os.path.exists(p):
            out.append(("seeded/" + os.path.basename(d), p, "mutant"))
    for p in sorted(glob.glob(os.path.join(VERIF, "selftest", "mutants", "*.patch"))):
        out.append(("selftest/" + os.path.basename(p)[:-6], p, "mutant"))
    for p in sorted(glob.glob(os.path.join(VERIF, "selftest", "benign", "*.patch"))):
        out.append(("benign/" + os.path.basename(p)[:-6], p, "benign"))
    for d in sorted(glob.glob("/tmp/mut/C*/[AB]")):
        p = os.path.join(d, "patch.diff")
        name = "tmp/" + d.split("/")[-2] + "-" + d.split("/")[-1]
        if os.path.exists(p) and not os.path.exists(os.path.join(VERIF, "seeded", d.split("/")[-2] + "-" + d.split("/")[-1])):
            out.append((name, p, "mutant"))
    for d in sorted(glob.glob("/tmp/mut2/C*/[AB]")):
        p = os.path.join(d, "patch.diff")
        name = "tmp2/" + d.split("/")[-2] + "-" + d.split("/")[-1]
        if os.path.exists(p) and not os.path.exists(os.path.join(VERIF, "seeded", "r2-" + d.split("/")[-2] + "-" + d.split("/")[-1])):
            out.append((name, p, "mutant"))
    for d in sorted(glob.glob("/tmp/mut3/C*/[AB]")):
        p = os.path.join(d, "patch.diff")
        name = "tmp3/" + d.split("/")[-2] + "-" + d.split("/")[-1]
        if os.path.exists(p) and not os.path.exists(os.path.join(VERIF, "seeded", "r3-" + d.split("/")[-2] + "-" + d.split("/")[-1])):
            out.append((name, p, "mutant"))
    for d in sorted(glob.glob("/tmp/mut4m/C*/[AB]")):
        p = os.path.join(d, "patch.diff")
        name = "tmp4/" + d.split("/")[-2] + "-" + d.split("/")[-1]
        if os.path.exists(p) and not os.path.exists(os.path.join(VERIF, "seeded", "r4-" + d.split("/")[-2] + "-" + d.split("/")[-1])):
            out.append((name, p, "mutant"))
    for d in sorted(glob.glob("/tmp/mut5m/C*/[AB]")):
        p = os.path.join(d, "patch.diff")
        name = "tmp5/" + d.split("/")[-2] + "-" + d.split("/")[-1]
        if os.path.exists(p) and not os.path.exists(os.path.join(VERIF, "seeded", "r5-" + d.split("/")[-2] + "-" + d.split("/")[-1])):
            out.append((name, p, "mutant"))
    for d in sorted(glob.glob("/tmp/mut6m/C*/[AB]")):
        p = os.path.join(d, "patch.diff")
        name = "tmp6/" + d.split("/")[-2] + "-" + d.split("/")[-1]
        if os.path.exists(p) and not os.path.exists(os.path.join(VERIF, "seeded", "r6-" + d.split("/")[-2] + "-" + d.split("/")[-1])):
            out.append((name, p, "mutant"))
    for d in sorted(glob.glob("/tmp/mut7m/C*/[AB]")):
        p = os.path.join(d, "patch.diff")
        name = "tmp7/" + d.split("/")[-2] + "-" + d.split("/")[-1]
        if os.path.exists(p) and os.path.exists(os.path.join(d, "confirm.json")) and \
                not os.path.exists(os.path.join(VERIF, "seeded", "r7-" + d.split("/")[-2] + "-" + d.split("/")[-1])):
            out.append((name, p, "mutant"))
    for d in sorted(glob.glob("/tmp/mut2/R*/N*")):
        p = os.path.join(d, "patch.diff")
        name = "tmpbenign/" + d.split("/")[-2] + "-" + d.split("/")[-1]
        if os.path.exists(p) and not os.path.exists(os.path.join(VERIF, "selftest", "benign", d.split("/")[-2] + "-" + d.split("/")[-1] + ".patch")):
            out.append((name, p, "benign"))
    for d in sorted(glob.glob("/tmp/mut8/S*/N*")):
        p = os.path.join(d, "patch.diff")
        nm = "B7-W" + d.split("/")[-2][1:] + "-" + d.split("/")[-1]
        if os.path.exists(p) and os.path.exists(os.path.join(d, "confirmed")) and \
                not os.path.exists(os.path.join(VERIF, "selftest", "benign", nm + ".patch")):
            out.append(("tmpbenign8/" + nm, p, "benign"))
    return out


def run_one(args):
    name, patch, kind, checks = args
    d = tempfile.mkdtemp(prefix="ctpgsa-mx-")
    try:
        for sub in ("include", "tests", "examples"):
            shutil.copytree(os.path.join("/repo", sub), os.path.join(d, sub))
        r = subprocess.run(["patch", "-p1", "-s", "-i", patch], cwd=d, stdout=subprocess.PIPE, stderr=subprocess.STDOUT, text=True)
        if r.returncode != 0:
            return name, kind, {"apply": "failed: " + r.stdout[:200]}
        env = dict(os.environ, CTPG_REPO=d, CTPGSA_EVIDENCE_DIR=os.path.join(d, "evidence"))
        res = {}
        for c in checks:
            r = subprocess.run([sys.executable, os.path.join(VERIF, "ctpgsa", "check.py"), c, "--tier", "quick"], env=env,
                               stdout=subprocess.PIPE, stderr=subprocess.STDOUT, text=True, cwd=VERIF)
            rules = sorted({l.split("[")[1].split("]")[0] for l in r.stdout.splitlines() if l.strip().startswith("violation [")})
            res[c] = {"rc": r.returncode, "rules": rules}
            if r.returncode == 2:
                res[c]["why"] = [l for l in r.stdout.splitlines() if "INCOMPLETE" in l][:1]
        return name, kind, res
    finally:
        shutil.rmtree(d, ignore_errors=True)


def main(argv):
    only = argv[argv.index("--only") + 1] if "--only" in argv else None
    checks = argv[argv.index("--checks") + 1].split(",") if "--checks" in argv else ALL
    jobs = int(argv[argv.index("--jobs") + 1]) if "--jobs" in argv else 8
    todo = [(n, p, k, checks) for n, p, k in changes() if not only or only in n]
    table = {}
    with cf.ThreadPoolExecutor(max_workers=jobs) as ex:
        for name, kind, res in ex.map(run_one, todo):
            table[name] = {"kind": kind, "results": res}
            if "apply" in res:
                print("%-55s %s" % (name, res["apply"]))
                continue
            hit = [c for c in checks if res[c]["rc"] == 1]
            inc = [c for c in checks if res[c]["rc"] == 2]
            print("%-55s %-7s caught by: %-45s incomplete: %s" % (name, kind, ",".join(hit) or "-", ",".join(inc) or "-"))
    out = os.path.join(VERIF, "selftest", "matrix.json")
    old = {}
    if os.path.exists(out) and (only or "--checks" in argv):
        old = json.load(open(out))
    for name, entry in table.items():
        if name in old and "--checks" in argv and "results" in old[name] and "apply" not in entry["results"]:
            merged = dict(old[name]["results"])
            merged.update(entry["results"])
            entry = {"kind": entry["kind"], "results": merged}
        old[name] = entry
    json.dump(old, open(out, "w"), indent=1, sort_keys=True)


if __name__ == "__main__":
    main(sys.argv[1:])
