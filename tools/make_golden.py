#!/usr/bin/env python3
"""(Re)freezes the reference summaries from the CURRENT tree. Run only on a tree whose functions were reviewed against
their contracts (ctpgsa/goldenreg.py); the JSON files are committed."""
import os, sys
sys.path.insert(0, os.path.dirname(os.path.dirname(os.path.abspath(__file__))))
from ctpgsa import facts, golden, goldenreg
fx = facts.Facts(facts.witness_tus())
only = sys.argv[1:] 
for name, (q, contract, sel) in goldenreg.REGISTRY.items():
    if only and name not in only:
        continue
    n = golden.freeze(fx, name, q, contract, **sel)
    print("%-32s %3d events" % (name, n))
