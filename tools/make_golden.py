#!/usr/bin/env python3
"""(Re)freezes the reference summaries from the CURRENT tree. Run only on a tree whose functions were reviewed against
their contracts (ctpgsa/goldenreg.py); the JSON files are committed."""
import os, sys
sys.path.insert(0, os.path.dirname(os.path.dirname(os.path.abspath(__file__))))
from ctpgsa import facts, golden, goldenreg
fx = facts.Facts(facts.witness_tus())
only = sys.argv[1:] 
for name, (q, contract, sel) in goldenreg.REGISTRY.items():
    if only and name not in only:
        continue
    try:
        n = golden.freeze(fx, name, q, contract, **sel)
        print("%-32s %3d events" % (name, n))
    except Exception as e:
        print("%-32s FAILED: %s" % (name, str(e)[:120]))

from ctpgsa import deporder
for name, (q, npar) in goldenreg.DEP.items():
    if only and name not in only and ("dep_" + name) not in only:
        continue
    try:
        n = deporder.freeze(fx, name, q, npar)
        print("dep_%-28s %3d ordered dependences" % (name, n))
    except Exception as e:
        print("dep_%-28s FAILED: %s" % (name, e))

if not only or "regex_grammar" in only:
    from ctpgsa import gramrules
    print("regex_grammar                    %3d rules" % gramrules.freeze(fx))

if not only or "loops" in only:
    import json
    loops = {}
    for name in goldenreg.REGISTRY:
        p = golden.path_for(name)
        if not os.path.exists(p):
            continue
        g = json.load(open(p))
        fns = golden.select(fx, g["function"], g.get("nparams"), enclosing=g.get("enclosing"), ptypes=g.get("ptypes"))
        if g.get("param0_contains"):
            fns = [f for f in fns if g["param0_contains"] in f.facts.T(f.o["params"][0]["t"])]
        if fns:
            loops[name] = golden.loop_count(fns[0])
    json.dump(loops, open(os.path.join(golden.GOLDEN_DIR, "loops.json"), "w"), indent=0, sort_keys=True)
    print("loops.json                       %3d functions" % len(loops))
