#!/usr/bin/env python3
"""(Re)freezes the reference summaries from the CURRENT tree. Run only on a tree whose functions were reviewed against
their contracts (ctpgsa/goldenreg.py); the JSON files are committed."""
import os, sys
sys.path.insert(0, os.path.dirname(os.path.dirname(os.path.abspath(__file__))))
from ctpgsa import facts, golden, goldenreg
fx = facts.Facts(facts.witness_tus())
only = sys.argv[1:] 
for name, (q, contract, sel) in goldenreg.REGISTRY.items():
    if only and name not in only:
        continue
    try:
        n = golden.freeze(fx, name, q, contract, **sel)
        print("%-32s %3d events" % (name, n))
    except Exception as e:
        print("%-32s FAILED: %s" % (name, str(e)[:120]))

from ctpgsa import deporder
for name, (q, npar) in goldenreg.DEP.items():
    if only and name not in only and ("dep_" + name) not in only:
        continue
    try:
        n = deporder.freeze(fx, name, q, npar)
        print("dep_%-28s %3d ordered dependences" % (name, n))
    except Exception as e:
        print("dep_%-28s FAILED: %s" % (name, e))

if not only or "regex_grammar" in only:
    from ctpgsa import gramrules
    print("regex_grammar                    %3d rules" % gramrules.freeze(fx))
