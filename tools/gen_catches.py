#!/usr/bin/env python3
"""Regenerates the 'which check catches which change' table of DESIGN.md (between the CATCHES markers) from
selftest/matrix.json and the seeded metadata."""
import glob, json, os, re
V = os.path.dirname(os.path.dirname(os.path.abspath(__file__)))
mx = json.load(open(os.path.join(V, "selftest", "matrix.json")))
rows = []
for name in sorted(mx):
    e = mx[name]
    res = e["results"]
    if "apply" in res:
        continue
    hit = sorted(c for c, r in res.items() if r["rc"] == 1)
    inc = sorted(c for c, r in res.items() if r["rc"] == 2)
    summary = ""
    if name.startswith("seeded/"):
        mp = os.path.join(V, name, "meta.json")
        if os.path.exists(mp):
            m = json.load(open(mp))
            summary = (m.get("summary") or "")[:110]
            own = m["property"]
    elif name.startswith("benign/"):
        mp = os.path.join(V, "selftest", "benign", name.split("/")[1] + ".json")
        if os.path.exists(mp):
            summary = (json.load(open(mp)).get("summary") or "")[:110]
    rules = sorted({r for c in hit for r in res[c]["rules"]})
    rows.append((name, e["kind"], summary.replace("|", "/"), ",".join(hit) or "—", ",".join(rules)[:60], ",".join(inc) or ""))
out = ["| change | kind | what it does | reported by (exit 1) | rules | exit 2 |", "|---|---|---|---|---|---|"]
for r in rows:
    out.append("| %s | %s | %s | %s | %s | %s |" % r)
n_mut = sum(1 for r in rows if r[1] == "mutant")
n_own = 0
for r in rows:
    if r[1] == "mutant" and r[0].startswith("seeded/"):
        import re as _re
        prop = _re.search(r"(C\d\d)", r[0]).group(1)
        if prop in r[3].split(","):
            n_own += 1
n_seed = sum(1 for r in rows if r[0].startswith("seeded/"))
n_ben = sum(1 for r in rows if r[1] == "benign")
n_fa = sum(1 for r in rows if r[1] == "benign" and r[3] != "—")
n_b2 = sum(1 for r in rows if r[1] == "benign" and r[5])
head = ("%d breaking changes (%d from independent sub-agents, of which %d are reported by the check of the property they "
        "were written against; the rest are reversals of the repaired defects and hand-made variants) and %d "
        "behaviour-preserving refactorings (%d reported = false alarms, %d answered 'cannot analyse').\n\n" % (
            n_mut, n_seed, n_own, n_ben, n_fa, n_b2))
text = head + "\n".join(out) + "\n"
p = os.path.join(V, "DESIGN.md")
s = open(p).read()
a, b = "<!-- CATCHES:BEGIN -->", "<!-- CATCHES:END -->"
if a in s and b in s:
    s = s[:s.index(a) + len(a)] + "\n" + text + s[s.index(b):]
    open(p, "w").write(s)
print(head)
