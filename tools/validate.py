#!/usr/bin/env python3-vt
"""Validate MANIFEST.json and every evidence file against the schemas in /root/.vp."""
import glob, json, sys
import jsonschema
ok = True
m = json.load(open('/verif/MANIFEST.json'))
try:
    jsonschema.validate(m, json.load(open('/root/.vp/MANIFEST.schema.json')))
    print("MANIFEST ok:", len(m['checks']), "checks,", len(m.get('not_applicable', [])), "not applicable")
except Exception as e:
    ok = False; print("MANIFEST INVALID:", str(e)[:500])
es = json.load(open('/root/.vp/EVIDENCE.schema.json'))
for f in sorted(glob.glob('/verif/evidence/C*.json')):
    try:
        jsonschema.validate(json.load(open(f)), es); print("evidence ok:", f)
    except Exception as e:
        ok = False; print("EVIDENCE INVALID:", f, str(e)[:300])
ids = {json.loads(l)['id'] for l in open('/verif/properties.jsonl')}
claimed = {c['property_id'] for c in m['checks']}
na = {c['property_id'] for c in m.get('not_applicable', [])}
if claimed | na != ids or claimed & na:
    ok = False; print("property coverage mismatch: missing", ids - claimed - na, "both", claimed & na)
sys.exit(0 if ok else 1)
