#!/bin/bash
# usage: try_mutant.sh <patch.diff> <Cxx> [<Cyy> ...]   -- applies the patch to /repo, runs the quick checks, reverts
patch="$1"; shift
cd /repo || exit 3
if ! git diff --quiet -- include; then echo "/repo/include is dirty, refusing"; exit 3; fi
git apply "$patch" || { echo "patch does not apply"; exit 3; }
for p in "$@"; do
  out=$(cd /verif && python3 ctpgsa/check.py "$p" --tier quick 2>&1); rc=$?
  echo "--- $p exit=$rc"
  echo "$out" | grep -E "violation|VIOLATION|INCOMPLETE|KNOWN" | cut -c1-260 | head -8
done
git checkout -- include
# the evidence files now describe the mutated tree: regenerate them on the clean tree
for p in "$@"; do (cd /verif && python3 ctpgsa/check.py "$p" --tier quick >/dev/null 2>&1); done
