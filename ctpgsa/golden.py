"""GOLDEN — reference summaries ("sibling agreement through time").

For small functions whose whole behaviour is fixed by a documented contract (character decoding of the regex front end,
the pattern lexer's accepted shapes, the fixed-capacity container primitives, the stable sort, the rule slices), the
path-signature summary {event -> condition} of the function was reviewed against the documentation on the repaired tree
and frozen under ctpgsa/golden/<name>.json together with the contract in words. A check recomputes the summary on the
current tree and compares:
  same event text, equivalent condition (truth table)  -> holds
  same event text, other condition                      -> violation (the function now does X under other conditions)
  reference event gone, but an event of the same kind with the same head or sharing atoms exists -> violation
  reference event gone without counterpart              -> unknown shape: exit 2 (never a verdict)
  extra exit / extra write                              -> violation when everything else matches
Canonical forms make this insensitive to renames, temporaries, nesting, && / || restructuring and extracted helpers.
"""
import json
import os

from . import astq as A
from . import pathsig as PS
from .canon import Canon
from .facts import walk, strip, VERIF, AnalysisIncomplete
from .lr import _drop_noise

GOLDEN_DIR = os.path.join(VERIF, "ctpgsa", "golden")
STD_OK = ("move", "forward", "size")


def pure_call(cn_, n):
    """A call that can only produce a value: a free / static / const member function all of whose parameters are
    taken by value, by const reference or by pointer to const. Its value shows in whatever uses it, so it is not an
    event of its own (evaluating it once into a named temporary or twice in place is the same behaviour)."""
    c = n.get("callee") or {}
    if c.get("k") not in ("Function", "CXXMethod"):
        return False
    if c.get("k") == "CXXMethod" and not (c.get("const") or c.get("static")):
        return False
    ft = cn_.fn.facts.T(c.get("t"))
    return not any(A.mutable_ref(p) for p in A.split_params(ft))


def _local_target(cn_, n):
    """The written object of an assignment / increment node is a by-value local or a by-value parameter (its value is
    only visible through what is later computed from it: value numbering carries it there)."""
    k = n.get("k")
    if k in ("BinaryOperator", "CompoundAssignOperator", "UnaryOperator"):
        t = n["c"][0]
    elif k == "CXXOperatorCallExpr" and len(n.get("c") or []) >= 2:
        t = n["c"][1]
    else:
        return False
    s = strip(t, casts=True)
    if s is None or s.get("k") != "DeclRefExpr":
        return False
    d = s["d"]
    if d["k"] not in ("Var", "ParmVar") or d.get("global") or d.get("staticmember"):
        return False
    if d["id"] in cn_.defs:
        return False                      # an alias: the write goes to what it names
    for p in cn_.fn.o["params"]:
        if p["id"] == d["id"]:
            return not p.get("ref")
    t_ = cn_.fn.facts.TC(d.get("t"))
    return not t_.rstrip().endswith("&")


def events(cn_, node):
    out = [x for x in PS.default_events(cn_, node) if not (x.kind in ("assign", "inc") and _local_target(cn_, x.node))]
    top = strip(node, casts=True)
    if top is not None and top.get("k") == "CXXOperatorCallExpr" and top.get("op") == "<<" and \
            ((top.get("callee") or {}).get("f") != "ctpg" or "stream" in cn_.fn.facts.T(top.get("t")).lower()):
        # an insertion chain `s << a << b`: every inserted operand is an event (how the chain is cut into statements
        # is a matter of style); their order is the business of the dependence order
        x = top
        ops = []
        while x is not None and x.get("k") == "CXXOperatorCallExpr" and x.get("op") == "<<" and len(x.get("c") or []) == 3:
            ops.append(x["c"][2])
            x = strip(x["c"][1], casts=True)
        for o in reversed(ops):
            out.append(PS.Event("print", cn_.c(o), o))
    for n in walk(node):
        k = n.get("k")
        if k == "CompoundAssignOperator" and not _local_target(cn_, n):
            out.append(PS.Event("assign", cn_.c(n), n))
        elif k in ("CXXMemberCallExpr", "CallExpr"):
            c = n.get("callee") or {}
            if c.get("n") in ("set", "add", "reset", "push_back", "emplace_back"):
                continue
            if c.get("f") == "ctpg" or c.get("n") in STD_OK:
                if c.get("n") in ("move", "forward") or pure_call(cn_, n):
                    continue
                out.append(PS.Event("call", cn_.c(n), n))
        elif k == "CXXThrowExpr":
            pass
    return out


def select(fx, q, nparams=None, pick=None, enclosing=None, ptypes=None):
    if enclosing:
        # a lambda is identified by the function it is written in (its own name contains a source position)
        outs = []
        for f in fx.all_fns():
            if f.is_pattern or not f.o.get("lambda"):
                continue
            e = f.facts.by_id.get(f.o.get("enclosing_fn"))
            if e is not None and e.o["q"] == enclosing:
                outs.append(f)
        return outs
    fns = [f for f in fx.fns(q) if not f.o.get("implicit") and not f.o.get("defaulted") and
           (nparams is None or len(f.o["params"]) == nparams)]
    if pick:
        fns = [f for f in fns if pick(f)]
    if ptypes:
        # overloads with the same number of parameters: by a substring of the canonical type of a parameter
        def _m(f, i, sub):
            if int(i) >= len(f.o["params"]):
                return False
            t = f.facts.TC(f.o["params"][int(i)]["t"])
            return t == sub[1:] if sub.startswith("=") else sub in t
        fns = [f for f in fns if all(_m(f, i, sub) for i, sub in ptypes.items())]
    return fns


def summarise(f, unroll=1, known=None):
    cn = Canon(f, uniform=True, noinline=True)
    conds, nodes = PS.event_conditions(cn, f.body, events_of=events, unroll=unroll, drop=_drop_noise, versioned=True,
                                       cond_events=True, known=known)
    if known is not None:
        # the call of a looked-through helper is not an event of its own
        import re as _re
        conds = {k: v for k, v in conds.items()
                 if not (k[0] == "call" and _re.match(r"(\w+)\(", k[1]) and _re.match(r"(\w+)\(", k[1]).group(1) not in known
                         and _looked_through(f, _re.match(r"(\w+)\(", k[1]).group(1)))}
    # `continue` is control flow inside one iteration: what it skips shows in the conditions of the other events
    # the same holds for `break` (the loop condition of the next round sees it) and for a bare `return;` of a void
    # function (falling off the end is the same exit)
    conds = {k: v for k, v in conds.items() if k[0] not in ("continue", "break") and k != ("return", "")}
    inits = []
    for i in f.o.get("inits", ()):
        if i.get("member") and i.get("init") is not None and (i.get("written") or i.get("inclass")):
            inits.append(("init", "%s(%s)" % (i["member"], cn.c(i["init"]))))
        elif (i.get("base") or i.get("delegating")) and i.get("init") is not None and i.get("written"):
            inits.append(("init", "%s %s" % ("base" if i.get("base") else "delegate", cn.c(i["init"]))))
    for k in inits:
        conds[k] = {frozenset()}
    return conds, nodes


def _looked_through(f, name):
    """`name` is a member function of f's own class with a body (pathsig inlines exactly those)."""
    for g in f.facts.fns:
        if g.o.get("n") == name and g.o.get("parent") == f.o.get("parent") and g.body is not None and not g.is_pattern:
            return True
    return False


def to_json(conds):
    return [{"kind": k, "text": t, "dnf": sorted([sorted([list(a) for a in c]) for c in d])} for (k, t), d in sorted(conds.items())]


def from_json(ev):
    return {(e["kind"], e["text"]): {frozenset((a, bool(p)) for a, p in c) for c in e["dnf"]} for e in ev}


def path_for(name):
    return os.path.join(GOLDEN_DIR, name + ".json")


def check(chk, fx, rule, name, optional=False):
    """Compare the function(s) registered under `name` with the frozen summary."""
    p = path_for(name)
    if not os.path.exists(p):
        chk.incomplete("reference summary %s missing" % name)
    g = json.load(open(p))
    fns = select(fx, g["function"], g.get("nparams"), enclosing=g.get("enclosing"), ptypes=g.get("ptypes"))
    if g.get("param0_contains"):
        fns = [f for f in fns if g["param0_contains"] in f.facts.T(f.o["params"][0]["t"])]
    if not fns:
        if optional and any(True for _ in fx.fns(g["function"], patterns=True, insts=False)):
            # a primitive that still exists but is not used by any witness instantiation of this tree: nothing can
            # depend on it here
            chk.note("%s: %s is not instantiated in this tree (unused): not compared" % (rule, g["function"]))
            return None
        chk.incomplete("%s: function %s not found / not instantiated" % (rule, g["function"]))
    f = fns[0]
    ref = from_json(g["events"])
    # helpers that the reference does not know (a maintainer moved part of the function into a private member) are
    # looked through: their events count as the function's own
    import re as _re
    known = set(g.get("callees", ()))
    for (k, t), d in ref.items():
        known.update(_re.findall(r"(\w+)\(", t))
        for conj in d:
            for a, _p in conj:
                known.update(_re.findall(r"(\w+)\(", a))
    try:
        conds, nodes = summarise(f, g.get("unroll", 1), known)
    except AnalysisIncomplete:
        raise
    # reassigned locals are numbered by declaration order: undo a shift of the numbering
    from .canon import best_renaming, rename_text
    texts = lambda cs: {k[1] for k in cs} | {a for d in cs.values() for conj in d for a, _ in conj}
    mp = best_renaming(texts(ref), texts(conds))
    if mp:
        conds = {(k[0], rename_text(mp, k[1])): {frozenset((rename_text(mp, a), p) for a, p in conj) for conj in d}
                 for k, d in conds.items()}
        nodes = {(k[0], rename_text(mp, k[1])): v for k, v in nodes.items()}
    # a call of a local lambda (a helper the maintainer wrote inside the function) is not looked through: unknown shape
    ref_texts = {k[1] for k in ref} | {a for d in ref.values() for conj in d for a, _ in conj}
    for k, d in conds.items():
        for t in [k[1]] + [a for conj in d for a, _ in conj]:
            if "<lambda>(" in t and t not in ref_texts:
                chk.defer_incomplete("%s: %s now calls a local lambda (%s): not looked through, not compared" % (
                    rule, f.o["n"], t[:60]))
                return f
    expected = {k: (v, g["contract"]) for k, v in ref.items()}
    before = len(chk.violations)
    PS.compare(chk, rule, f, f.body, conds, nodes, expected, shorten=lambda s: s[:160])
    if len(chk.violations) > before:
        # a difference is a verdict only when the function is still written in the terms of the reference: the same
        # loops, and conditions over (some of) the same atoms. A function rewritten with another loop structure or in
        # another vocabulary (p[i] for *p, a bounded loop for an unrolled sequence) is an unknown shape
        why = _unknown_shape(f, name, ref, conds)
        if why:
            withdrawn = chk.violations[before:]
            del chk.violations[before:]
            for v in withdrawn:
                v["verdict"] = "not-analysed"
            chk.defer_incomplete("%s: %s is written in another shape than its reference summary (%s): %d difference(s) "
                                 "not judged" % (rule, f.o["n"], why, len(withdrawn)))
    return f


def loop_count(f):
    return sum(1 for n in walk(f.body) if n.get("k") in ("ForStmt", "WhileStmt", "DoStmt", "CXXForRangeStmt"))


def _unknown_shape(f, name, ref, conds):
    lp = os.path.join(GOLDEN_DIR, "loops.json")
    if os.path.exists(lp):
        want = json.load(open(lp)).get(name)
        if want is not None and loop_count(f) != want:
            return "%d loop(s), the reference has %d" % (loop_count(f), want)
    atoms = lambda cs: {a for d in cs.values() for conj in d for a, _ in conj}
    ra, ca = atoms(ref), atoms(conds)
    if ra and ca and not (ra & ca):
        return "no condition of the reference occurs in the code"
    return None


def freeze(fx, name, q, contract, nparams=None, param0_contains=None, enclosing=None, unroll=1, ptypes=None):
    fns = select(fx, q, nparams, enclosing=enclosing, ptypes=ptypes)
    if param0_contains:
        fns = [f for f in fns if param0_contains in f.facts.T(f.o["params"][0]["t"])]
    if not fns:
        raise AnalysisIncomplete("cannot freeze %s: %s not found" % (name, q))
    conds, _ = summarise(fns[0], unroll)
    os.makedirs(GOLDEN_DIR, exist_ok=True)
    callees = sorted({(n.get("callee") or {}).get("n") for n in walk(fns[0].body)
                      if n.get("k") in ("CallExpr", "CXXMemberCallExpr") and (n.get("callee") or {}).get("f") == "ctpg"} - {None})
    d = {"function": q, "contract": contract, "events": to_json(conds), "callees": callees}
    if unroll != 1:
        d["unroll"] = unroll
    if ptypes:
        d["ptypes"] = ptypes
    if nparams is not None:
        d["nparams"] = nparams
    if param0_contains:
        d["param0_contains"] = param0_contains
    if enclosing:
        d["enclosing"] = enclosing
    json.dump(d, open(path_for(name), "w"), indent=1)
    return len(conds)


def group(chk, fx, rule, what, names, optional=False):
    """Check every reference summary of a group under one rule id. optional: members that are not instantiated in this
    tree (unused primitives) are skipped; at least half of the group must still be comparable."""
    chk.rule(rule, what, (len(names) + 1) // 2 if optional else len(names))
    for n in names:
        check(chk, fx, rule, n, optional)
