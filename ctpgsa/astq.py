"""Small queries over extracted trees shared by the rule modules."""
from .facts import strip, walk, kids


def site(fn, n=None):
    """file:line:col function — how every report names a construct."""
    l = (n or {}).get("l") or fn.o["l"]
    return "include/ctpg/ctpg.hpp:%s %s" % (l, fn.o["q"])


def callee_q(n):
    """Short qualified name of the resolved callee of a call-like node, or None."""
    if n is None:
        return None
    c = n.get("callee") or n.get("ctor")
    return c["q"] if c else None


def callee(n):
    return (n.get("callee") or n.get("ctor")) if n else None


def is_call(n, name=None, q=None):
    if n is None or n.get("k") not in ("CallExpr", "CXXMemberCallExpr", "CXXOperatorCallExpr"):
        return False
    c = n.get("callee")
    if c is None:
        return False
    if name is not None and c["n"] != name:
        return False
    if q is not None and c["q"] != q:
        return False
    return True


def call_args(n):
    """Argument nodes of a call (for member calls: without the object; for operator calls: all operands)."""
    c = n.get("c") or []
    if n["k"] == "CXXOperatorCallExpr":
        return c[1:]
    return c[1:]


def split_params(ft):
    """Parameter type strings of a function type 'R (P1, P2) const'."""
    depth, start, out, i0 = 0, None, [], None
    for i, ch in enumerate(ft or ""):
        if ch in "(<[":
            if ch == "(" and depth == 0 and i0 is None:
                i0 = i
                start = i + 1
            depth += 1
        elif ch in ")>]":
            depth -= 1
            if ch == ")" and depth == 0 and i0 is not None:
                out.append(ft[start:i].strip())
                break
        elif ch == "," and depth == 1 and i0 is not None:
            out.append(ft[start:i].strip())
            start = i + 1
    return [p for p in out if p and p != "void"]


def mutable_ref(ptype):
    p = ptype.strip()
    if p.endswith("&&"):
        return False
    return (p.endswith("&") or p.endswith("*")) and not p.startswith("const ")


def call_object(n):
    """Object expression of a member call (obj.f(...)) or None."""
    if n.get("k") != "CXXMemberCallExpr":
        return None
    cal = strip((n.get("c") or [None])[0])
    if cal and cal.get("k") == "MemberExpr":
        return (cal.get("c") or [None])[0]
    return None


def declref_id(n):
    n = strip(n, casts=True)
    if n is not None and n.get("k") == "DeclRefExpr":
        return n["d"]["id"]
    return None


def declref(n):
    n = strip(n, casts=True)
    if n is not None and n.get("k") == "DeclRefExpr":
        return n["d"]
    return None


def access_path(n):
    """Access path of an lvalue-ish expression as a tuple of components, root first:
       ('this',) | ('var', id, name) | ('field', qname, name) | ('index', node) | ('deref',) |
       ('call', qname, node) | ('other', kind).  Looks through implicit casts and parens."""
    out = []
    while n is not None:
        n = strip(n, casts=True)
        k = n.get("k")
        if k == "CXXThisExpr":
            out.append(("this",))
            break
        if k == "DeclRefExpr":
            d = n["d"]
            out.append(("var", d["id"], d["n"], d["k"]))
            break
        if k == "MemberExpr":
            m = n["m"]
            out.append(("field", m["q"], m["n"], m["k"]))
            n = (n.get("c") or [None])[0]
            continue
        if k == "ArraySubscriptExpr":
            c = n.get("c") or [None, None]
            out.append(("index", c[1]))
            n = c[0]
            continue
        if k == "CXXOperatorCallExpr" and n.get("op") == "[]":
            c = n.get("c") or []
            out.append(("index", c[2] if len(c) > 2 else None))
            n = c[1] if len(c) > 1 else None
            continue
        if k == "UnaryOperator" and n.get("op") == "*":
            out.append(("deref",))
            n = (n.get("c") or [None])[0]
            continue
        if k == "CXXOperatorCallExpr" and n.get("op") == "*" and len(n.get("c") or []) == 2:
            out.append(("deref",))
            n = n["c"][1]
            continue
        if k in ("CallExpr", "CXXMemberCallExpr", "CXXOperatorCallExpr"):
            out.append(("call", callee_q(n), n))
            break
        if k in ("CXXStaticCastExpr", "CXXFunctionalCastExpr", "CStyleCastExpr", "CXXConstCastExpr",
                 "CXXReinterpretCastExpr"):
            out.append(("cast", k, n.get("ck")))
            n = (n.get("c") or [None])[0]
            continue
        out.append(("other", k))
        break
    out.reverse()
    return tuple(out)


def path_names(p):
    """Readable form of an access path: this.gi.rule_infos[].r_idx"""
    s = ""
    for c in p:
        if c[0] == "this":
            s += "this"
        elif c[0] == "var":
            s += c[2]
        elif c[0] == "field":
            s += "." + c[2]
        elif c[0] == "index":
            s += "[]"
        elif c[0] == "deref":
            s = "*" + s
        elif c[0] == "call":
            s += "<call %s>" % c[1]
        elif c[0] == "cast":
            s += "<cast>"
        else:
            s += "<%s>" % c[1]
    return s


def field_names(p):
    return [c[2] for c in p if c[0] == "field"]


ASSIGN_OPS = {"=", "+=", "-=", "*=", "/=", "%=", "|=", "&=", "^=", "<<=", ">>="}


def writes(body):
    """Yield (node, target_expr, kind) for every syntactic write in a tree: assignments, ++/--,
    compound assignments (builtin or overloaded)."""
    for n in walk(body):
        k = n.get("k")
        if k in ("BinaryOperator", "CompoundAssignOperator") and n.get("op") in ASSIGN_OPS:
            yield n, n["c"][0], n["op"]
        elif k == "UnaryOperator" and n.get("op") in ("++", "--"):
            yield n, n["c"][0], n["op"]
        elif k == "CXXOperatorCallExpr" and n.get("op") in ASSIGN_OPS | {"++", "--"}:
            c = n.get("c") or []
            if len(c) > 1:
                yield n, c[1], n["op"]


def type_of(fn, n):
    return fn.facts.T(n.get("t")) if n is not None else ""


def find(body, pred):
    return [n for n in walk(body) if pred(n)]


def contains(tree, node):
    for n in walk(tree):
        if n is node:
            return True
    return False


def with_helpers(fn, depth=1):
    """fn and the same-class member functions it calls on this object (bodies available), `depth` levels deep: a
    maintainer may move part of a function into a private helper; rules that look for one construct inside a function
    look there too."""
    out, seen = [fn], {fn.o["id"]}
    frontier = [fn]
    for _ in range(depth):
        nxt = []
        for f in frontier:
            for n in walk(f.body):
                if n.get("k") != "CXXMemberCallExpr":
                    continue
                c = n.get("callee") or {}
                if c.get("f") != "ctpg" or c.get("parent") != f.o.get("parent") or c.get("id") in seen:
                    continue
                g = f.facts.by_id.get(c.get("id"))
                if g is None or g.body is None:
                    continue
                seen.add(c["id"])
                out.append(g)
                nxt.append(g)
        frontier = nxt
    return out
