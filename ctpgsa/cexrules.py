"""Compile-time == run-time rules (C07): CEX constexpr closure, NOFORK, BUF buffer siblings, STACKSEL."""
import re

from . import astq as A
from . import graph as G
from .canon import Canon
from .facts import walk, strip

P = "ctpg::parser::"
B = "ctpg::buffers::"

# standard-library callees that are constexpr in C++17 although the decl seen may be a builtin / implicit
FORBIDDEN_STMTS = {"GotoStmt", "CXXTryStmt", "GCCAsmStmt", "MSAsmStmt", "CXXNewExpr", "CXXDeleteExpr",
                   "CXXReinterpretCastExpr", "CXXDynamicCastExpr", "CXXTypeidExpr"}


def _in_throw(pm, n):
    cur = n
    while cur is not None:
        if cur.get("k") == "CXXThrowExpr":
            return True
        cur = pm.get(id(cur))
    return False


def cex(chk, fx):
    chk.rule("CEX", "functions reachable from the constexpr parse / match / construction roots", 120)
    roots = []
    for f in fx.fns(P + "context_parse"):
        if len(f.o["params"]) == 4 and "cstring_buffer" in f.facts.T(f.o["params"][2]["t"]) and \
                "no_stream" in f.facts.T(f.o["params"][3]["t"]):
            roots.append(f)
    for f in fx.fns(P + "parser"):
        roots.append(f)
    for q in ("ctpg::regex::expr::expr", "ctpg::regex::analyze_dfa_size"):
        roots += fx.fns(q)
    for f in fx.fns("ctpg::regex::expr::match"):
        if len(f.o["params"]) == 3 and "cstring_buffer" in f.facts.T(f.o["params"][1]["t"]) and \
                "no_stream" in f.facts.T(f.o["params"][2]["t"]):
            roots.append(f)
    # only parsers that the witness declares constexpr and parses at compile time (literal-typed grammars)
    lit = [f for f in roots if f.tu.endswith("w_constexpr.cpp") or f.tu.endswith("compile_time.cpp")]
    roots = lit
    if len(roots) < 4:
        chk.incomplete("constexpr roots not found in the witness matrix (%d)" % len(roots))
    reach = [f for f in G.reachable(roots) if not f.is_pattern]
    from . import flow
    seen = set()
    n_ext = 0
    for f in reach:
        q = f.o["q"]
        key = (q, f.o["l"])
        site = A.site(f)
        problems = []
        if not f.o.get("cx"):
            problems.append(("not-constexpr", "is not constexpr"))
        pm = flow.parent_map(f.body) if f.body else {}
        for n in (walk(f.body) if not (f.o.get("implicit") or f.o.get("defaulted")) else ()):
            k = n.get("k")
            if k in FORBIDDEN_STMTS:
                problems.append((k, "contains a %s" % k))
            if k == "Var":
                if n.get("staticlocal") or n.get("tls"):
                    problems.append(("static-local:" + n["n"], "has a static/thread_local local '%s'" % n["n"]))
                if n.get("literal") is False:
                    problems.append(("non-literal-local:" + n["n"], "has a local '%s' of non-literal type %s" % (
                        n["n"], f.facts.T(n["t"])[:60])))
            if k in G.CALL_KINDS:
                c = n.get("callee") or n.get("ctor")
                if c is None or c.get("f") == "ctpg":
                    continue
                n_ext += 1
                if c.get("cx") or c.get("trivial") or c.get("implicit") and c.get("cx") is not False:
                    continue
                if _in_throw(pm, n):
                    continue          # only evaluated when the construction is rejected
                problems.append(("calls:" + c["q"], "calls %s, which is not constexpr" % c["q"]))
        if problems:
            for pk, msg in problems[:4]:
                chk.violation("CEX", site, "CEX:%s:%s" % (q, pk),
                              "%s is reachable from a constexpr parse/match/construction and %s: constant evaluation "
                              "fails on the paths that reach it (error, recovery, verbose and diagnostic paths included)"
                              % (q.split("::")[-1], msg))
        elif key not in seen:
            seen.add(key)
            chk.ok("CEX", site, "constexpr, structured, literal locals, constexpr callees")
    chk.note("CEX: %d roots, %d reachable instantiated functions, %d calls into the standard library examined" % (
        len(roots), len(reach), n_ext))


def nofork(chk, fx):
    chk.rule("NOFORK", "no code path selected by 'is this constant evaluation?'", 200)
    seen = set()
    for f in fx.all_fns():
        bad = False
        for n in walk(f.body):
            name = None
            if n.get("k") == "CallExpr":
                c = n.get("callee")
                name = c["n"] if c else None
                if name is None:
                    for m in walk((n.get("c") or [None])[0]):
                        if m.get("k") in ("DeclRefExpr", "UnresolvedLookupExpr"):
                            name = (m.get("d") or {}).get("n") or m.get("name")
            if name and "is_constant_evaluated" in name:
                bad = True
                chk.violation("NOFORK", A.site(f, n), "NOFORK:%s" % f.o["q"],
                              "%s branches on %s: compile-time and run-time evaluation take different code" % (
                                  f.o["q"].split("::")[-1], name))
        key = (f.o["q"], f.o["l"])
        if not bad and key not in seen:
            seen.add(key)
            chk.ok("NOFORK", A.site(f), "no is_constant_evaluated")


def buf(chk, fx):
    chk.rule("BUF", "buffer classes as siblings of one interface", 9)
    want = {
        "cstring_buffer": {"begin": r"iterator\{data\}", "end": r"iterator\{\(\(data \+ \d+\) - 1\)\}",
                           "get_view": r"string_view\{\$0\.ptr, \(\$1\.ptr - \$0\.ptr\)\}"},
        "string_buffer": {"begin": r"str\.cbegin\(\)|str\.begin\(\)", "end": r"str\.cend\(\)|str\.end\(\)",
                          "get_view": r"string_view\{\(str\.data\(\) \+ \(\$0 - str\.(c)?begin\(\)\)\), \(\$1 - \$0\)\}"},
        "string_view_buffer": {"begin": r"str\.cbegin\(\)|str\.begin\(\)", "end": r"str\.cend\(\)|str\.end\(\)",
                               "get_view": r"string_view\{\(str\.data\(\) \+ \(\$0 - str\.(c)?begin\(\)\)\), \(\$1 - \$0\)\}"},
    }
    why = {"begin": "begin() is the first byte", "end": "end() is one past the last byte (cstring: terminator excluded)",
           "get_view": "get_view(a, b) is the view of length b - a starting at a"}
    for cls, members in want.items():
        for m, rx in members.items():
            fns = fx.need(B + cls + "::" + m)
            f = fns[0]
            cn = Canon(f)
            rets = [cn.c(n["value"]) for n in walk(f.body) if n.get("k") == "ReturnStmt"]
            site = A.site(f)
            problems = []
            if not f.o.get("const"):
                problems.append("is not a const member")
            if len(rets) != 1 or not re.fullmatch(rx, rets[0]):
                problems.append("returns %s" % rets)
            if cls == "cstring_buffer" and m == "end" and len(rets) == 1:
                # data + N - 1 with the buffer's own N
                mm = re.search(r"data \+ (\d+)", rets[0])
                ta = re.search(r"cstring_buffer<(\d+)>", f.full)
                if mm and ta and mm.group(1) != ta.group(1):
                    problems.append("end() uses %s instead of the buffer size %s" % (mm.group(1), ta.group(1)))
            if problems:
                chk.violation("BUF", site, "BUF:%s::%s" % (cls, m), "%s::%s %s; %s" % (cls, m, "; ".join(problems), why[m]))
            else:
                chk.ok("BUF", site, "%s::%s: %s" % (cls, m, why[m]))
    # the cstring_buffer constructor copies all N1 bytes of the literal (embedded NULs included)
    for f in fx.need(B + "cstring_buffer::cstring_buffer"):
        if f.o.get("implicit") or f.o.get("defaulted") or len(f.o["params"]) != 1:
            continue
        cn = Canon(f)
        stmts = f.body.get("c") or []
        calls = [cn.c(n) for n in walk(f.body) if A.is_call(n) and n["callee"]["n"] == "copy_array"]
        loops = [n for n in walk(f.body) if n.get("k") in ("ForStmt", "WhileStmt", "DoStmt", "CXXForRangeStmt", "IfStmt")]
        if len(calls) == 1 and calls[0].startswith("copy_array(data, $0, ") and not loops and len(stmts) == 1:
            chk.ok("BUF", A.site(f), "cstring_buffer copies the whole character array (copy_array over all N1 indices)")
        elif loops:
            chk.violation("BUF", A.site(f), "BUF:cstring_buffer:ctor",
                          "the cstring_buffer constructor copies the text with its own loop/condition instead of all N1 "
                          "bytes: text after an embedded NUL is lost while the other buffers keep it")
        else:
            chk.incomplete("cstring_buffer constructor: copy not recognised (%s)" % calls)
        break
    # no mutable / static state in buffers: part of C15's IMM-2/IMM-6 (all records)


def stacksel(chk, fx):
    chk.rule("STACKSEL", "stack types chosen per buffer kind", 3)
    seen = {}
    for f in fx.need(P + "reduce"):
        ta = f.o.get("targs") or ""
        m = re.search(r"parse_state<(.*)$", ta)
        if not m:
            continue
        inner = m.group(1)
        args = _split_targs(inner)
        if len(args) < 4:
            continue
        cursor, value, stream, it = args[0], args[1], args[2], args[3]
        is_c = "cstring_buffer" in it
        kinds = ("cvector" if cursor.startswith("ctpg::stdex::cvector") else "vector",
                 "cvector" if value.startswith("ctpg::stdex::cvector") else "vector")
        key = (is_c, kinds)
        site = A.site(f)
        if key in seen:
            continue
        seen[key] = site
        if is_c:
            if kinds[0] != "cvector":
                chk.violation("STACKSEL", site, "STACKSEL:cstring:cursor", "cstring_buffer parse uses %s as cursor stack" % kinds[0])
            else:
                chk.ok("STACKSEL", site, "cstring_buffer: cursor stack %s, value stack %s" % kinds)
                # capacities of the two stacks agree when both are cvector
                if kinds[1] == "cvector":
                    c1 = re.search(r", (\d+)>$", cursor)
                    c2 = re.search(r", (\d+)>$", value)
                    if c1 and c2 and c1.group(1) != c2.group(1):
                        chk.violation("STACKSEL", site, "STACKSEL:capacities", "cursor stack capacity %s, value stack capacity %s" % (c1.group(1), c2.group(1)))
        else:
            if kinds != ("vector", "vector"):
                chk.violation("STACKSEL", site, "STACKSEL:runtime-buffer", "a run-time buffer parse uses fixed-capacity stacks %s" % (kinds,))
            else:
                chk.ok("STACKSEL", site, "run-time buffer: both stacks std::vector")
    have = set(seen)
    need = {(True, ("cvector", "cvector")), (True, ("cvector", "vector")), (False, ("vector", "vector"))}
    if not need <= have and not chk.violations:
        chk.incomplete("STACKSEL: witness matrix lacks %s" % sorted(need - have))


def _split_targs(s):
    out, depth, cur = [], 0, ""
    for ch in s:
        if ch in "<([":
            depth += 1
        if ch in ">)]":
            if depth == 0:
                break
            depth -= 1
        if ch == "," and depth == 0:
            out.append(cur.strip())
            cur = ""
        else:
            cur += ch
    if cur.strip():
        out.append(cur.strip())
    return out


def ceval(chk, fx, compilers=("clang++",)):
    """Compile-fail witness: constant evaluation of rejected inputs (witness/w_cexeval.cpp) must compile."""
    import os
    import subprocess
    from .facts import REPO, WITNESS_DIR
    chk.rule("CEVAL", "compile-fail witness: constant evaluation of rejected inputs", 1)
    src = os.path.join(WITNESS_DIR, "w_cexeval.cpp")
    for cxx in compilers:
        r = subprocess.run([cxx, "-std=gnu++17", "-I" + os.path.join(REPO, "include"), "-fsyntax-only",
                            "-ferror-limit=3" if "clang" in cxx else "-fmax-errors=3", src],
                           stdout=subprocess.PIPE, stderr=subprocess.STDOUT, text=True)
        site = "witness/w_cexeval.cpp (%s)" % cxx
        if r.returncode == 0:
            chk.ok("CEVAL", site, "constexpr parses of lexically / syntactically wrong inputs (with and without error "
                                  "rules) and non-matching regex matches are constant expressions yielding 'empty'")
            continue
        errs = [l for l in r.stdout.splitlines() if "error" in l][:3]
        notes = [l for l in r.stdout.splitlines() if "note:" in l and "ctpg.hpp" in l][:2]
        text = " | ".join(x.strip()[:200] for x in errs + notes)
        if "constant expression" in r.stdout or "static_assert" in r.stdout or "static assertion" in r.stdout:
            chk.violation("CEVAL", site, "CEVAL:%s" % cxx,
                          "a rejected input is not rejected by a constant expression yielding an empty optional: %s" % text)
        else:
            chk.incomplete("w_cexeval.cpp does not compile for another reason: %s" % text[:300])
