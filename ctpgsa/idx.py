"""IDX — index-space typing (units of measure for the integers used as indices), DESIGN.md 5.0.

All indices in ctpg are size16_t/size32_t/size_t, so the compiler cannot tell a rule number (RULE) from a
position in the sorted rule_infos array (RINFO), a state (STATE), a term (TERM), a nonterminal (NTERM) or a
parse-table column (COL). The code's own declarations say which is which; this module seeds those facts and
infers the rest by flow-insensitive unification over all instantiated bodies (field-based, objects merged;
variables keyed by declaration location so all instantiations of a pattern share one variable). Two different
seeded spaces meeting in one equivalence class is a violation, reported at the expression that joined them with
both provenance chains.
"""
from . import astq as A
from . import flow
from .facts import walk, strip, kids, AnalysisIncomplete

GENERIC_NS = ("ctpg::stdex::", "ctpg::utils::", "ctpg::ftors::", "ctpg::meta::", "ctpg::buffers::", "std::")

P = "ctpg::parser::"
SA = "ctpg::parser::state_analyzer::"
GI = "ctpg::parser::grammar_info::"

# ---- seeds: scalar fields
FIELD_SPACE = {
    P + "rule_info::l_idx": "NTERM",
    P + "rule_info::r_idx": "RULE",
    P + "rule_info::r_elements": "POS",
    P + "situation_info::rule_info_idx": "RINFO",
    P + "situation_info::after": "POS",
    P + "situation_info::t": "TERM",
    "ctpg::recognized_term::term_idx": "TERM",
    "ctpg::detail::parse_state::current_term_idx": "TERM",
}
# ---- seeds: containers. value = (dim, elem) where elem is a space, None, or a nested (dim, elem)
ARRAY_SPACE = {
    GI + "right_sides": ("RULE", ("POS", None)),
    GI + "rule_infos": ("RINFO", None),
    GI + "nterm_rule_slices": ("NTERM", None),
    GI + "term_precedences": ("TERM", None),
    GI + "term_associativities": ("TERM", None),
    GI + "rule_precedences": ("RULE", None),
    GI + "rule_associativities": ("RULE", None),
    GI + "rule_last_terms": ("RULE", "TERM"),
    P + "parse_table": ("STATE", ("COL", None)),
    SA + "parse_table": ("STATE", ("COL", None)),
    P + "states": ("STATE", ("SIT", None)),
    SA + "simple_states": ("STATE", ("SIT", None)),
    SA + "states": ("STATE", None),
    SA + "state::all_situations_vec": (None, "SIT"),
    SA + "state::kernel": ("SIT", None),
    SA + "state::situations_by_symbol": ("COL", (None, "SIT")),
    SA + "closures": ("SIT", (None, "SIT")),
    SA + "closures_analyzed": ("SIT", None),
    SA + "right_side_slice_first": ("SKEY", ("TERM", None)),
    SA + "right_side_slice_first_analyzed": ("SKEY", None),
    SA + "right_side_slice_empty": ("SKEY", None),
    SA + "right_side_slice_empty_analyzed": ("SKEY", None),
    SA + "nterm_empty": ("NTERM", None),
    SA + "nterm_first": ("NTERM", ("TERM", None)),
    P + "term_names": ("TERM", None),
    P + "term_ids": ("TERM", None),
    P + "term_ftors": ("TERM", None),
    P + "nterm_names": ("NTERM", None),
    "ctpg::detail::value_reductors::reductors": ("RULE", None),
    "ctpg::regex::dfa_state::transitions": ("CHAR", "DFA"),
    "ctpg::regex::dfa_state::conflicted_recognition": ("PRIO", "TERM"),
    "ctpg::regex::dfa_state::merged_from": ("DFA", None),
    "ctpg::regex::regex_lexer::specials": ("CHAR", None),
    "ctpg::utils::char_names::arr": ("CHAR", None),
    "ctpg::detail::parse_state::cursor_stack": (None, "STATE"),
    "ctpg::regex::dfa_builder::sm": ("DFA", None),
    "ctpg::regex::expr::sm": ("DFA", None),
    P + "lexer_sm": ("DFA", None),
}
# ---- seeds: constants (static data members / namespace constants) that ARE an index
CONST_SPACE = {
    P + "eof_idx": "TERM",
    P + "error_recovery_token_idx": "TERM",
    P + "fake_root_idx": "NTERM",
    P + "root_rule_idx": "RULE",
}
# ---- constants / fields that are the cardinality of a space (comparison `i < card` types i)
CARD = {
    P + "term_count": "TERM",
    P + "nterm_count": "NTERM",
    P + "symbol_count": "COL",
    P + "situation_address_space_size": "SIT",
    P + "state_count_cap": "STATE",
    P + "state_count": "STATE",
    SA + "state_count": "STATE",
    "ctpg::regex::transitions_size": "CHAR",
    "ctpg::meta::distinct_chars_count": "CHAR",
    P + "rule_count": None,          # cardinality of both RULE and RINFO: types nothing
    P + "max_rule_element_count": None,
    P + "situation_size": None,
}
SENTINELS = {"ctpg::uninitialized", "ctpg::uninitialized16", "ctpg::uninitialized32"}
# ---- template parameters that are an index
TPARAM_SPACE = {"Nr": "RULE", "RuleIdx": "RULE", "TermIdx": "TERM"}
# ---- functions whose result / parameters are seeded (their bodies define a space and are not unified through)
RET_SPACE = {
    P + "make_situation_idx": "SIT",
    P + "get_parse_table_idx": "COL",
    P + "symbol::get_parse_table_idx": "COL",
    "ctpg::utils::char_to_idx": "CHAR",
}
PARAM_SPACE = {
    (P + "make_situation_info", 0): "SIT",
    ("ctpg::utils::idx_to_char", 0): "CHAR",
}
EXEMPT_BODIES = {P + "make_situation_idx", P + "make_situation_info", P + "get_parse_table_idx",
                 P + "symbol::get_parse_table_idx"}
# ---- tagged fields: space depends on a sibling tag
TAGGED = {P + "symbol::idx", P + "parse_table_entry::arg"}
KIND_SPACE = {"shift": "STATE", "shift_error_recovery_token": "STATE", "reduce": "RINFO", "rr_conflict": "RINFO"}
# ---- struct field order for aggregate initialisation
STRUCT_FIELDS = {
    "situation_info": [P + "situation_info::rule_info_idx", P + "situation_info::after", P + "situation_info::t"],
    "rule_info": [P + "rule_info::l_idx", P + "rule_info::r_idx", P + "rule_info::r_elements"],
}
# ---- documented exceptions (one symbol wide, each with the reason; re-verified structurally by the caller)
EXCEPTIONS = {
    # (function short name, description key)
    ("analyze_rule", "RULE~RINFO"): "E1: analyze_rule fills gi.rule_infos[Nr] in rule order; the array becomes RINFO-"
                                    "indexed only when stdex::sort permutes it afterwards",
    ("analyze_states", "RULE~RINFO"): "E2: the fake root rule has the maximal l_idx and the sort is stable, so its "
                                      "sorted position equals root_rule_idx",
}
COMPAT = {frozenset(("NTERM", "COL"))}   # a nonterminal index is its own parse-table column (get_parse_table_idx)

COMPARE = ("==", "!=", "<", ">", "<=", ">=")
# a value streamed right after one of these labels is in the named space
PRINT_LABELS = {
    "reduce(": "RULE", "reduce using (": "RULE", "Reduced using rule ": "RULE",
    "shift to ": "STATE", "go to ": "STATE", "Shift to ": "STATE", "Go to ": "STATE",
    "Recovering to state ": "STATE",
}


class Spaces:
    def __init__(self):
        self.parent = {}
        self.label = {}        # rep -> (space, why)
        self.children = {}     # rep -> {"dim": key, "elem": key}
        self.conflicts = []
        self.unions = 0

    def find(self, k):
        p = self.parent.setdefault(k, k)
        if p == k:
            return k
        r = self.find(p)
        self.parent[k] = r
        return r

    def sub(self, k, kind):
        r = self.find(k)
        ch = self.children.setdefault(r, {})
        if kind not in ch:
            ch[kind] = (kind, r)
            self.parent.setdefault(ch[kind], ch[kind])
        return ch[kind]

    def set_label(self, k, space, why, site):
        if space is None:
            return
        r = self.find(k)
        cur = self.label.get(r)
        if cur is None:
            self.label[r] = (space, why)
        elif cur[0] != space:
            if frozenset((cur[0], space)) in COMPAT:
                return
            self.conflicts.append({"site": site, "a": cur[0], "why_a": cur[1], "b": space, "why_b": why,
                                   "via": "seed"})

    def union(self, a, b, site, via):
        if a is None or b is None:
            return
        ra, rb = self.find(a), self.find(b)
        if ra == rb:
            return
        la, lb = self.label.get(ra), self.label.get(rb)
        if la and lb and la[0] != lb[0]:
            if frozenset((la[0], lb[0])) in COMPAT:
                return
            self.conflicts.append({"site": site, "a": la[0], "why_a": la[1], "b": lb[0], "why_b": lb[1], "via": via})
            return
        self.unions += 1
        self.parent[rb] = ra
        if lb and not la:
            self.label[ra] = (lb[0], lb[1] + " <- " + via)
        elif la:
            self.label[ra] = (la[0], la[1])
        ca, cb = self.children.get(ra, {}), self.children.pop(rb, {})
        for kind, kb in cb.items():
            if kind in ca:
                self.union(ca[kind], kb, site, via + " [%s]" % kind)
            else:
                self.children.setdefault(ra, {})[kind] = kb

    def space_of(self, k):
        if k is None:
            return None
        l = self.label.get(self.find(k))
        return l[0] if l else None

    def why_of(self, k):
        l = self.label.get(self.find(k))
        return l[1] if l else None


class Idx:
    def __init__(self, fx):
        self.fx = fx
        self.S = Spaces()
        self.n_subscripts = 0
        self.n_functions = 0
        self.n_seeds = 0
        self.seed_hits = set()
        self.unknown_tag_reads = []
        self.n_print_labels = 0
        self._last_val = {}
        self._seed()

    # ------------------------------------------------------------------ seeds
    def _seed_container(self, key, spec, why):
        dim, elem = spec
        if dim:
            self.S.set_label(self.S.sub(key, "dim"), dim, why + " [dimension]", None)
        if elem is not None:
            ek = self.S.sub(key, "elem")
            if isinstance(elem, tuple):
                self._seed_container(ek, elem, why)
            else:
                self.S.set_label(ek, elem, why + " [element]", None)

    def _seed(self):
        for q, sp in FIELD_SPACE.items():
            self.S.set_label(("f", q), sp, "seed: field %s is %s" % (q.split("ctpg::")[-1], sp), None)
            self.n_seeds += 1
        for q, spec in ARRAY_SPACE.items():
            self._seed_container(("f", q), spec, "seed: %s" % q.split("ctpg::")[-1])
            self.n_seeds += 1
        for q, sp in CONST_SPACE.items():
            self.S.set_label(("c", q), sp, "seed: constant %s is %s" % (q.split("::")[-1], sp), None)
            self.n_seeds += 1
        for q, sp in RET_SPACE.items():
            self.S.set_label(("ret", q), sp, "seed: %s returns %s" % (q.split("::")[-1], sp), None)
            self.n_seeds += 1

    def check_seed_anchors(self):
        """Every seeded field/array/constant must still exist in the header (a vanished anchor is not a verdict)."""
        have = set()
        for u, r in self.fx.records():
            for f in r["fields"]:
                have.add(r["q"] + "::" + f["n"])
            for m in r["members"]:
                if m["k"] == "staticvar":
                    have.add(r["q"] + "::" + m["n"])
        for u, v in self.fx.vars():
            have.add(v["q"])
        missing = [q for q in list(FIELD_SPACE) + list(ARRAY_SPACE) + list(CONST_SPACE) + list(CARD) if q not in have]
        fq = set(self.fx.qnames())
        missing += [q for q in RET_SPACE if q not in fq]
        return missing

    # ------------------------------------------------------------------ driver
    def in_scope(self, fn):
        q = fn.o["q"]
        if fn.is_pattern or not q.startswith("ctpg::"):
            return False
        if q.startswith(GENERIC_NS):
            return q.startswith("ctpg::utils::char_names")
        return True

    def run(self):
        for fn in self.fx.all_fns():
            if not self.in_scope(fn):
                continue
            self.n_functions += 1
            self.function(fn)
        return self

    def function(self, fn):
        self.fn = fn
        self.q = fn.o["q"]
        self.pm = flow.parent_map(fn.body) if fn.body else {}
        self.exempt = self.q in EXEMPT_BODIES
        for i, p in enumerate(fn.o["params"]):
            sp = PARAM_SPACE.get((self.q, i))
            if sp:
                self.S.set_label(("v", p["l"]), sp, "seed: parameter %d of %s is %s" % (i, fn.o["n"], sp), None)
        if self.exempt:
            return
        # constructor initialisers: member(init)
        for i in fn.o.get("inits", ()):
            if i.get("member") and i.get("init") is not None:
                fk = ("f", fn.o["parent"] + "::" + i["member"])
                self.assign(fk, i["init"], i["init"], "constructor initialiser of %s" % i["member"])
        self.stmt(fn.body)

    def site(self, n):
        return A.site(self.fn, n)

    # ------------------------------------------------------------------ statements
    def stmt(self, s):
        if s is None:
            return
        k = s.get("k")
        if k == "CompoundStmt":
            for c in s.get("c") or []:
                self.stmt(c)
        elif k == "IfStmt":
            if s.get("init"):
                self.stmt(s["init"])
            if s.get("constexpr") and s.get("taken"):
                if s["taken"] in ("then", "else"):
                    self.stmt(s.get(s["taken"]))
                return
            self.val(s.get("cond"))
            self.stmt(s.get("then"))
            self.stmt(s.get("else"))
        elif k in ("WhileStmt", "DoStmt"):
            self.val(s.get("cond"))
            self.stmt(s.get("body"))
        elif k == "ForStmt":
            self.stmt(s.get("init"))
            self.val(s.get("cond"))
            self.val(s.get("inc"))
            self.stmt(s.get("body"))
        elif k == "CXXForRangeStmt":
            lv = s.get("loopvar")
            rng = self.val(s.get("range"))
            if lv is not None and rng is not None:
                self.S.union(("v", lv["l"]), self.S.sub(rng, "elem"), self.site(lv), "range-for element")
            self.stmt(s.get("body"))
        elif k == "DeclStmt":
            for d in s.get("decls", ()):
                if d.get("k") == "Var" and d.get("init") is not None:
                    self.assign(("v", d["l"]), d["init"], d, "initialiser of '%s'" % d["n"])
        elif k == "ReturnStmt":
            if s.get("value") is not None and not self.fn.o.get("lambda"):
                self.assign(("ret", self.q), s["value"], s, "return value of %s" % self.fn.o["n"])
            elif s.get("value") is not None:
                self.val(s["value"])
        elif k in ("BreakStmt", "ContinueStmt", "NullStmt"):
            pass
        else:
            self.val(s)

    def assign(self, target, rhs, at, via):
        r = strip(rhs, casts=True)
        if r is not None and r.get("k") == "InitListExpr":
            self.init_list(r)
            # aggregate assigned to an element of an array of structs: fields are field-based, nothing to unify
            return
        v = self.val(rhs)
        if isinstance(v, tuple) and v and v[0] == "card":
            return
        self.S.union(target, v, self.site(at), via)

    def init_list(self, il):
        t = self.fn.facts.T(il.get("t"))
        name = t.split("::")[-1].strip()
        fields = STRUCT_FIELDS.get(name)
        inits = il.get("c") or []
        if fields is None:
            for c in inits:
                self.val(c)
            return
        for fq, c in zip(fields, inits):
            if c is None:
                continue
            v = self.val(c)
            if isinstance(v, tuple) and v and v[0] == "card":
                continue
            # documented exception E2 (analyze_states: root_rule_idx as RINFO)
            if self._is_exception(fq, v):
                continue
            self.S.union(("f", fq), v, self.site(c), "initialiser of field %s" % fq.split("::")[-1])

    def _is_exception(self, fq, v):
        if v is None:
            return False
        sp_v, sp_f = self.S.space_of(v), self.S.space_of(("f", fq))
        if {sp_v, sp_f} == {"RULE", "RINFO"} and (self.fn.o["n"], "RULE~RINFO") in EXCEPTIONS:
            self.seed_hits.add((self.fn.o["n"], "RULE~RINFO"))
            return True
        return False

    # ------------------------------------------------------------------ expressions
    def val(self, n):
        """Entity key of the value of expression n (or None); generates the constraints inside n."""
        if n is None:
            return None
        # template-parameter seeds are visible only on the unstripped node
        x = n
        while x is not None and x.get("k") in ("ImplicitCastExpr", "ParenExpr", "ConstantExpr", "CXXFunctionalCastExpr",
                                               "CStyleCastExpr", "CXXStaticCastExpr", "SubstNonTypeTemplateParmExpr"):
            if x.get("k") == "SubstNonTypeTemplateParmExpr" and x.get("param") in TPARAM_SPACE:
                key = ("tp", x["param"])
                self.S.set_label(key, TPARAM_SPACE[x["param"]],
                                 "seed: template parameter %s is %s" % (x["param"], TPARAM_SPACE[x["param"]]), None)
                return key
            c = x.get("c") or []
            x = c[0] if len(c) == 1 else None
        s = strip(n, casts=True)
        if s is None:
            return None
        k = s.get("k")
        if k in ("IntegerLiteral", "CharacterLiteral", "CXXBoolLiteralExpr", "StringLiteral", "CXXNullPtrLiteralExpr"):
            return None
        if k == "DeclRefExpr":
            return self.declref(s)
        if k == "MemberExpr":
            return self.member(s)
        if k == "CXXThisExpr":
            return None
        if k == "ArraySubscriptExpr":
            base, idx = s["c"]
            return self.subscript(base, idx, s)
        if k == "CXXOperatorCallExpr":
            return self.opcall(s)
        if k in ("CallExpr", "CXXMemberCallExpr"):
            return self.call(s)
        if k in ("CXXConstructExpr", "CXXTemporaryObjectExpr"):
            return self.construct(s)
        if k in ("BinaryOperator", "CompoundAssignOperator"):
            return self.binop(s)
        if k == "UnaryOperator":
            v = self.val(s["c"][0])
            if s.get("op") in ("++", "--"):
                if isinstance(v, tuple) and v and v[0] == "card":
                    return ("cardinc", v[1])
                return v
            if s.get("op") in ("*", "&"):
                return v if s.get("op") == "&" else None
            return None
        if k == "ConditionalOperator":
            self.val(s["c"][0])
            a, b = self.val(s["c"][1]), self.val(s["c"][2])
            if _is_ent(a) and _is_ent(b):
                self.S.union(a, b, self.site(s), "both arms of ?:")
            return a if _is_ent(a) else (b if _is_ent(b) else None)
        if k == "InitListExpr":
            self.init_list(s)
            return None
        if k == "LambdaExpr":
            return None
        for c in kids(s):
            self.val(c)
        return None

    def declref(self, s):
        d = s["d"]
        q = d["q"]
        if d["k"] in ("EnumConstant", "Function", "CXXMethod", "NonTypeTemplateParm"):
            return None
        if q in SENTINELS:
            return None
        if q in CONST_SPACE:
            self.seed_hits.add(q)
            return ("c", q)
        if q in CARD:
            return ("card", CARD[q]) if CARD[q] else None
        if d["k"] in ("Var", "ParmVar", "Binding") and d.get("dl"):
            return ("v", d["dl"])
        return None

    def member(self, s):
        m = s["m"]
        q = m["q"]
        base = (s.get("c") or [None])[0]
        if m["k"] != "Field":
            if m["k"] == "Var":       # static member through object
                if q in CONST_SPACE:
                    return ("c", q)
                if q in CARD:
                    return ("card", CARD[q]) if CARD[q] else None
            return None
        if q in CARD:
            return ("card", CARD[q]) if CARD[q] else None
        if q in TAGGED:
            sp = self.refine(s)
            if sp is None:
                self.unknown_tag_reads.append((self.q, s.get("l"), q))
                return None
            key = ("tag", q, sp)
            self.S.set_label(key, sp, "%s under its tag test (%s)" % (q.split("::")[-1], sp), None)
            return key
        if q.startswith("ctpg::utils::slice::"):
            ctx = "regex" if self.q.startswith("ctpg::regex::") else "parser"
            key = ("f", q + "@" + ctx)
            if ctx == "parser" and q.endswith("::start"):
                self.S.set_label(key, "RINFO", "seed: nterm_rule_slices[].start is a position in rule_infos", None)
            if ctx == "regex" and q.endswith("::start"):
                self.S.set_label(key, "DFA", "seed: a slice of the automaton under construction starts at a state", None)
            return key
        self.val(base)
        return ("f", q)

    def subscript(self, base, idx, at):
        b = self.val(base)
        i = self.val(idx)
        self.n_subscripts += 1
        if b is None:
            return None
        if isinstance(b, tuple) and b[0] in ("card", "cardinc"):
            return None
        dim = self.S.sub(b, "dim")
        if _is_ent(i):
            if not self._subscript_exception(b, i):
                self.S.union(dim, i, self.site(at), "subscript of %s" % self._name(base))
        return self.S.sub(b, "elem")

    def _subscript_exception(self, b, i):
        sp_d, sp_i = self.S.space_of(self.S.sub(b, "dim")), self.S.space_of(i)
        if {sp_d, sp_i} == {"RULE", "RINFO"} and (self.fn.o["n"], "RULE~RINFO") in EXCEPTIONS:
            self.seed_hits.add((self.fn.o["n"], "RULE~RINFO"))
            return True
        return False

    def _name(self, e):
        return A.path_names(A.access_path(e))

    def opcall(self, s):
        op = s.get("op")
        c = s.get("c") or []
        if op == "[]" and len(c) == 3:
            return self.subscript(c[1], c[2], s)
        if op in COMPARE and len(c) == 3:
            self.compare(c[1], c[2], s)
            return None
        if op == "=" and len(c) == 3:
            t = self.val(c[1])
            self.assign(t, c[2], s, "assignment")
            return t
        if op == "*" and len(c) == 2:
            self.val(c[1])
            return None
        if op == "<<" and len(c) == 3:
            self.val(c[1])
            v = self.val(c[2])
            inner = strip(c[1])
            prev = None
            if inner is not None and inner.get("k") == "CXXOperatorCallExpr" and inner.get("op") == "<<":
                prev = inner["c"][2]
            # a value printed right after a label that names its space
            lab = _string(prev)
            if lab is not None and _is_ent(v):
                for suffix, sp in PRINT_LABELS.items():
                    if lab.endswith(suffix):
                        self.n_print_labels += 1
                        self.S.set_label(v, sp, "printed after the label '%s'" % suffix, self.site(c[2]))
                        if self.S.space_of(v) != sp and frozenset((self.S.space_of(v), sp)) not in COMPAT:
                            pass      # set_label recorded the conflict
            # the RULES listing of write_diag_str: "<number>    <rule>"
            cur = _string(c[2])
            if cur == "    " and prev is not None and self.fn.o["n"] == "write_diag_str":
                pv = self._last_val.get(id(prev))
                if _is_ent(pv):
                    self.n_print_labels += 1
                    self.S.set_label(pv, "RULE", "number printed in front of a rule in the RULES listing",
                                     self.site(prev))
            self._last_val[id(c[2])] = v
            return None
        for x in c[1:]:
            self.val(x)
        return None

    def binop(self, s):
        op = s.get("op")
        a, b = s["c"]
        if op in ("=",):
            t = self.val(a)
            if _is_ent(t) or t is None:
                self.assign(t, b, s, "assignment to %s" % self._name(a))
            else:
                self.val(b)
            return t
        if op in COMPARE:
            self.compare(a, b, s)
            return None
        if op in ("+", "-", "+=", "-="):
            va, vb = self.val(a), self.val(b)
            if op in ("+=", "-="):
                return va
            if _is_card(va) or _is_card(vb):
                return None
            if self.countish(b):
                return va if _is_ent(va) else None
            if self.countish(a) and op == "+":
                return vb if _is_ent(vb) else None
            return None
        if op == ",":
            self.val(a)
            return self.val(b)
        self.val(a)
        self.val(b)
        return None

    def countish(self, e):
        """A plain count/offset: literal, a loop counter initialised with a literal, a .n / size()."""
        s = strip(e, casts=True)
        if s is None:
            return True
        k = s.get("k")
        if k in ("IntegerLiteral", "CharacterLiteral"):
            return True
        if k == "DeclRefExpr":
            sp = self.S.space_of(self.declref(s)) if _is_ent(self.declref(s)) else None
            return sp is None
        if k == "MemberExpr":
            v = self.member(s)
            return not _is_ent(v) or self.S.space_of(v) is None
        if k in ("CXXMemberCallExpr", "CallExpr"):
            return (s.get("callee") or {}).get("n") in ("size",)
        if k == "BinaryOperator" and s.get("op") in ("+", "-", "*"):
            return self.countish(s["c"][0]) and self.countish(s["c"][1])
        return False

    def compare(self, a, b, at):
        va, vb = self.val(a), self.val(b)
        if _is_card(va) and _is_ent(vb):
            self.S.set_label(vb, va[1], "compared with the cardinality of %s at %s" % (va[1], at.get("l")), self.site(at))
        elif _is_card(vb) and _is_ent(va):
            self.S.set_label(va, vb[1], "compared with the cardinality of %s at %s" % (vb[1], at.get("l")), self.site(at))
        elif _is_ent(va) and _is_ent(vb):
            self.S.union(va, vb, self.site(at), "comparison %s %s %s" % (self._name(a), at.get("op"), self._name(b)))

    def construct(self, s):
        ct = s.get("ctor") or {}
        args = s.get("c") or []
        callee = self.fn.facts.by_id.get(ct.get("id"))
        if ct.get("q", "").startswith(P + "symbol::symbol") and len(args) == 2:
            # symbol(bool term, idx): the tag decides the space of idx
            tagv = strip(args[0], casts=True)
            v = self.val(args[1])
            if tagv is not None and tagv.get("k") == "CXXBoolLiteralExpr" and _is_ent(v):
                sp = "TERM" if tagv["v"] else "NTERM"
                self.S.set_label(v, sp, "constructs symbol{%s, ...}" % ("true" if tagv["v"] else "false"), self.site(s))
            return None
        vals = [self.val(a) for a in args]
        if callee is not None and not callee.o["q"].startswith(GENERIC_NS) and not ct.get("copy") and not ct.get("move"):
            for p, v in zip(callee.o["params"], vals):
                if _is_ent(v) and not p.get("pack"):
                    self.S.union(("v", p["l"]), v, self.site(s), "argument '%s' of %s" % (p["n"], ct.get("q")))
        if (ct.get("copy") or ct.get("move")) and len(vals) == 1:
            return vals[0]
        return None

    def call(self, s):
        c = s.get("callee")
        args = A.call_args(s)
        if c is None:
            self.val((s.get("c") or [None])[0])
            for a in args:
                self.val(a)
            return None
        q, name = c["q"], c["n"]
        obj = A.call_object(s)
        # ---- the column function
        if q == P + "get_parse_table_idx" and len(args) == 2:
            tagv = strip(args[0], casts=True)
            v = self.val(args[1])
            if tagv is not None and tagv.get("k") == "CXXBoolLiteralExpr" and _is_ent(v):
                sp = "TERM" if tagv["v"] else "NTERM"
                self.S.set_label(v, sp, "argument of get_parse_table_idx(%s, .)" % ("true" if tagv["v"] else "false"),
                                 self.site(s))
            else:
                self.val(args[0])
            return ("ret", q)
        if q == "ctpg::utils::find_str" and len(args) == 2:
            t = self.val(args[0])
            self.val(args[1])
            return self.S.sub(t, "dim") if _is_ent(t) else None
        # ---- container semantics for generic containers
        if obj is not None and (q.startswith("ctpg::stdex::") or q.startswith("std::")):
            o = self.val(obj)
            vals = [self.val(a) for a in args]
            if not _is_ent(o):
                return None
            if name in ("test", "set", "reset", "flip") and vals and _is_ent(vals[0]):
                self.S.union(self.S.sub(o, "dim"), vals[0], self.site(s), "%s() on %s" % (name, self._name(obj)))
                return None
            if name in ("push_back", "emplace_back", "push") and vals and _is_ent(vals[0]):
                self.S.union(self.S.sub(o, "elem"), vals[0], self.site(s), "%s() into %s" % (name, self._name(obj)))
                return None
            if name in ("back", "front", "top"):
                return self.S.sub(o, "elem")
            if name in ("add",) and vals and _is_ent(vals[0]):
                self.S.union(o, vals[0], self.site(s), "add() of two sets")
                return None
            return None
        if obj is not None:
            self.val(obj)
        vals = [self.val(a) for a in args]
        if q in RET_SPACE:
            return ("ret", q)
        if q.startswith(GENERIC_NS):
            if q == "ctpg::utils::char_to_idx":
                return ("ret", q)
            return None
        callee = self.fn.facts.by_id.get(c["id"])
        if callee is None or callee.o.get("lambda"):
            return None
        if callee.o["q"] in EXEMPT_BODIES:
            for i, (p, v) in enumerate(zip(callee.o["params"], vals)):
                sp = PARAM_SPACE.get((callee.o["q"], i))
                if sp and _is_ent(v):
                    self.S.set_label(v, sp, "argument %d of %s" % (i, name), self.site(s))
            return ("ret", q) if q in RET_SPACE else None
        for p, v, a in zip(callee.o["params"], vals, args):
            if p.get("pack"):
                break
            if _is_ent(v):
                self.S.union(("v", p["l"]), v, self.site(a), "argument '%s' of %s" % (p["n"], name))
        return ("ret", q)

    # ------------------------------------------------------------------ tag refinement
    def refine(self, m):
        """Space of a tagged field read `X.idx` / `X.arg` from the dominating test of X's tag, else None."""
        q = m["m"]["q"]
        objp = A.access_path((m.get("c") or [None])[0])
        cur = m
        while True:
            par = self.pm.get(id(cur))
            if par is None:
                return None
            k = par.get("k")
            if k == "IfStmt":
                if par.get("then") is cur:
                    sp = self._from_alts(flow.cond_atoms(par["cond"], True), q, objp)
                    if sp:
                        return sp
                elif par.get("else") is cur:
                    sp = self._from_alts(flow.cond_atoms(par["cond"], False), q, objp)
                    if sp:
                        return sp
            elif k == "ConditionalOperator":
                c = par["c"]
                if c[1] is cur or c[2] is cur:
                    sp = self._from_alts(flow.cond_atoms(c[0], c[1] is cur), q, objp)
                    if sp:
                        return sp
            elif k == "BinaryOperator" and par.get("op") in ("&&", "||") and par["c"][1] is cur:
                sp = self._from_alts(flow.cond_atoms(par["c"][0], par["op"] == "&&"), q, objp)
                if sp:
                    return sp
            elif k == "CompoundStmt":
                sib = par.get("c") or []
                for s in sib:
                    if s is cur:
                        break
                    if s.get("k") == "IfStmt" and s.get("else") is None and _always_exits(s.get("then")):
                        sp = self._from_alts(flow.cond_atoms(s["cond"], False), q, objp)
                        if sp:
                            return sp
            cur = par

    def _from_alts(self, alts, q, objp):
        if not alts:
            return None
        res = set()
        for alt in alts:
            sp = None
            for _, cond, outcome in alt:
                sp = self._atom_space(cond, outcome, q, objp) or sp
            res.add(sp)
        if len(res) == 1:
            return res.pop()
        return None

    def _atom_space(self, cond, outcome, q, objp):
        s = strip(cond, casts=True)
        if s is None:
            return None
        if q.endswith("symbol::idx"):
            if s.get("k") == "MemberExpr" and s["m"]["q"] == P + "symbol::term" and \
                    _same_path(A.access_path((s.get("c") or [None])[0]), objp):
                return "TERM" if outcome else "NTERM"
            return None
        # parse_table_entry::arg
        if s.get("k") == "BinaryOperator" and s.get("op") in ("==", "!="):
            a, b = strip(s["c"][0], casts=True), strip(s["c"][1], casts=True)
            if b is not None and b.get("k") == "MemberExpr":
                a, b = b, a
            if a is not None and a.get("k") == "MemberExpr" and a["m"]["q"] == P + "parse_table_entry::kind" and \
                    _same_path(A.access_path((a.get("c") or [None])[0]), objp) and b is not None and \
                    b.get("k") == "DeclRefExpr" and b["d"]["k"] == "EnumConstant":
                if (s["op"] == "==") == outcome:
                    return KIND_SPACE.get(b["d"]["n"])
            return None
        if s.get("k") == "CallExpr" and (s.get("callee") or {}).get("q") == P + "is_shift" and outcome:
            arg = strip(A.call_args(s)[0], casts=True)
            if arg is not None and arg.get("k") == "MemberExpr" and arg["m"]["q"] == P + "parse_table_entry::kind" and \
                    _same_path(A.access_path((arg.get("c") or [None])[0]), objp):
                return "STATE"
        return None


def _always_exits(s):
    if s is None:
        return False
    k = s.get("k")
    if k in ("ReturnStmt", "BreakStmt", "ContinueStmt", "CXXThrowExpr"):
        return True
    if k == "CompoundStmt":
        c = s.get("c") or []
        return bool(c) and _always_exits(c[-1])
    if k == "ExprWithCleanups":
        return _always_exits(strip(s))
    return False


def _same_path(a, b):
    if len(a) != len(b):
        return False
    for x, y in zip(a, b):
        if x[0] != y[0]:
            return False
        if x[0] in ("var", "field") and x[1] != y[1]:
            return False
    return True


def _string(n):
    n = strip(n) if n is not None else None
    if n is not None and n.get("k") == "StringLiteral" and "bytes" in n:
        return bytes(n["bytes"]).decode("latin1")
    return None


def _is_ent(v):
    return isinstance(v, tuple) and bool(v) and v[0] not in ("card", "cardinc")


def _is_card(v):
    return isinstance(v, tuple) and bool(v) and v[0] == "card"
