"""Normal forms applied to every function body when the facts are loaded, so that all rules see one shape for
constructs a maintainer writes either way:

 N1  a counting `while` loop with its counter declared right before it
         T i = a;  while (c(i)) { body; ++i; }        (i not used after the loop, no `continue` in body)
     becomes the equivalent   for (T i = a; c(i); ++i) { body }
 N2  `return c ? a : b;` becomes `if (c) return a; else return b;`
 N5  `switch (e) { case A: S1 ... default: Sd }` whose groups all end in return / break / continue / throw (no fall-through
     into another group's statements; stacked labels `case A: case B:` are one group) and whose `e` has no side effect
     becomes `if (e == A) S1 else if (e == B) S2 ... else Sd` (trailing `break`s dropped)
 N7  a never-reassigned `bool` local with a side-effect-free initialiser over never-reassigned locals / parameters is
     replaced by its initialiser where it is used as a condition (`const bool r = a > b || ...; return r ? x : y;`)
 N8  a never-reassigned scalar local that is a copy of a field of another local (`const size16_t idx = res.term_idx;`),
     where that other local is not written after the copy is taken, is replaced by the field access it copies
 N9  the statement `x = c ? a : b;` becomes `if (c) x = a; else x = b;`
 N3  a `for` statement without a condition, `for (T i = a; ; ++i) { body }` (no `continue` in body), becomes
         T i = a;  while (true) { body; ++i; }
     (the endless scan loop of the matcher is written either way)

Both rewrites are semantics preserving by the C++ definition of the for statement and of the conditional operator;
they only remove a degree of freedom in how the same behaviour is spelled. Synthetic nodes carry "synthetic": true and
the source location of the construct they come from.
"""
from .facts import walk, strip


def _is_inc_of(stmt, vid):
    s = strip(stmt, casts=True)
    if s is None:
        return False
    k = s.get("k")
    if k == "UnaryOperator" and s.get("op") in ("++", "--"):
        t = strip(s["c"][0], casts=True)
    elif k == "CXXOperatorCallExpr" and s.get("op") in ("++", "--") and len(s.get("c") or []) >= 2:
        t = strip(s["c"][1], casts=True)
    elif k == "CompoundAssignOperator" and s.get("op") in ("+=", "-="):
        t = strip(s["c"][0], casts=True)
    else:
        return False
    return t is not None and t.get("k") == "DeclRefExpr" and t["d"]["id"] == vid


def _refs(node, vid):
    return any(n.get("k") == "DeclRefExpr" and n["d"]["id"] == vid for n in walk(node))


def _writes(node, vid):
    n_w = 0
    for n in walk(node):
        k = n.get("k")
        t = None
        if k in ("BinaryOperator", "CompoundAssignOperator") and n.get("op", "").endswith("=") and \
                n.get("op") not in ("==", "!=", "<=", ">="):
            t = n["c"][0]
        elif k == "UnaryOperator" and n.get("op") in ("++", "--"):
            t = n["c"][0]
        elif k == "CXXOperatorCallExpr" and (n.get("op") in ("++", "--") or
                                             (n.get("op", "").endswith("=") and n.get("op") not in ("==", "!=", "<=", ">="))):
            t = n["c"][1] if len(n.get("c") or []) > 1 else None
        if t is not None:
            s = strip(t, casts=True)
            if s is not None and s.get("k") == "DeclRefExpr" and s["d"]["id"] == vid:
                n_w += 1
    return n_w


def _own_continue(body):
    """A `continue` that belongs to this loop (not to a nested one)."""
    def rec(n):
        if n is None:
            return False
        k = n.get("k")
        if k == "ContinueStmt":
            return True
        if k in ("WhileStmt", "ForStmt", "DoStmt", "CXXForRangeStmt", "LambdaExpr"):
            return False
        for key in ("then", "else", "body", "init"):
            if isinstance(n.get(key), dict) and rec(n[key]):
                return True
        for c in n.get("c") or []:
            if isinstance(c, dict) and rec(c):
                return True
        return False
    return rec(body)


def _while_to_for(comp):
    c = comp.get("c") or []
    i = 0
    changed = False
    while i + 1 < len(c):
        d, w = c[i], c[i + 1]
        if d.get("k") == "DeclStmt" and w.get("k") == "WhileStmt" and len(d.get("decls", ())) == 1 and \
                d["decls"][0].get("k") == "Var" and d["decls"][0].get("init") is not None and \
                not d["decls"][0].get("ref") and isinstance(w.get("body"), dict) and w["body"].get("k") == "CompoundStmt":
            var = d["decls"][0]
            vid = var["id"]
            bc = w["body"].get("c") or []
            if bc and _is_inc_of(bc[-1], vid) and w.get("cond") is not None and _refs(w["cond"], vid) and \
                    _writes(w["body"], vid) == 1 and not _own_continue(w["body"]) and \
                    not any(_refs(x, vid) for x in c[i + 2:]):
                body = dict(w["body"])
                body["c"] = bc[:-1]
                f = {"k": "ForStmt", "l": w.get("l"), "init": d, "cond": w["cond"], "inc": bc[-1], "body": body,
                     "synthetic": True}
                c[i:i + 2] = [f]
                changed = True
                continue
        i += 1
    return changed


def _endless_for(comp):
    c = comp.get("c") or []
    changed = False
    i = 0
    while i < len(c):
        f = c[i]
        if isinstance(f, dict) and f.get("k") == "ForStmt" and f.get("cond") is None and f.get("inc") is not None and \
                isinstance(f.get("init"), dict) and f["init"].get("k") == "DeclStmt" and \
                isinstance(f.get("body"), dict) and not _own_continue(f["body"]):
            body = f["body"]
            if body.get("k") != "CompoundStmt":
                body = {"k": "CompoundStmt", "l": body.get("l"), "c": [body], "synthetic": True}
            else:
                body = dict(body)
                body["c"] = list(body.get("c") or [])
            body["c"].append(f["inc"])
            w = {"k": "WhileStmt", "l": f.get("l"), "cond": {"k": "CXXBoolLiteralExpr", "v": True, "l": f.get("l"),
                                                             "synthetic": True},
                 "body": body, "synthetic": True}
            c[i:i + 1] = [f["init"], w]
            changed = True
            i += 2
            continue
        i += 1
    return changed


def _pure(e):
    for n in walk(e):
        k = n.get("k")
        if k in ("CallExpr", "CXXMemberCallExpr", "CXXOperatorCallExpr", "CompoundAssignOperator", "CXXConstructExpr"):
            return False
        if k == "BinaryOperator" and n.get("op") == "=":
            return False
        if k == "UnaryOperator" and n.get("op") in ("++", "--"):
            return False
    return True


def _exits(st):
    k = st.get("k") if isinstance(st, dict) else None
    if k in ("ReturnStmt", "BreakStmt", "ContinueStmt", "CXXThrowExpr"):
        return True
    if k == "CompoundStmt":
        c = st.get("c") or []
        return bool(c) and _exits(c[-1])
    if k == "IfStmt":
        return st.get("else") is not None and _exits(st.get("then")) and _exits(st.get("else"))
    if k == "ExprWithCleanups":
        return any(_exits(x) for x in st.get("c") or [])
    return False


def _switch_to_if(sw):
    """SwitchStmt node -> nested IfStmt, or None when the shape is not the simple one."""
    c = sw.get("c") or []
    if len(c) != 2 or not isinstance(c[1], dict) or c[1].get("k") != "CompoundStmt" or not _pure(c[0]):
        return None
    cond = c[0]
    groups = []          # (labels or None for default, [statements])
    for st in c[1].get("c") or []:
        labels = []
        is_default = False
        x = st
        while isinstance(x, dict) and x.get("k") in ("CaseStmt", "DefaultStmt"):
            cc = x.get("c") or []
            if x["k"] == "CaseStmt":
                if len(cc) != 2:
                    return None
                labels.append(cc[0])
                x = cc[1]
            else:
                if len(cc) != 1:
                    return None
                is_default = True
                x = cc[0]
        if labels or is_default:
            groups.append([None if is_default else labels, [x]])
            if is_default and labels:
                return None
        else:
            if not groups:
                return None
            groups[-1][1].append(st)
    if not groups:
        return None
    for labels, body in groups:
        if not _exits(body[-1]):
            return None          # fall-through into the next group: not the simple shape
    loc = sw.get("l")

    def eq(lab):
        return {"k": "BinaryOperator", "op": "==", "l": loc, "c": [cond, lab], "synthetic": True}

    def body_of(stmts):
        stmts = list(stmts)
        if stmts and stmts[-1].get("k") == "BreakStmt":
            stmts = stmts[:-1]
        return {"k": "CompoundStmt", "l": loc, "c": stmts, "synthetic": True}
    default = [g for g in groups if g[0] is None]
    tail = body_of(default[0][1]) if default else None
    for labels, body in reversed([g for g in groups if g[0] is not None]):
        test = eq(labels[0])
        for lab in labels[1:]:
            test = {"k": "BinaryOperator", "op": "||", "l": loc, "c": [test, eq(lab)], "synthetic": True}
        tail = {"k": "IfStmt", "l": loc, "cond": test, "then": body_of(body), "else": tail, "synthetic": True}
    return tail


def _assign_ternary(st):
    """ExprStmt `x = c ? a : b` -> IfStmt, else None."""
    x = st
    while isinstance(x, dict) and x.get("k") in ("ExprWithCleanups", "ParenExpr"):
        cc = x.get("c") or []
        x = cc[0] if len(cc) == 1 else None
    if not isinstance(x, dict):
        return None
    if x.get("k") == "BinaryOperator" and x.get("op") == "=":
        lhs, rhs, mk = x["c"][0], x["c"][1], lambda r: dict(x, c=[lhs, r], synthetic=True)
    elif x.get("k") == "CXXOperatorCallExpr" and x.get("op") == "=" and len(x.get("c") or []) == 3:
        lhs, rhs, mk = x["c"][1], x["c"][2], lambda r: dict(x, c=[x["c"][0], lhs, r], synthetic=True)
    else:
        return None
    r = rhs
    while isinstance(r, dict) and r.get("k") in ("ParenExpr", "ImplicitCastExpr", "ExprWithCleanups", "MaterializeTemporaryExpr"):
        cc = r.get("c") or []
        r = cc[0] if len(cc) == 1 else None
    if not isinstance(r, dict) or r.get("k") != "ConditionalOperator" or not _pure(lhs):
        return None
    cond, a, b = r["c"]
    return {"k": "IfStmt", "l": st.get("l"), "cond": cond, "then": mk(a), "else": mk(b), "synthetic": True}


def _expand_bool_temps(body, is_bool):
    """N7 on a whole function body (in place)."""
    written = set()
    for n in walk(body):
        k = n.get("k")
        t = None
        if k in ("BinaryOperator", "CompoundAssignOperator") and n.get("op", "").endswith("=") and \
                n.get("op") not in ("==", "!=", "<=", ">="):
            t = n["c"][0]
        elif k == "UnaryOperator" and n.get("op") in ("++", "--"):
            t = n["c"][0]
        elif k == "CXXOperatorCallExpr" and (n.get("op") in ("++", "--") or (n.get("op", "").endswith("=") and
                                                                             n.get("op") not in ("==", "!=", "<=", ">="))):
            t = n["c"][1] if len(n.get("c") or []) > 1 else None
        if t is not None:
            s = strip(t, casts=True)
            if s is not None and s.get("k") == "DeclRefExpr":
                written.add(s["d"]["id"])
    temps = {}
    for n in walk(body):
        if n.get("k") == "Var" and n.get("init") is not None and n["id"] not in written and not n.get("ref") and \
                is_bool(n.get("t")) and _pure(n["init"]):
            ok = True
            for x in walk(n["init"]):
                if x.get("k") == "DeclRefExpr" and x["d"]["k"] in ("Var", "ParmVar") and x["d"]["id"] in written:
                    ok = False
                if x.get("k") in ("UnaryOperator",) and x.get("op") == "*":
                    ok = False          # reads through a pointer / iterator: what it points to may change
            if ok:
                temps[n["id"]] = n["init"]
    if not temps:
        return 0
    n_rep = 0

    def sub(e):
        nonlocal n_rep
        """expression in condition position: replace references to bool temporaries"""
        if not isinstance(e, dict):
            return e
        s = e
        k = s.get("k")
        if k == "DeclRefExpr" and s["d"]["id"] in temps:
            n_rep += 1
            return {"k": "ParenExpr", "l": s.get("l"), "t": s.get("t"), "c": [temps[s["d"]["id"]]], "synthetic": True}
        if k in ("ImplicitCastExpr", "ParenExpr", "ExprWithCleanups") and len(s.get("c") or []) == 1:
            s["c"][0] = sub(s["c"][0])
        elif k == "UnaryOperator" and s.get("op") == "!":
            s["c"][0] = sub(s["c"][0])
        elif k == "BinaryOperator" and s.get("op") in ("&&", "||"):
            s["c"][0] = sub(s["c"][0])
            s["c"][1] = sub(s["c"][1])
        return e
    for n in walk(body):
        k = n.get("k")
        if k in ("IfStmt", "WhileStmt", "DoStmt", "ForStmt") and isinstance(n.get("cond"), dict):
            n["cond"] = sub(n["cond"])
        elif k == "ConditionalOperator":
            n["c"][0] = sub(n["c"][0])
    return n_rep


def _pos(n):
    try:
        a, b = str(n.get("l") or "0:0").split(":")[-2:]
        return int(a), int(b)
    except ValueError:
        return (0, 0)


def _expand_field_copies(body):
    """N8 on a whole function body (in place)."""
    writes = {}        # var id -> [positions of writes (assignments, ++, compound, passing by address is not tracked)]
    for n in walk(body):
        k = n.get("k")
        t = None
        if k in ("BinaryOperator", "CompoundAssignOperator") and n.get("op", "").endswith("=") and \
                n.get("op") not in ("==", "!=", "<=", ">="):
            t = n["c"][0]
        elif k == "UnaryOperator" and n.get("op") in ("++", "--"):
            t = n["c"][0]
        elif k == "CXXOperatorCallExpr" and (n.get("op") in ("++", "--") or (n.get("op", "").endswith("=") and
                                                                             n.get("op") not in ("==", "!=", "<=", ">="))):
            t = n["c"][1] if len(n.get("c") or []) > 1 else None
        if t is None:
            continue
        x = strip(t, casts=True)
        while x is not None and x.get("k") == "MemberExpr":
            x = strip((x.get("c") or [None])[0], casts=True)
        if x is not None and x.get("k") == "DeclRefExpr":
            writes.setdefault(x["d"]["id"], []).append(_pos(n))
    # a local handed to a callee may be written there: calls that mention it after the copy count as writes
    copies = {}
    for n in walk(body):
        if n.get("k") != "Var" or n.get("init") is None or n.get("ref") or n["id"] in writes:
            continue
        e = strip(n["init"], casts=True)
        if e is None or e.get("k") != "MemberExpr" or e["m"]["k"] != "Field":
            continue
        root = e
        while root is not None and root.get("k") == "MemberExpr":
            root = strip((root.get("c") or [None])[0], casts=True)
        if root is None or root.get("k") != "DeclRefExpr" or root["d"]["k"] != "Var" or root["d"].get("global"):
            continue
        rid = root["d"]["id"]
        here = _pos(n)
        if any(p > here for p in writes.get(rid, ())):
            continue
        # the root must not be passed to a call (by reference) after the copy
        later_call = False
        for c in walk(body):
            if c.get("k") in ("CallExpr", "CXXMemberCallExpr") and _pos(c) > here:
                for a in (c.get("c") or [])[1:]:
                    sa = strip(a, casts=True)
                    if sa is not None and sa.get("k") == "DeclRefExpr" and sa["d"]["id"] == rid:
                        later_call = True
        if later_call:
            continue
        copies[n["id"]] = n["init"]
    if not copies:
        return 0
    n_rep = 0

    def rec(node):
        nonlocal n_rep
        if not isinstance(node, dict):
            return
        for key, v in list(node.items()):
            if isinstance(v, dict):
                if v.get("k") == "DeclRefExpr" and v["d"]["id"] in copies:
                    node[key] = {"k": "ParenExpr", "l": v.get("l"), "t": v.get("t"), "c": [copies[v["d"]["id"]]],
                                 "synthetic": True}
                    n_rep += 1
                else:
                    rec(v)
            elif isinstance(v, list):
                for i, x in enumerate(v):
                    if isinstance(x, dict) and x.get("k") == "DeclRefExpr" and x["d"]["id"] in copies:
                        v[i] = {"k": "ParenExpr", "l": x.get("l"), "t": x.get("t"), "c": [copies[x["d"]["id"]]],
                                "synthetic": True}
                        n_rep += 1
                    else:
                        rec(x)
    rec(body)
    return n_rep


def _split_return(s):
    """ReturnStmt node -> IfStmt with two returns, when the value is a conditional expression."""
    v = s.get("value")
    x = v
    while x is not None and x.get("k") in ("ParenExpr", "ImplicitCastExpr", "ExprWithCleanups", "ConstantExpr",
                                            "MaterializeTemporaryExpr", "CXXBindTemporaryExpr"):
        cc = x.get("c") or []
        x = cc[0] if len(cc) == 1 else None
    if x is None or x.get("k") != "ConditionalOperator":
        return None
    cond, a, b = x["c"]
    ra = {"k": "ReturnStmt", "l": s.get("l"), "value": a, "synthetic": True}
    rb = {"k": "ReturnStmt", "l": s.get("l"), "value": b, "synthetic": True}
    return {"k": "IfStmt", "l": s.get("l"), "cond": cond, "then": _split_return(ra) or ra, "else": _split_return(rb) or rb,
            "synthetic": True}


def normalise(body, is_bool=None):
    """In-place normalisation of a function body; returns the number of rewrites. is_bool(type id) -> bool enables N7."""
    if not isinstance(body, dict):
        return 0
    n = 0
    if is_bool is not None:
        n += _expand_bool_temps(body, is_bool)
        n += _expand_field_copies(body)

    def rec(node):
        nonlocal n
        if not isinstance(node, dict):
            return
        k = node.get("k")
        if k == "LambdaExpr":
            pass
        if k == "CompoundStmt":
            c0 = node.get("c") or []
            for i, x in enumerate(c0):
                if isinstance(x, dict) and x.get("k") == "SwitchStmt":
                    r = _switch_to_if(x)
                    if r is not None:
                        c0[i] = r
                        n += 1
            if _endless_for(node):
                n += 1
            if _while_to_for(node):
                n += 1
            c = node.get("c") or []
            for i, x in enumerate(c):
                if isinstance(x, dict) and x.get("k") == "ReturnStmt":
                    r = _split_return(x)
                    if r is not None:
                        c[i] = r
                        n += 1
                elif isinstance(x, dict):
                    r = _assign_ternary(x)
                    if r is not None:
                        c[i] = r
                        n += 1
        for key in ("then", "else", "body"):
            x = node.get(key)
            if isinstance(x, dict) and x.get("k") == "ReturnStmt":
                r = _split_return(x)
                if r is not None:
                    node[key] = r
                    n += 1
        for key, v in list(node.items()):
            if isinstance(v, dict):
                rec(v)
            elif isinstance(v, list):
                for x in v:
                    if isinstance(x, dict):
                        rec(x)
    rec(body)
    return n
