#!/usr/bin/env python3
"""python3 ctpgsa/check.py <Cxx> [--tier quick|thorough]

Decides one property on /repo's current working tree (see DESIGN.md). quick = witness matrix;
thorough = witness matrix + every TU the repository builds (tests, examples) + cross-references.
"""
import importlib
import os
import sys

sys.path.insert(0, os.path.dirname(os.path.dirname(os.path.abspath(__file__))))

from ctpgsa import core, facts  # noqa: E402

LEVELS = {"C15": "proof", "C19": "proof", "C13": "proof"}


def main(argv):
    if not argv or argv[0] in ("-h", "--help"):
        print(__doc__)
        return 2
    pid = argv[0].upper()
    tier = os.environ.get("VERIF_TIER", "quick")
    if "--tier" in argv:
        tier = argv[argv.index("--tier") + 1]
    if tier not in ("quick", "thorough"):
        tier = "quick"
    try:
        mod = importlib.import_module("ctpgsa.props." + pid.lower())
    except ImportError as e:
        print("no check for %s: %s" % (pid, e))
        return 2

    def body(chk):
        if hasattr(mod, "pre"):
            mod.pre(chk)
        tus = facts.witness_tus()
        if tier == "thorough":
            tus = tus + facts.repo_tus()
        fx = facts.Facts(tus)
        chk.inventory = fx.inventory()
        print("analysed %d TU(s): %d function bodies (%d instantiated, %d patterns), %d records, %d variables "
              "[extraction %.1fs]" % (len(fx.tus), chk.inventory["functions"],
                                      chk.inventory["instantiated_functions"], chk.inventory["pattern_functions"],
                                      chk.inventory["records"], chk.inventory["vars"], fx.extract_s))
        try:
            mod.check(chk, fx)
        finally:
            # findings in functions that now use helpers unknown to the analysis are not verdicts (see guard.py)
            from ctpgsa import guard
            guard.apply(chk, fx)
        if tier == "thorough" and not chk.violations and not os.environ.get("CTPGSA_EVIDENCE_DIR"):
            from ctpgsa import selftest
            selftest.run(chk, pid)
        facts.prune_cache()

    return core.run(pid, tier, body, LEVELS.get(pid, "other"))


if __name__ == "__main__":
    sys.exit(main(sys.argv[1:]))
