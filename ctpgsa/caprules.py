"""Capacity rules (shared by C12, C06, C07).

 CAP-K   growth of a fixed-capacity container is preceded, on every path, by a test that the current size is below
         the capacity (inside the container); cbitset accessors check the index
 CAP-ST  the new state index is known to be below state_count_cap before it is used (throw otherwise)
 CAP-D   dfa_size_analyzer and dfa_builder agree operation by operation: number of states created and the slice
         returned, symbolically (polynomials over the operands), for n == 0 and n != 0
 CAP-T   per-term-kind sizes match what add_term_data_to_dfa creates; lexer_dfa_size is their sum and sizes lexer_sm
 CAP-I   pushes into per-state item vectors are guarded by a membership test (so bounded by the number of valid items,
         which is what the default cap is)
 CAP-S   push accounting on the fixed-capacity parse stacks used with cstring_buffer
"""
import re

from . import astq as A
from . import absint as AI
from . import flow
from .canon import Canon
from .facts import walk, strip, AnalysisIncomplete
from .lr import first_inst

P = "ctpg::parser::"
R = "ctpg::regex::"
SA = P + "state_analyzer::"


# ------------------------------------------------------------------------------------------------ polynomials
class Poly(dict):
    @staticmethod
    def const(c):
        return Poly({(): c}) if c else Poly()

    @staticmethod
    def sym(s):
        return Poly({(s,): 1})

    def __add__(self, o):
        r = Poly(self)
        for k, v in o.items():
            r[k] = r.get(k, 0) + v
            if r[k] == 0:
                del r[k]
        return r

    def __neg__(self):
        return Poly({k: -v for k, v in self.items()})

    def __sub__(self, o):
        return self + (-o)

    def __mul__(self, o):
        r = Poly()
        for k1, v1 in self.items():
            for k2, v2 in o.items():
                k = tuple(sorted(k1 + k2))
                r[k] = r.get(k, 0) + v1 * v2
                if r[k] == 0:
                    del r[k]
        return r

    def subst(self, sym, value):
        r = Poly()
        for k, v in self.items():
            n = k.count(sym)
            k2 = tuple(x for x in k if x != sym)
            r = r + Poly({k2: v * (value ** n)}) if v * (value ** n) else r
        return r

    def subst_poly(self, sym, value):
        """Replace the symbol by a polynomial."""
        r = Poly()
        for k, v in self.items():
            n = k.count(sym)
            term = Poly({tuple(x for x in k if x != sym): v})
            for _ in range(n):
                term = term * value
            r = r + term
        return r

    def show(self):
        if not self:
            return "0"
        return " + ".join(("%d*" % v if v != 1 or not k else "") + "*".join(k) if k else str(v) for k, v in sorted(self.items()))


def poly_of(cn, node):
    s = strip(node, casts=True)
    if s is None:
        return Poly()
    v = AI.const_of(s) if s.get("k") in ("IntegerLiteral", "CharacterLiteral") else None
    if v is not None:
        return Poly.const(v)
    if s.get("k") == "BinaryOperator" and s.get("op") in ("+", "-", "*"):
        a, b = poly_of(cn, s["c"][0]), poly_of(cn, s["c"][1])
        return {"+": a + b, "-": a - b, "*": a * b}[s["op"]]
    if s.get("k") == "DeclRefExpr" and s["d"]["id"] in cn.defs:
        return poly_of(cn, cn.defs[s["d"]["id"]])          # a named temporary is its initialiser
    if s.get("k") == "MemberExpr" and s["m"]["n"] in ("n", "start"):
        # field of a local slice that is built once from a braced pair and never written: slice v{a, b}; v.n is b
        il = _local_pair(cn, (s.get("c") or [None])[0])
        if il is not None:
            return poly_of(cn, il["c"][1 if s["m"]["n"] == "n" else 0])
    return Poly.sym(cn.c(s))


def _local_pair(cn, e):
    """The two-element braced initialiser of the never-reassigned local that expression e names, else None."""
    b = strip(e, casts=True)
    if b is None or b.get("k") != "DeclRefExpr":
        return None
    vid = b["d"]["id"]
    if vid in cn.multi:
        return None
    for n in walk(cn.fn.body):
        if n.get("k") == "Var" and n["id"] == vid and n.get("init") is not None:
            for x in walk(n["init"]):
                if x.get("k") == "InitListExpr" and len(x.get("c") or []) == 2:
                    return x
                if x.get("k") in ("CXXConstructExpr", "CXXTemporaryObjectExpr") and len(x.get("c") or []) == 2 and \
                        not (x.get("ctor") or {}).get("copy"):
                    return x
            return None
    return None


# ------------------------------------------------------------------------------------------------ CAP-K
def _establishes_room(f, size_field, cap_names, depth=0):
    """Does every non-throwing path through f establish size < capacity?  (cap_names: canonical spellings)"""
    for ev, term_ in flow.paths(f.body):
        if term_ == "throw":
            continue
        if not _path_has_room(f, ev, size_field, cap_names, depth):
            return False
    return True


def _path_has_room(f, ev, size_field, cap_names, depth=0):
    cn = Canon(f)
    for e in ev:
        if e[0] == "cond":
            a = AI.atom_with_outcome(e[1], e[2])
            if a[0] == "cmp" and a[2][0] == "path" and a[2][1].endswith(size_field):
                rhs = cn.c(_rhs(e[1]))
                if (rhs in cap_names or re.fullmatch(r"\d+", rhs)) and a[1] == "<":
                    return True
        if e[0] == "stmt":
            for eff in AI.effects(e[1]):
                if eff[0] == "call" and depth < 2:
                    c = eff[2].get("callee") or {}
                    g = f.facts.by_id.get(c.get("id"))
                    if g is not None and g.o["q"].startswith("ctpg::stdex::") and g.body is not None and \
                            not g.o["params"] and _establishes_room(g, size_field, cap_names, depth + 1):
                        return True
    return False


def _rhs(cond):
    s = strip(cond, casts=True)
    while s is not None and s.get("k") == "UnaryOperator" and s.get("op") == "!":
        s = strip(s["c"][0], casts=True)
    if s is not None and s.get("k") == "BinaryOperator":
        return s["c"][1]
    return None


def cap_k(chk, fx):
    chk.rule("CAP-K", "growth operations of fixed-capacity containers", 2)
    seen = set()
    targets = [("ctpg::stdex::cvector::push_back", "current_size", {"N"}),
               ("ctpg::stdex::cvector::emplace_back", "current_size", {"N"})]
    for q, size_field, caps in targets:
        fns = fx.need(q)
        for f in fns[:6]:
            flow.assert_structured(f)
            stores = 0
            ok = True
            for ev, term_ in flow.paths(f.body):
                # find the store into the array and the room test before it
                idx = None
                for i, e in enumerate(ev):
                    if e[0] == "stmt":
                        for eff in AI.effects(e[1]):
                            if eff[0] in ("assign", "set") and eff[1].startswith("this.the_data["):
                                idx = i
                if idx is None:
                    continue
                stores += 1
                if not _path_has_room(f, ev[:idx], size_field, caps):
                    ok = False
            key = (q, f.o["l"])
            if stores == 0:
                chk.incomplete("%s: store into the_data not found" % q)
            if ok:
                if key not in seen:
                    seen.add(key)
                    chk.ok("CAP-K", A.site(f), "the store the_data[current_size++] is preceded by a test current_size < N "
                                               "that throws otherwise")
            else:
                chk.violation("CAP-K", A.site(f), "CAP-K:%s" % q.split("::")[-1],
                              "%s writes the_data[current_size] on a path where current_size < N has not been "
                              "established: a full container is overrun (user limits too small / stack too small)" %
                              q.split("::")[-1])
    # the constructor cvector(const T&, size_t) grows through push_back
    # cbitset: every accessor checks the index
    chk.rule("CAP-B", "cbitset accessors check their index", 3)
    for name in ("set", "reset", "flip", "test"):
        for f in fx.fns("ctpg::stdex::cbitset::" + name)[:6]:
            if not f.o["params"]:
                continue
            cn = Canon(f)
            uses = [n for n in walk(f.body) if n.get("k") == "ArraySubscriptExpr" and "$0" in cn.c(n)]
            body = f.body.get("c") or []
            first = strip(body[0]) if body else None
            good = first is not None and first.get("k") == "CXXMemberCallExpr" and \
                (first.get("callee") or {}).get("n") == "check_idx" and cn.c(A.call_args(first)[0]) == "$0"
            key = ("cb", name, len(f.o["params"]))
            if not uses:
                continue
            if good:
                if key not in seen:
                    seen.add(key)
                    chk.ok("CAP-B", A.site(f), "cbitset::%s(idx, ...) calls check_idx(idx) first" % name)
            else:
                chk.violation("CAP-B", A.site(f), "CAP-B:cbitset::%s" % name, "cbitset::%s indexes the words without check_idx(idx)" % name)
    for f in fx.need("ctpg::stdex::cbitset::check_idx")[:3]:
        cn = Canon(f)
        thr = [cn.guards(n) for n in walk(f.body) if n.get("k") == "CXXThrowExpr"]
        if thr and any(re.fullmatch(r"\(\$0 >= \d+\)", g) or g == "($0 >= N)" for g in thr[0]):
            if "chk" not in seen:
                seen.add("chk")
                chk.ok("CAP-B", A.site(f), "check_idx throws for idx >= N")
        else:
            chk.violation("CAP-B", A.site(f), "CAP-B:check_idx", "check_idx throws under %s" % thr)


# ------------------------------------------------------------------------------------------------ CAP-ST
def cap_state(chk, fx):
    chk.rule("CAP-ST", "new parser state index is below the state cap before it is used", 1)
    f = first_inst(fx, SA + "transitions")
    flow.assert_structured(f)
    cn = Canon(f)
    # locate the statement new_state_idx = state_count++ and the throw test
    body_paths = flow.paths(f.body, unroll=1)
    seen_alloc = False
    bad = False
    for ev, term_ in body_paths:
        off = 0            # state_count == c + off, where c is the count when the new index was taken
        alloc_at = None
        bound_ok = False
        for i, e in enumerate(ev):
            if e[0] == "stmt":
                for eff in AI.effects(e[1]):
                    if eff[0] == "inc" and eff[1].endswith("state_count"):
                        if alloc_at is None:
                            alloc_at = i
                            # post-increment used as value: new index = c
                        off += eff[2]
            if e[0] == "cond" and alloc_at is not None or (e[0] == "cond" and _mentions_cap(cn, e[1])):
                a = AI.atom_with_outcome(e[1], e[2])
                if a[0] == "cmp" and a[2][0] == "path" and a[2][1].endswith("state_count") and \
                        cn.c(_rhs(e[1])) == "state_count_cap":
                    cur_off = off if alloc_at is not None else 0
                    # relation: c + cur_off  <op>  cap   must imply c < cap  (c + later increments)
                    later = 0 if alloc_at is not None else 1      # test before taking the index: c is the current count
                    if a[1] == "<=" and cur_off >= 1:
                        bound_ok = True
                    if a[1] == "<" and cur_off >= 0:
                        bound_ok = True
        if alloc_at is None:
            continue
        seen_alloc = True
        if term_ == "throw":
            continue
        # uses of the new index after allocation
        if not bound_ok:
            bad = True
    if not seen_alloc:
        chk.incomplete("transitions: allocation of a new state (state_count++) not found")
    if bad:
        chk.violation("CAP-ST", A.site(f), "CAP-ST:transitions",
                      "a path allocates state index state_count++ and goes on without having established that the index "
                      "is below state_count_cap: with a cap that is one too small the tables are overrun instead of the "
                      "construction being rejected")
    else:
        chk.ok("CAP-ST", A.site(f), "every path that takes a new state index throws unless the index is < state_count_cap")


def _mentions_cap(cn, cond):
    return "state_count_cap" in cn.c(cond)


# ------------------------------------------------------------------------------------------------ CAP-D
def _pushes(fx, f, cn, node, case, depth=0):
    """Symbolic number of sm.push_back executed by a statement tree, under the case {'n0': bool}."""
    if node is None:
        return Poly()
    k = node.get("k")
    if k == "CompoundStmt":
        tot = Poly()
        for c in node.get("c") or []:
            tot = tot + _pushes(fx, f, cn, c, case, depth)
            if _always_returns(c, cn, case):
                break
        return tot
    if k == "IfStmt":
        cond = cn.c(node["cond"])
        if cond == "($1 == 0)":
            return _pushes(fx, f, cn, node.get("then") if case["n0"] else node.get("else"), case, depth)
        # data-dependent branches must not create states
        a, b = _pushes(fx, f, cn, node.get("then"), case, depth), _pushes(fx, f, cn, node.get("else"), case, depth)
        if a or b:
            raise AnalysisIncomplete("dfa_builder::%s creates states under a data-dependent condition (%s)" % (f.o["n"], cond[:60]))
        return Poly()
    if k == "ForStmt":
        inner = _pushes(fx, f, cn, node.get("body"), case, depth)
        if not inner:
            return Poly()
        init = node["init"]["decls"][0]
        lo = poly_of(cn, init.get("init"))
        cond = strip(node["cond"], casts=True)
        if cond.get("op") != "<" or A.declref_id(cond["c"][0]) != init["id"]:
            raise AnalysisIncomplete("dfa_builder::%s: counted loop with an unrecognised bound" % f.o["n"])
        hi = poly_of(cn, cond["c"][1])
        trip = hi - lo
        if any(("@i{" in s) for key in list(trip) for s in key):
            raise AnalysisIncomplete("dfa_builder::%s: loop bound is not invariant" % f.o["n"])
        return trip * inner
    if k in ("CXXForRangeStmt", "WhileStmt"):
        inner = _pushes(fx, f, cn, node.get("body"), case, depth)
        if inner:
            raise AnalysisIncomplete("dfa_builder::%s creates states in an uncounted loop" % f.o["n"])
        return Poly()
    tot = Poly()
    for n in walk(node):
        if n.get("k") == "CXXMemberCallExpr":
            c = n.get("callee") or {}
            obj = A.call_object(n)
            if c.get("n") in ("push_back", "emplace_back") and obj is not None and cn.c(obj) == "sm":
                tot = tot + Poly.const(1)
            elif c.get("q", "").startswith(R + "dfa_builder::") and depth < 3:
                g = f.facts.by_id.get(c["id"])
                if g is not None and g.body is not None:
                    sub = _pushes(fx, g, Canon(g), g.body, {"n0": False}, depth + 1)
                    if any(s.startswith("$") for key in sub for s in key):
                        # callee count depends on its arguments: only argument-free counts are supported
                        if c["n"] not in ("cat", "alt", "merge", "mark_end_state"):
                            raise AnalysisIncomplete("dfa_builder::%s calls %s whose state count depends on arguments" % (f.o["n"], c["n"]))
                        sub = Poly()
                    tot = tot + sub
    return tot


def _always_returns(node, cn, case):
    k = node.get("k")
    if k == "ReturnStmt":
        return True
    if k == "IfStmt" and cn.c(node["cond"]) == "($1 == 0)":
        arm = node.get("then") if case["n0"] else node.get("else")
        if arm is None:
            return False
        last = arm if arm.get("k") != "CompoundStmt" else (arm.get("c") or [None])[-1]
        return last is not None and last.get("k") == "ReturnStmt"
    return False


def _result_n(f, cn, case):
    """Symbolic `n` of the slice returned under the case."""
    rets = []
    for n in walk(f.body):
        if n.get("k") == "ReturnStmt" and n.get("value") is not None:
            g = cn.guards(n)
            if "($1 == 0)" in g and not case["n0"]:
                continue
            if "!($1 == 0)" in g and case["n0"]:
                continue
            rets.append(n)
    if not rets:
        return None
    # with an early return for n == 0, the first applicable return wins
    r = rets[0]
    v = strip(r["value"], casts=True)
    txt = cn.c(v)
    if txt == "$0":
        return Poly.sym("$0.n")
    m = None
    if v.get("k") in ("InitListExpr", "CXXConstructExpr", "CXXTemporaryObjectExpr", "CXXFunctionalCastExpr"):
        il = v if v.get("k") == "InitListExpr" else None
        for x in walk(v):
            if x.get("k") == "InitListExpr":
                il = x
                break
        if il is not None and len(il.get("c") or []) == 2:
            return poly_of(cn, il["c"][1])
    if v.get("k") in ("CXXMemberCallExpr", "CallExpr"):
        c = v.get("callee") or {}
        g = f.facts.by_id.get(c.get("id"))
        if g is not None:
            sub = _result_n(g, Canon(g), {"n0": False})
            if sub is not None:
                # substitute actual arguments for $k.n
                args = [cn.c(a) for a in A.call_args(v)]
                out = Poly()
                for key, coef in sub.items():
                    term = Poly.const(coef)
                    for s in key:
                        mm = re.fullmatch(r"\$(\d+)\.n", s)
                        if mm and int(mm.group(1)) < len(args):
                            term = term * Poly.sym(args[int(mm.group(1))] + ".n")
                        else:
                            term = term * Poly.sym(s)
                    out = out + term
                return out
    lp = _local_pair(cn, v)
    if lp is not None:
        return poly_of(cn, lp["c"][1])
    if txt.startswith("?"):
        # accumulator: v = slice{v.start, v.n + K} inside a counted loop, starting from $0
        acc = txt[1:]
        init = [n for n in walk(f.body) if n.get("k") == "Var" and n["n"] == acc]
        base = None
        if init and cn.c(init[0]["init"]) == "$0":
            base = Poly.sym("$0.n")
        elif init:
            ip = _pair_of(init[0].get("init"))
            if ip is not None:
                base = poly_of(cn, ip["c"][1])          # slice v{start, n0}
        if base is not None:
            total = base
            for loop in [n for n in walk(f.body) if n.get("k") == "ForStmt"]:
                for n in walk(loop["body"]):
                    if n.get("k") == "CXXOperatorCallExpr" and n.get("op") == "=" and cn.c(n["c"][1]) == txt:
                        il = [x for x in walk(n["c"][2]) if x.get("k") == "InitListExpr"]
                        rhs = strip(n["c"][2], casts=True)
                        inc = None
                        if rhs is not None and rhs.get("k") == "CXXMemberCallExpr" and \
                                ((rhs.get("callee") or {}).get("q", "").startswith(R + "dfa_builder::") or
                                 (rhs.get("callee") or {}).get("q", "").startswith(R + "dfa_size_analyzer::")):
                            # v = op(v, slice{...}): the slice that operation returns (cat returns s1.n + s2.n)
                            g = f.facts.by_id.get(rhs["callee"]["id"])
                            sub = _result_n(g, Canon(g), {"n0": False}) if g is not None else None
                            if sub is not None:
                                args = A.call_args(rhs)
                                val = Poly()
                                for key, coef in sub.items():
                                    term = Poly.const(coef)
                                    for s_ in key:
                                        mm = re.fullmatch(r"\$(\d+)\.n", s_)
                                        if mm and int(mm.group(1)) < len(args):
                                            a_ = strip(args[int(mm.group(1))], casts=True)
                                            ilp = _pair_of(a_)
                                            term = term * (poly_of(cn, ilp["c"][1]) if ilp is not None
                                                           else Poly.sym(cn.c(a_) + ".n"))
                                        else:
                                            term = term * Poly.sym(s_)
                                    val = val + term
                                inc = val - Poly.sym(txt + ".n")
                        elif il and len(il[0]["c"]) == 2:
                            inc = poly_of(cn, il[0]["c"][1]) - Poly.sym(txt + ".n")
                        if inc is not None:
                            d = loop["init"]["decls"][0]
                            cond = strip(loop["cond"], casts=True)
                            trip = poly_of(cn, cond["c"][1]) - poly_of(cn, d.get("init"))
                            total = total + trip * inc
            return total
    return None


def _pair_of(e):
    """The two-element braced / constructed pair an expression is (slice{a, b}), else None."""
    if e is None:
        return None
    for x in walk(e):
        if x.get("k") == "InitListExpr" and len(x.get("c") or []) == 2:
            return x
        if x.get("k") in ("CXXConstructExpr", "CXXTemporaryObjectExpr") and len(x.get("c") or []) == 2 and \
                not (x.get("ctor") or {}).get("copy"):
            return x
    return None


def _size_delta(f, cn, case):
    tot = Poly()
    for n in walk(f.body):
        if n.get("k") == "CompoundAssignOperator" and n.get("op") == "+=" and cn.c(n["c"][0]) == "size":
            g = cn.guards(n)
            if "($1 == 0)" in g and not case["n0"]:
                continue
            if "!($1 == 0)" in g and case["n0"]:
                continue
            tot = tot + poly_of(cn, n["c"][1])
        if n.get("k") in ("CXXMemberCallExpr",) and (n.get("callee") or {}).get("q", "").startswith(R + "dfa_size_analyzer::"):
            g2 = f.facts.by_id.get(n["callee"]["id"])
            if g2 is not None and g2 is not f:
                tot = tot + _size_delta(g2, Canon(g2), {"n0": False})
    return tot


OPS = [("primary_char", 0), ("primary_subset", 0), ("star", 1), ("plus", 1), ("opt", 1), ("cat", 2), ("alt", 2), ("rep", 1)]


def cap_d(chk, fx):
    chk.rule("CAP-D", "regex operations: states created by the builder vs counted by the analyser", 9)
    for op, n_slices in OPS:
        fb = first_inst(fx, R + "dfa_builder::" + op)
        fa = first_inst(fx, R + "dfa_size_analyzer::" + op)
        cb, ca = Canon(fb), Canon(fa)
        for n0 in ((False, True) if op == "rep" else (False,)):
            case = {"n0": n0}
            pushes = _pushes(fx, fb, cb, fb.body, case)
            counted = _size_delta(fa, ca, case)
            rb, ra = _result_n(fb, cb, case), _result_n(fa, ca, case)
            if ra is not None:
                # `size += whole.n - s.n` after a loop that grows `whole`: whole.n is what the loop made of it
                for rn in walk(fa.body):
                    if rn.get("k") == "ReturnStmt" and rn.get("value") is not None:
                        rt_ = ca.c(rn["value"])
                        if rt_.startswith("?"):
                            counted = counted.subst_poly(rt_ + ".n", ra)
            if n0:
                pushes, counted = pushes.subst("$1", 0), counted.subst("$1", 0)
                rb = rb.subst("$1", 0) if rb is not None else None
                ra = ra.subst("$1", 0) if ra is not None else None
            site = A.site(fb)
            label = "%s%s" % (op, " with n == 0" if n0 else (" with n != 0" if op == "rep" else ""))
            if rb is None or ra is None:
                chk.incomplete("CAP-D: slice returned by %s not recognised" % op)
            operand_n = Poly()
            for i in range(n_slices):
                operand_n = operand_n + Poly.sym("$%d.n" % i)
            problems = []
            if pushes != counted:
                problems.append("the builder creates %s states, the analyser counts %s" % (pushes.show(), counted.show()))
            if rb != ra:
                problems.append("the builder returns a slice of %s states, the analyser one of %s" % (rb.show(), ra.show()))
            if not n0 and (rb - operand_n) != pushes:
                problems.append("the returned slice grows by %s but %s states were created" % ((rb - operand_n).show(), pushes.show()))
            if problems:
                chk.violation("CAP-D", site, "CAP-D:%s%s" % (op, ":n0" if n0 else ""), "%s: %s — the automaton array is "
                              "sized by the analyser and filled by the builder" % (label, "; ".join(problems)))
            else:
                chk.ok("CAP-D", site, "%s: %s state(s) created = counted; slice of %s" % (label, pushes.show(), rb.show()))


# ------------------------------------------------------------------------------------------------ CAP-T
def cap_t(chk, fx):
    chk.rule("CAP-T", "per-term automaton sizes and the lexer's total", 5)
    # declared sizes (patterns, as written)
    decl = {}
    for rq in ("ctpg::char_term", "ctpg::string_term", "ctpg::custom_term", "ctpg::typed_term", "ctpg::regex_term"):
        for u, r in fx.records(rq):
            for m in r["members"]:
                if m["k"] == "staticvar" and m["n"] == "dfa_size" and m.get("init") is not None and rq not in decl:
                    cn = _RecCanon(u)
                    decl[rq] = (cn.c(m["init"]), m["l"])
    want = {"ctpg::char_term": "2", "ctpg::string_term": "((DataSize - 1) * 2)", "ctpg::custom_term": "0",
            "ctpg::typed_term": None, "ctpg::regex_term": "analyze_dfa_size(Pattern)"}
    created = {}
    for f in fx.need(R + "add_term_data_to_dfa"):
        cn = Canon(f)
        kind = "char" if f.facts.T(f.o["params"][0]["t"]) == "char" else \
            ("string" if "const char (&)" in f.facts.T(f.o["params"][0]["t"]) else "regex")
        if kind in created or kind == "regex":
            continue
        n_prim = Poly()
        for n in walk(f.body):
            if n.get("k") == "CXXMemberCallExpr" and (n.get("callee") or {}).get("n") == "primary_char":
                # inside a counted loop?
                trip = Poly.const(1)
                cur = n
                while True:
                    par = cn.pm.get(id(cur))
                    if par is None:
                        break
                    if par.get("k") == "ForStmt":
                        d = par["init"]["decls"][0]
                        cond = strip(par["cond"], casts=True)
                        trip = trip * (poly_of(cn, cond["c"][1]) - poly_of(cn, d.get("init")))
                    cur = par
                n_prim = n_prim + trip
        created[kind] = n_prim * Poly.const(2)
        if kind == "string":
            from . import tix
            ta = (f.o.get("targs") or "").split(" | ")
            created["DataSize"] = tix._num(ta[1]) if len(ta) > 1 else None
    site = "include/ctpg/ctpg.hpp " + R + "add_term_data_to_dfa"
    ch = created.get("char")
    if decl.get("ctpg::char_term", ("",))[0] == "2" and ch == Poly.const(2):
        chk.ok("CAP-T", site, "char_term: dfa_size 2 = one primary_char (2 states)")
    else:
        chk.violation("CAP-T", site, "CAP-T:char_term", "char_term::dfa_size is %s, add_term_data_to_dfa(char) creates %s states" % (
            decl.get("ctpg::char_term"), ch.show() if ch is not None else "?"))
    st = created.get("string")
    dtxt = decl.get("ctpg::string_term", ("",))[0].replace(" ", "")
    ds = created.get("DataSize")
    if st is not None and ds is not None and st == Poly.const((ds - 1) * 2) and dtxt in ("((DataSize-1)*2)", "(2*(DataSize-1))"):
        chk.ok("CAP-T", site, "string_term: dfa_size (DataSize-1)*2 = one primary_char per character")
    else:
        chk.violation("CAP-T", site, "CAP-T:string_term", "string_term::dfa_size is %s, add_term_data_to_dfa(string) creates %s states" % (
            decl.get("ctpg::string_term"), st.show() if st is not None else "?"))
    if decl.get("ctpg::custom_term", ("",))[0] == "0":
        chk.ok("CAP-T", "include/ctpg/ctpg.hpp ctpg::custom_term", "custom_term contributes no automaton states")
    else:
        chk.violation("CAP-T", "include/ctpg/ctpg.hpp ctpg::custom_term", "CAP-T:custom_term", "custom_term::dfa_size is %s" % (decl.get("ctpg::custom_term"),))
    if decl.get("ctpg::typed_term", ("",))[0].replace("type-parameter-0-0", "Term") in ("Term::dfa_size", "dfa_size"):
        chk.ok("CAP-T", "include/ctpg/ctpg.hpp ctpg::typed_term", "typed_term forwards the wrapped term's size")
    else:
        chk.violation("CAP-T", "include/ctpg/ctpg.hpp ctpg::typed_term", "CAP-T:typed_term", "typed_term::dfa_size is %s" % (decl.get("ctpg::typed_term"),))
    # regex terms: size from the analyser run on the same pattern with the same options as the builder run
    f1 = first_inst(fx, R + "analyze_dfa_size")
    c1 = Canon(f1)
    rets = [c1.c(n["value"]) for n in walk(f1.body) if n.get("k") == "ReturnStmt"]
    if rets and re.fullmatch(r"\?\w+\.value\(\)\.n", rets[0]):
        chk.ok("CAP-T", A.site(f1), "regex size = n of the slice the analyser returns for the whole pattern")
    else:
        chk.violation("CAP-T", A.site(f1), "CAP-T:analyze_dfa_size", "analyze_dfa_size returns %s" % rets)
    # lexer_dfa_size sums the terms' sizes and is the size of lexer_sm and of the builder
    for u, r in fx.records("ctpg::parser"):
        if r["tmpl"] != "pattern" or not r["fields"]:
            continue
        cn = _RecCanon(u)
        for m in r["members"]:
            if m["k"] == "staticvar" and m["n"] == "lexer_dfa_size":
                txt = cn.c(m["init"])
                if "fold(+" in txt and "dfa_size" in txt and txt.endswith(": 1)"):
                    chk.ok("CAP-T", "include/ctpg/ctpg.hpp:%s ctpg::parser::lexer_dfa_size" % m["l"],
                           "lexer_dfa_size = sum of the terms' dfa_size (1 when no lexer is generated)")
                else:
                    chk.violation("CAP-T", "include/ctpg/ctpg.hpp:%s ctpg::parser::lexer_dfa_size" % m["l"],
                                  "CAP-T:lexer_dfa_size", "lexer_dfa_size is %s" % txt)
        break


class _RecCanon:
    """Canonical printing of pattern-level initialisers (dependent expressions)."""

    def __init__(self, u):
        self.u = u

    def c(self, n):
        s = strip(n, casts=True)
        if s is None:
            return ""
        k = s.get("k")
        if k == "IntegerLiteral":
            return str(s["v"])
        if k == "DeclRefExpr":
            return s["d"]["n"]
        if k == "DependentScopeDeclRefExpr":
            return "Term::" + s.get("name", "?") if s.get("name") == "dfa_size" else s.get("name", "?")
        if k == "BinaryOperator":
            return "(%s %s %s)" % (self.c(s["c"][0]), s["op"], self.c(s["c"][1]))
        if k == "ParenExpr":
            return self.c(s["c"][0])
        if k == "CXXFoldExpr":
            return "fold(%s %s %s)" % (s.get("op"), self.c(s.get("foldinit")) if s.get("foldinit") else "", self.c(s.get("pattern")))
        if k == "ConditionalOperator":
            return "(%s ? %s : %s)" % tuple(self.c(x) for x in s["c"])
        if k in ("CallExpr", "UnresolvedLookupExpr"):
            if k == "CallExpr":
                return "%s(%s)" % (self.c(s["c"][0]), ", ".join(self.c(a) for a in s["c"][1:]))
            return s.get("name", "?")
        if k in ("ImplicitCastExpr", "CXXFunctionalCastExpr", "CStyleCastExpr", "CXXStaticCastExpr"):
            return self.c(s["c"][0])
        return "<%s>" % k


# ------------------------------------------------------------------------------------------------ CAP-I
def cap_i(chk, fx):
    chk.rule("CAP-I", "pushes into per-state item vectors", 4)
    for q in (SA + "add_situation", SA + "transitions", SA + "closure"):
        f = first_inst(fx, q)
        cn = Canon(f)
        for n in walk(f.body):
            if n.get("k") != "CXXMemberCallExpr" or (n.get("callee") or {}).get("n") != "push_back":
                continue
            obj = cn.c(A.call_object(n))
            if not any(x in obj for x in ("all_situations_vec", "situations_by_symbol", "kernel_vec", "closures[")) and \
                    not obj.startswith("?kernel_vec"):
                continue
            val = cn.c(A.call_args(n)[0])
            g = cn.guards(n)
            site = A.site(f, n)
            guarded = any(re.fullmatch(r"!.*\.test\(%s\)" % re.escape(val), x) for x in g)
            if guarded:
                chk.ok("CAP-I", site, "push into %s guarded by a membership test of the same item" % obj.split(".")[-1][:40])
            elif obj.startswith("closures["):
                # distinct by construction: (rule of N, lookahead) pairs are distinct within each loop nest, and the
                # inherited lookahead is excluded when FIRST(beta) already contains it
                if "@i{0..term_count}" in val or any("!make_right_side_slice_first(" in x for x in g):
                    chk.ok("CAP-I", site, "items recorded for one item are pairwise distinct (loop indices / excluded overlap)")
                else:
                    chk.violation("CAP-I", site, "CAP-I:closures:duplicates",
                                  "the inherited-lookahead items can repeat items already recorded from FIRST(beta): the "
                                  "memo list can exceed the number of distinct items (its capacity)")
            else:
                chk.violation("CAP-I", site, "CAP-I:%s" % obj.split(".")[-1][:30],
                              "push into %s is not guarded by a membership test: the vector can exceed the number of "
                              "distinct items, which is what its capacity is derived from" % obj[:60])
    # the default caps: situation_count = sum(n_r + 1) * term_count + 2
    for u, r in fx.records("ctpg::parser"):
        if r["tmpl"] != "pattern" or not r["fields"]:
            continue
        cn = _RecCanon(u)
        for m in r["members"]:
            if m["k"] == "staticvar" and m["n"] == "situation_count":
                txt = cn.c(m["init"]).replace(" ", "")
                if re.fullmatch(r"\(\(fold\(\+0\(n\+1\)\)\*term_count\)\+2\)", txt) or \
                        ("fold(+" in txt and "term_count" in txt and txt.endswith("+2)")):
                    chk.ok("CAP-I", "include/ctpg/ctpg.hpp:%s ctpg::parser::situation_count" % m["l"],
                           "default item cap = number of valid items: sum(n_r + 1) * term_count + 2 for the root rule")
                else:
                    chk.violation("CAP-I", "include/ctpg/ctpg.hpp:%s ctpg::parser::situation_count" % m["l"],
                                  "CAP-I:situation_count", "situation_count is %s" % txt)
        break


# ------------------------------------------------------------------------------------------------ CAP-S
def _capacity_text(fx, t):
    """Second template argument of cvector<T, CAP> as written; a capacity spelled through a variable template
    (`parse_stack_capacity<N, E>`) is replaced by that template's initialiser."""
    depth, cut = 0, None
    inner = t[t.find("<") + 1:t.rfind(">")]
    for i, ch in enumerate(inner):
        if ch in "<(":
            depth += 1
        elif ch in ">)":
            depth -= 1
        elif ch == "," and depth == 0:
            cut = i
    cap = inner[cut + 1:].strip() if cut is not None else inner.strip()
    m = re.fullmatch(r"(\w+)<([^<>]*)>", cap)
    if m:
        for u, v in fx.vars():
            if v["n"] == m.group(1) and v.get("init") is not None and v["q"].startswith("ctpg::"):
                txt = _RecCanon(u).c(v["init"])
                return re.sub(r"[()]", "", txt).strip()
    return cap


def _cvectors(t):
    out, i = [], 0
    while True:
        i = t.find("cvector<", i)
        if i < 0:
            return out or [t]
        depth, j = 0, i + len("cvector")
        while j < len(t):
            if t[j] == "<":
                depth += 1
            elif t[j] == ">":
                depth -= 1
                if depth == 0:
                    break
            j += 1
        out.append(t[i:j + 1])
        i = j


def cap_s(chk, fx, only=None):
    """only: restrict the push sites that are judged (by name); the capacity expressions are always compared."""
    chk.rule("CAP-S", "push sites of the fixed-capacity parse stacks", 4 if only is None else len(only))
    # capacity expression of the cvector stacks (patterns of the two selector specialisations)
    caps = set()
    # every selector in namespace detail (whatever it is called: the two traits may be merged into one) whose `type` is
    # a cvector: its capacity expression
    for u, r in fx.records():
        if r["tmpl"] != "pattern" or not r["q"].startswith("ctpg::detail::"):
            continue
        for m in r["members"]:
            if m["k"] == "alias" and m["n"] == "type" and "cvector<" in u.T(m["t"]):
                t = u.T(m["t"])
                # the cvector may be one arm of a std::conditional_t: every cvector<...> inside the alias counts
                for sub in _cvectors(t):
                    caps.add(_capacity_text(fx, sub))
    if not caps:
        chk.incomplete("fixed-capacity stack selectors not found")
    if len(caps) != 1:
        chk.violation("CAP-S", "include/ctpg/ctpg.hpp ctpg::detail::parser_value_stack_type", "CAP-S:capacities-differ",
                      "cursor and value stack have different capacities: %s" % sorted(caps))
    cap = sorted(caps)[0]
    capkey = cap.replace(" ", "")
    terms = set(capkey.split("+"))
    # what EmptyRulesCount counts
    counts_rules = False
    for u, r in fx.records("ctpg::parser"):
        if r["tmpl"] != "pattern" or not r["fields"]:
            continue
        cn = _RecCanon(u)
        for m in r["members"]:
            if m["k"] == "staticvar" and m["n"] == "empty_rules_count":
                counts_rules = "count_zeros" in cn.c(m["init"]) or True
        break
    site0 = "include/ctpg/ctpg.hpp ctpg::detail::parse_table_cursor_stack_type"
    # push sites
    sites = [("initial state", P + "context_parse", "initial"), ("shift", P + "shift", "consuming"),
             ("shift_recovery_token", P + "shift_recovery_token", "non-consuming"),
             ("reduce(r_elements=0)", P + "reduce", "non-consuming")]
    for name, q, cls in sites:
        if only is not None and name not in only:
            continue
        f = [g for g in fx.need(q) if q != P + "context_parse" or len(g.o["params"]) == 4][0]
        s = A.site(f)
        if cls == "initial":
            if "1" in terms:
                chk.ok("CAP-S", s, "the initial state is paid for by the '+ 1' of the capacity %s" % cap)
            else:
                chk.violation("CAP-S", s, "CAP-S:parse-stack-capacity:%s:initial" % capkey, "no slot for the initial state in %s" % cap)
        elif cls == "consuming":
            if "N" in terms:
                chk.ok("CAP-S", s, "each shift consumes at least one byte of the N-1 bytes of input (terms cannot match "
                                   "the empty string): bounded by the 'N' of %s" % cap)
            else:
                chk.violation("CAP-S", s, "CAP-S:parse-stack-capacity:%s:shift" % capkey, "capacity %s has no term for shifts" % cap)
        else:
            # a push that consumes no input needs a bound on how often it can happen among the capacity's terms;
            # EmptyRulesCount is the number of empty RULES, not of empty reductions / recoveries
            chk.violation("CAP-S", s, "CAP-S:parse-stack-capacity:%s:non-consuming-push:%s" % (capkey, name),
                          "%s pushes without consuming input; nothing in the capacity %s bounds how often that happens "
                          "(EmptyRulesCount counts rules, not reductions)" % (name, cap))
