"""Rules about what the parse path copies (by-value parameters and copy constructions are silent in C++).

 FCOPY   no function on the parse path copies or moves a user functor (rule functor, term functor): the functor that
         runs for a node is the one stored in the parser, so its state (captured values, counters behind a const
         call operator, identity) is what the user put there. A by-value parameter of functor type shows as a copy
         construction at its call sites.
 BUFREF  no function of the library takes an input buffer by value or copies one: iterators, string_views and the
         lexemes handed to functors point into the *caller's* buffer object; a copied string_buffer owns another
         std::string that dies with the callee (dangling lexemes, not a constant expression).
"""
from . import astq as A
from . import graph as G
from .facts import walk, strip

PARSER = "ctpg::parser"
FUNCTOR_FIELDS = (("ctpg::detail::rule", "f"), ("ctpg::custom_term", "ftor"), ("ctpg::typed_term", "ftor"))


def _bare(t):
    t = t.strip()
    while t.endswith("&"):
        t = t[:-1].strip()
    if t.startswith("const "):
        t = t[6:]
    return t.strip()


def functor_types(fx):
    out = set()
    for rq, fld in FUNCTOR_FIELDS:
        for u, r in fx.records(rq):
            if r["tmpl"] == "pattern":
                continue
            for f in r["fields"]:
                if f["n"] == fld:
                    t = _bare(u.TC(f["t"]))
                    if t and t != "std::nullptr_t" and "type-parameter" not in t and "(*)" not in t:
                        out.add(t)
    return out


def parse_path(fx):
    roots = [f for f in fx.need(PARSER + "::context_parse")]
    roots += [f for f in fx.fns(PARSER + "::parse")]
    roots += [f for f in fx.fns("ctpg::detail::value_reductors::reduce_value")]
    roots += [f for f in fx.fns("ctpg::regex::expr::match")]
    return [f for f in G.reachable([r for r in roots if not r.is_pattern]) if not f.is_pattern and
            f.o["q"].startswith("ctpg::")]


def _copies(f, types):
    roots = [f.body] + [i.get("init") for i in f.o.get("inits", ())]
    for r in roots:
        for n in walk(r):
            if n.get("k") in ("CXXConstructExpr", "CXXTemporaryObjectExpr"):
                ct = n.get("ctor") or {}
                if not (ct.get("copy") or ct.get("move")):
                    continue
                t = _bare(f.facts.TC(n.get("t")))
                if t in types:
                    yield n, t, "move" if ct.get("move") else "copy"


def fcopy(chk, fx, minimum=20):
    types = functor_types(fx)
    chk.require(len(types) >= 5, "FCOPY: fewer than 5 functor types found in the witness grammars")
    reach = parse_path(fx)
    chk.rule("FCOPY", "parse-path functions that never copy a user functor (%d functor types)" % len(types), minimum)
    seen = set()
    for f in reach:
        key = (f.o["q"], f.o.get("l"))
        bad = False
        for n, t, how in _copies(f, types):
            bad = True
            chk.violation("FCOPY", A.site(f, n), "FCOPY:%s" % f.o["q"],
                          "the functor of type %s is %s-constructed here: the object that runs is a temporary copy, not "
                          "the functor stored in the parser (state behind its call operator is lost after every call)" % (
                              t[:90], how))
        # by-value parameters of functor type
        for p in f.o["params"]:
            t = f.facts.TC(p["t"])
            if not p.get("ref") and _bare(t) in types:
                bad = True
                chk.violation("FCOPY", "include/ctpg/ctpg.hpp:%s %s parameter '%s'" % (p.get("l"), f.o["q"], p["n"]),
                              "FCOPY:%s:param:%s" % (f.o["q"], p["n"]),
                              "takes the functor (%s) by value: every call runs a fresh copy" % t[:90])
        if not bad and key not in seen:
            seen.add(key)
            chk.ok("FCOPY", A.site(f), "no functor copied in %s" % f.o["n"])


def buffer_types(fx):
    out = set()
    for u, r in fx.records():
        if r["q"].startswith("ctpg::buffers::") and r["tmpl"] != "pattern" and r["q"].count("::") == 2:
            out.add(r["q"])
    return out


def bufref(chk, fx, minimum=20):
    kinds = buffer_types(fx)
    chk.require(len(kinds) >= 3, "BUFREF: the three buffer classes were not found")
    chk.rule("BUFREF", "library functions that take the caller's buffer by reference only", minimum)

    def is_buf(t):
        b = _bare(t)
        for k in kinds:
            if b == k:
                return True
            if b.startswith(k + "<") and b.endswith(">"):
                depth = 0
                for i, ch in enumerate(b):
                    depth += ch == "<"
                    depth -= ch == ">"
                    if depth == 0 and ch == ">":
                        return i == len(b) - 1
        return False
    seen = set()
    for f in fx.all_fns():
        if f.is_pattern or not f.o["q"].startswith("ctpg::") or f.o["q"].startswith("ctpg::buffers::"):
            continue
        touches = False
        bad = False
        for p in f.o["params"]:
            t = f.facts.TC(p["t"])
            if is_buf(t):
                touches = True
                if not p.get("ref"):
                    bad = True
                    chk.violation("BUFREF", "include/ctpg/ctpg.hpp:%s %s parameter '%s'" % (p.get("l"), f.o["q"], p["n"]),
                                  "BUFREF:%s:param:%s" % (f.o["q"], p["n"]),
                                  "takes the input buffer (%s) by value: the parse runs on a copy that dies with the call, "
                                  "lexemes and string_views handed out point into that copy" % _bare(t)[:80])
        roots = [f.body] + [i.get("init") for i in f.o.get("inits", ())]
        for r in roots:
            for n in walk(r):
                if n.get("k") in ("CXXConstructExpr", "CXXTemporaryObjectExpr"):
                    ct = n.get("ctor") or {}
                    if (ct.get("copy") or ct.get("move")) and is_buf(f.facts.TC(n.get("t"))):
                        bad = True
                        chk.violation("BUFREF", A.site(f, n), "BUFREF:%s:copy" % f.o["q"],
                                      "copies the input buffer (%s)" % _bare(f.facts.TC(n.get("t")))[:80])
        key = (f.o["q"], f.o.get("l"))
        if touches and not bad and key not in seen:
            seen.add(key)
            chk.ok("BUFREF", A.site(f), "%s takes the buffer by reference" % f.o["n"])
