"""Canonical forms of expressions, insensitive to local names and temporaries.

canon(node): string in which
  * parameters are $0, $1, ... (position), `this` members are written bare (this->gi.x -> gi.x)
  * a local that is defined once and never written again is replaced by the canonical form of its initialiser
  * an induction variable of `for (v = a; v < b; ++v)` is @i{a..b}; a range-for variable is @each{range}
  * constants keep their NAME when they are named constants (term_count), literals their value
  * explicit value casts, parentheses, implicit conversions and copy constructions disappear
guards(node): canonical conditions under which the node is evaluated: enclosing if-arms, and the negation of the
condition of every preceding `if (c) return/break/continue/throw` in the enclosing blocks.
Specification templates (ctpgsa/lr.py) are written against these forms, so that renaming a local, introducing or
removing a temporary, or reordering independent statements does not change the verdict.
"""
from . import astq as A
from . import flow
from .facts import strip, walk, kids


def _type_base(t):
    """Base name of a type without template arguments and scopes (template arguments may spell lambdas with their
    source position: never part of a canonical form)."""
    import re
    t = t.replace("const ", "").strip()
    prev = None
    while prev != t:
        prev = t
        t = re.sub(r"<[^<>]*>", "", t)
    t = re.sub(r"\(lambda at [^)]*\)", "<lambda>", t)
    return t.split("::")[-1].strip()


# helpers that rules name explicitly (their call text is part of a template)
NO_INLINE = set()


class Canon:
    def __init__(self, fn, uniform=False, noinline=False):
        """uniform=True (reference summaries): the induction variable of a `for` statement is an ordinary reassigned
        local (so `for (init; c; inc) body` and `init; while (c) { body; inc; }` have the same canonical events), and
        reassigned locals are named by the order of their declarations (?v1, ?v2, ...), not by their spelling."""
        self.fn = fn
        self.uniform = uniform
        self.noinline = noinline      # locals keep their identity (only reference locals are aliases): true evaluation order
        self.params = {p["id"]: i for i, p in enumerate(fn.o["params"])}
        self.defs = {}
        self.loopvars = {}
        self.pm = flow.parent_map(fn.body) if fn.body else {}
        written = set()
        for n, target, op in A.writes(fn.body):
            vid = A.declref_id(target)
            if vid is None:
                # a write to a field / element of a by-value local mutates that local
                p = A.access_path(target)
                if p and p[0][0] == "var" and not any(c[0] == "deref" for c in p):
                    vid = p[0][1]
            if vid is not None:
                written.add((vid, id(n)))
        inc_nodes = set()
        for n in walk(fn.body):
            k = n.get("k")
            if k == "ForStmt":
                init = n.get("init")
                if init and init.get("k") == "DeclStmt" and not uniform:
                    for d in init.get("decls", ()):
                        if d.get("k") == "Var":
                            self.loopvars[d["id"]] = ("for", d.get("init"), n.get("cond"), n)
                if n.get("inc") and not uniform:
                    for m in walk(n["inc"]):
                        inc_nodes.add(id(m))
            elif k == "CXXForRangeStmt":
                lv = n.get("loopvar")
                if lv:
                    self.loopvars[lv["id"]] = ("each", n.get("range"), None, n)
        self.escaped = set()      # variables whose value can change without a syntactic assignment to them
        for p_ in fn.o["params"]:
            if p_.get("ref") and not p_.get("constref"):
                self.escaped.add(p_["id"])
        if uniform:
            for n in walk(fn.body):
                if n.get("k") == "Var" and n.get("ref"):
                    self.escaped.add(n["id"])
                if n.get("k") == "UnaryOperator" and n.get("op") == "&":
                    vid = A.declref_id(strip(n["c"][0], casts=True))
                    if vid is not None:
                        self.escaped.add(vid)
                if n.get("k") == "CXXMemberCallExpr" and not (n.get("callee") or {}).get("const"):
                    vid = A.declref_id(A.call_object(n))
                    if vid is not None:
                        self.escaped.add(vid)
            # a local handed to a callee by mutable reference / pointer is written by that call
            for n in walk(fn.body):
                if n.get("k") in ("CallExpr", "CXXMemberCallExpr") and n.get("callee"):
                    ptypes = A.split_params(fn.facts.T(n["callee"].get("t")))
                    for a, pt in zip(A.call_args(n), ptypes):
                        if A.mutable_ref(pt):
                            vid = A.declref_id(strip(a, casts=True))
                            if vid is not None:
                                written.add((vid, id(n)))
                                self.escaped.add(vid)
        wcount = {}
        for vid, nid in written:
            if nid in inc_nodes and vid in self.loopvars:
                continue
            wcount[vid] = wcount.get(vid, 0) + 1
        for n in walk(fn.body):
            if n.get("k") == "Var" and n.get("init") is not None and n["id"] not in self.loopvars:
                if wcount.get(n["id"], 0) == 0 or n.get("ref"):
                    si = strip(n["init"])
                    if si is not None and si.get("k") in ("CXXConstructExpr", "CXXTemporaryObjectExpr") and \
                            not ((si.get("ctor") or {}).get("copy") or (si.get("ctor") or {}).get("move")) and \
                            not n.get("ref") and n.get("is") != "c":
                        continue      # an object constructed in place is a variable of its own, not an alias
                    if noinline and not n.get("ref"):
                        continue
                    self.defs[n["id"]] = n["init"]
        # a by-value local that is mutated through a non-const member call is a variable, not a name for its
        # initialiser (references stay aliases of what they are bound to)
        nonref = {n["id"] for n in walk(fn.body) if n.get("k") == "Var" and not n.get("ref")}
        for n in walk(fn.body):
            if n.get("k") == "CXXMemberCallExpr" and not (n.get("callee") or {}).get("const"):
                vid = A.declref_id(A.call_object(n))
                if vid in nonref and vid in self.defs:
                    del self.defs[vid]
        self.multi = {vid for vid, c in wcount.items() if c}
        self._stack = set()
        self._depth = 0
        self.local_ids = set()
        self.ordinal = {}
        if uniform:
            for n in walk(fn.body):
                if n.get("k") == "Var" and n["id"] not in self.defs and n["id"] not in self.loopvars and \
                        n["id"] not in self.ordinal:
                    self.ordinal[n["id"]] = len(self.ordinal) + 1

    def lname(self, vid, name):
        """Canonical name of a local that is not replaced by its initialiser."""
        if self.uniform and vid in self.ordinal:
            return "?v%d" % self.ordinal[vid]
        return "?" + name

    # ------------------------------------------------------------------
    def c(self, n):
        if self.uniform:
            # a substituted non-type template parameter is named, not valued: every instantiation prints alike
            x = n
            while x is not None and x.get("k") in ("ImplicitCastExpr", "ParenExpr", "ConstantExpr", "CXXFunctionalCastExpr",
                                                   "CStyleCastExpr", "CXXStaticCastExpr", "SubstNonTypeTemplateParmExpr"):
                if x.get("k") == "SubstNonTypeTemplateParmExpr" and x.get("param"):
                    return x["param"]
                cc = x.get("c") or []
                x = cc[0] if len(cc) == 1 else None
        s = strip(n, casts=True)
        if s is None:
            return "<none>"
        k = s.get("k")
        if k in ("IntegerLiteral", "CharacterLiteral"):
            return str(s["v"])
        if k == "CXXBoolLiteralExpr":
            return "true" if s["v"] else "false"
        if k == "StringLiteral":
            return repr(bytes(s.get("bytes", [])).decode("latin1"))
        if k == "CXXNullPtrLiteralExpr":
            return "nullptr"
        if k == "DeclRefExpr":
            return self.ref(s)
        if k == "CXXThisExpr":
            return "this"
        if k == "MemberExpr":
            base = (s.get("c") or [None])[0]
            b = self.c(base) if base is not None else ""
            if s["m"]["k"] in ("CXXMethod", "Function"):
                return (b + "." if b not in ("this", "") else "") + s["m"]["n"]
            return (b + "." if b not in ("this", "") else "") + s["m"]["n"]
        if k == "ArraySubscriptExpr":
            return "%s[%s]" % (self.c(s["c"][0]), self.c(s["c"][1]))
        if k == "CXXOperatorCallExpr":
            op = s.get("op")
            cc = s.get("c") or []
            if op == "[]" and len(cc) == 3:
                return "%s[%s]" % (self.c(cc[1]), self.c(cc[2]))
            if op == "()" and len(cc) >= 2:
                return "%s(%s)" % (self.c(cc[1]), ", ".join(self.c(x) for x in cc[2:]))
            if len(cc) == 3:
                if self.uniform and op in (">", ">="):
                    return "(%s %s %s)" % (self.c(cc[2]), "<" if op == ">" else "<=", self.c(cc[1]))
                return "(%s %s %s)" % (self.c(cc[1]), op, self.c(cc[2]))
            if len(cc) == 2:
                return "%s%s" % (op, self.c(cc[1]))
        if k == "CXXMemberCallExpr":
            cal = strip(s["c"][0])
            obj = (cal.get("c") or [None])[0] if cal and cal.get("k") == "MemberExpr" else None
            o = self.c(obj) if obj is not None else ""
            if o in ("this", "") and self._depth < 3 and (self.uniform or len(s["c"]) > 1):
                # a const member function of the same object whose whole body is one return statement is a name for
                # that expression (a getter, or an expression a maintainer pulled out into a helper): its value, with
                # the parameters replaced by the arguments
                g = self.fn.facts.by_id.get((s.get("callee") or {}).get("id"))
                if g is not None and g.body is not None and (s.get("callee") or {}).get("const") and g is not self.fn \
                        and (s.get("callee") or {}).get("n") not in NO_INLINE:
                    st = [x for x in (g.body.get("c") or []) if x.get("k") != "NullStmt"]
                    if len(st) == 1 and st[0].get("k") == "ReturnStmt" and st[0].get("value") is not None:
                        sub = Canon(g, uniform=self.uniform)
                        sub._depth = self._depth + 1
                        txt = sub.c(st[0]["value"])
                        args = [self.c(a) for a in s["c"][1:]]
                        import re as _re
                        return _re.sub(r"\$(\d+)", lambda m: args[int(m.group(1))] if int(m.group(1)) < len(args)
                                       else m.group(0), txt)
            name = (s.get("callee") or {}).get("n", "?")
            args = ", ".join(self.c(a) for a in s["c"][1:])
            return "%s%s(%s)" % (o + "." if o not in ("this", "") else "", name, args)
        if k == "CallExpr":
            c = s.get("callee")
            if self.uniform and c and c.get("q") in ("std::max", "std::min") and len(s["c"]) == 3:
                # std::max(a, b) is (a < b) ? b : a;  std::min(a, b) is (b < a) ? b : a
                a, b = self.c(s["c"][1]), self.c(s["c"][2])
                return "((%s < %s) ? %s : %s)" % ((a, b, b, a) if c["q"] == "std::max" else (b, a, b, a))
            name = c["n"] if c else self.c(s["c"][0])
            return "%s(%s)" % (name, ", ".join(self.c(a) for a in s["c"][1:]))
        if k in ("CXXConstructExpr", "CXXTemporaryObjectExpr"):
            return "%s{%s}" % (_type_base(self.fn.facts.T(s.get("t"))), ", ".join(self.c(a) for a in s.get("c") or []))
        if k == "InitListExpr":
            return "%s{%s}" % (_type_base(self.fn.facts.T(s.get("t"))),
                               ", ".join(self.c(a) for a in s.get("c") or [] if a is not None))
        if k in ("CXXFunctionalCastExpr", "CStyleCastExpr", "CXXStaticCastExpr"):
            return self.c(s["c"][0])
        if k in ("BinaryOperator", "CompoundAssignOperator"):
            if self.uniform and s.get("op") in (">", ">="):
                # one direction for order comparisons inside values: a > b is b < a
                return "(%s %s %s)" % (self.c(s["c"][1]), "<" if s["op"] == ">" else "<=", self.c(s["c"][0]))
            return "(%s %s %s)" % (self.c(s["c"][0]), s.get("op"), self.c(s["c"][1]))
        if k == "UnaryOperator":
            if s.get("postfix"):
                return "%s%s" % (self.c(s["c"][0]), s.get("op"))
            return "%s%s" % (s.get("op"), self.c(s["c"][0]))
        if k == "ConditionalOperator":
            return "(%s ? %s : %s)" % tuple(self.c(x) for x in s["c"])
        if k == "LambdaExpr":
            return "<lambda>"
        if k == "UnaryExprOrTypeTraitExpr":
            return "%s(...)" % s.get("ut")
        return "<%s>" % k

    def ref(self, s):
        d = s["d"]
        if d["k"] == "EnumConstant":
            return d["n"]
        if d["k"] in ("Function", "CXXMethod"):
            return d["n"]
        vid = d["id"]
        if vid in self.params:
            return "$%d" % self.params[vid]
        if d.get("global") or d.get("staticmember") or d["k"] == "NonTypeTemplateParm":
            return d["n"]
        if vid in self.loopvars:
            kind, a, b, loop = self.loopvars[vid]
            if vid in self._stack:
                return "@" + d["n"]
            self._stack.add(vid)
            try:
                if kind == "for":
                    return "@i{%s..%s}" % (self.c(a) if a is not None else "?", self._bound(b, vid))
                return "@each{%s}" % self.c(a)
            finally:
                self._stack.discard(vid)
        if vid in self.defs and vid not in self._stack:
            self._stack.add(vid)
            try:
                return self.c(self.defs[vid])
            finally:
                self._stack.discard(vid)
        return self.lname(vid, d["n"])

    def _bound(self, cond, vid):
        s = strip(cond, casts=True)
        if s is not None and s.get("k") == "BinaryOperator" and s.get("op") in ("<", "<=", ">", ">=", "!="):
            l, r = s["c"]
            if A.declref_id(l) == vid:
                return ("" if s["op"] == "<" else s["op"]) + self.c(r)
            if A.declref_id(r) == vid:
                return s["op"] + "~" + self.c(l)
        return "?(" + (self.c(cond) if cond is not None else "") + ")"

    # ------------------------------------------------------------------
    def guards(self, n):
        """Canonical conditions known to hold where node n is evaluated (innermost last)."""
        out = []
        cur = n
        while True:
            par = self.pm.get(id(cur))
            if par is None:
                break
            k = par.get("k")
            if k == "IfStmt":
                if par.get("then") is cur:
                    out.append(self.c(par["cond"]))
                elif par.get("else") is cur:
                    out.append("!" + self.c(par["cond"]))
            elif k == "ConditionalOperator":
                cc = par["c"]
                if cc[1] is cur:
                    out.append(self.c(cc[0]))
                elif cc[2] is cur:
                    out.append("!" + self.c(cc[0]))
            elif k == "BinaryOperator" and par.get("op") in ("&&", "||") and par["c"][1] is cur:
                out.append(("" if par["op"] == "&&" else "!") + self.c(par["c"][0]))
            elif k == "CompoundStmt":
                for sib in par.get("c") or []:
                    if sib is cur:
                        break
                    if sib.get("k") == "IfStmt" and sib.get("else") is None and _always_exits(sib.get("then")):
                        out.append("!" + self.c(sib["cond"]))
            cur = par
        out.reverse()
        return out


def _always_exits(s):
    if s is None:
        return False
    k = s.get("k")
    if k in ("ReturnStmt", "BreakStmt", "ContinueStmt", "CXXThrowExpr"):
        return True
    if k == "CompoundStmt":
        c = s.get("c") or []
        return bool(c) and _always_exits(c[-1])
    if k == "ExprWithCleanups":
        return _always_exits(strip(s))
    return False


# ---------------------------------------------------------------------------------------------------------------
def best_renaming(reference_texts, current_texts, limit=7):
    """Reference summaries name reassigned locals by declaration order (?v1, ?v2, ...). Moving a declaration, adding /
    removing a local, or moving statements into / out of a helper shifts the numbers without changing anything else.
    Returns the mapping {current name -> reference name} that makes the largest number of reference texts reappear
    among the current texts (texts of the same shape vote for the pairing of their names; small cases are searched
    exhaustively)."""
    import itertools
    import re
    rx = re.compile(r"\?v\d+")
    ref, cur = set(reference_texts), set(current_texts)
    gn = sorted({m for t in ref for m in rx.findall(t)})
    cn = sorted({m for t in cur for m in rx.findall(t)})
    if not gn or not cn:
        return {}

    def apply(mapping, t):
        return rx.sub(lambda m: mapping.get(m.group(0), m.group(0)), t)

    def score(mapping):
        return sum(1 for t in cur if apply(mapping, t) in ref)
    base = score({})
    if base == len(ref):
        return {}
    best, best_score = {}, base
    # votes from texts of equal shape
    shape = lambda t: rx.sub("?v_", t)
    by_shape_ref, by_shape_cur = {}, {}
    for t in ref:
        by_shape_ref.setdefault(shape(t), []).append(t)
    for t in cur:
        by_shape_cur.setdefault(shape(t), []).append(t)
    votes = {}
    for sh, rts in by_shape_ref.items():
        cts = by_shape_cur.get(sh)
        if not cts or len(rts) != 1 or len(cts) != 1:
            continue
        for c, g in zip(rx.findall(cts[0]), rx.findall(rts[0])):
            votes[(c, g)] = votes.get((c, g), 0) + 1
    mapping, used = {}, set()
    for (c, g), n in sorted(votes.items(), key=lambda kv: -kv[1]):
        if c in mapping or g in used:
            continue
        mapping[c] = g
        used.add(g)
    # names that keep their number must not collide with a mapped target
    for c in cn:
        if c not in mapping and c in used:
            mapping[c] = "?w" + c[2:]
    sc = score(mapping)
    if sc > best_score:
        best, best_score = mapping, sc
    if len(cn) <= limit and len(gn) <= limit:
        targets = gn + ["?w%d" % i for i in range(max(0, len(cn) - len(gn)))]
        for perm in itertools.permutations(targets, len(cn)):
            m2 = dict(zip(cn, perm))
            sc = score(m2)
            if sc > best_score:
                best, best_score = m2, sc
    return {k: v for k, v in best.items() if k != v}


def rename_text(mapping, t):
    if not mapping:
        return t
    import re
    return re.sub(r"\?v\d+", lambda m: mapping.get(m.group(0), m.group(0)), t)
