"""C04 — tokenisation is longest-match over all terms with first-listed priority.

 MATCH    dfa_match snapshots (length, winning term) at every accepting state and scans as far as transitions go
          (longest match); the winner of a state is priority slot 0
 PRIO     slot order = listing order: add_conflicted_term fills the first free slot, it is the only writer, terms
          are added in ascending index by an ordered fold, a term's states are marked before they are merged INTO
          the automaton of the earlier terms (alt(prev, new): `to` = earlier), merge appends the merged-from list
 WS       skip_whitespace skips exactly the C-locale isspace set, without '\\n' when skip_newline is off, never
          NUL; find_char tests the terminator before comparing; the skip happens iff options.skip_whitespace
 SLICE    the lexeme handed to the functor is the exact slice [current_it, current_it + len) of the caller's buffer
 FAIL     (GCT) when nothing matches, 'Unexpected character' is reported once and the failure sentinel returned;
          nothing is skipped or guessed
 ITER, CHARIDX, TAG, IDX on the lexer
Not decided: that the merged automaton recognises the union of the terms' languages (algorithmic; see C03).
"""
import re

from .. import astq as A
from .. import absint as AI
from .. import flow
from .. import idxrule
from .. import lexrules
from .. import tix
from ..canon import Canon
from ..facts import walk, strip
from ..lr import _compare, _events, first_inst
from . import c08

P = "ctpg::parser::"
R = "ctpg::regex::"
ISSPACE = [9, 10, 11, 12, 13, 32]


def check(chk, fx):
    chk.explanation = (
        "Longest match and first-listed priority are decided as structural facts of the matcher and of the code that "
        "assigns priority slots (role templates over canonical forms, writer/reader analysis, ordered folds); the "
        "whitespace sets are read from the constant tables; the lexeme slice and the failure report are tied to the "
        "lexer result on every path. That the merged automaton recognises exactly the union of the patterns is the "
        "algorithmic part (C03, not applicable to this technique).")
    lexrules.match(chk, fx)
    prio(chk, fx)
    ws(chk, fx)
    lexrules.slice_rule(chk, fx)
    chk.rule("GCT", "abstract cases of get_current_term (failure report, eof, pending term)", 8)
    c08.gct(chk, fx)
    lexrules.iter_rule(chk, fx)
    lexrules.charidx(chk, fx)
    from .. import golden, goldenreg
    # a regex term's pattern is read by the pattern lexer and decoded by regex_char / string_view_to_subset: their
    # reference summaries (reviewed against the documented syntax)
    golden.group(chk, fx, "REGEXFE", "reference summaries of the regex front end (pattern lexer, character decoding)",
                 goldenreg.GROUPS["REGEXFE"])
    from .. import termrules
    termrules.termapi(chk, fx)        # ids / names / data the parser and the lexer builder read
    golden.group(chk, fx, "DFAB", "reference summaries of the automaton construction and of the matcher", goldenreg.GROUPS["DFAB"])
    from .. import stdexrules
    stdexrules.bitset(chk, fx)       # character classes / item and FIRST sets live in cbitset
    lexrules.tag(chk, fx)
    lexrules.lenw(chk, fx)
    from .. import ownrules
    ownrules.bufref(chk, fx, 6)       # "exactly that slice of the caller's buffer"
    from .. import cexrules
    cexrules.buf(chk, fx)             # the three buffer classes: begin / end / get_view mean the same slice
    from .. import primrules
    primrules.prims(chk, fx, "BUFIT", "UTIL")
    from .. import gramrules
    gramrules.check(chk, fx)          # how a pattern is read decides what each regex term matches
    from . import c17
    c17.rej4(chk, fx)                 # ... and with which options (a blank in a pattern is a blank)
    from .. import deporder, goldenreg as _gr
    deporder.group(chk, fx, "DEPORD", "dependence order of statements (lexer construction and matching)", _gr.DEP_GROUPS["LEX"])
    from .. import width
    width.check(chk, fx, classes=("LEN",), minimum=8)     # every carrier of a lexeme length
    tix.report(chk, fx)
    idxrule.report(chk, fx, lambda q: q.startswith(R) or q.startswith(P + "get_current_term") or
                   q.startswith(P + "create_lexer") or q.startswith(P + "shift") or q.startswith(P + "skip_whitespace"),
                   "lexer construction and matching", 10)


def prio(chk, fx):
    chk.rule("PRIO", "priority slots of a DFA state", 7)
    # (1) first free slot
    from .. import pathsig as PS
    from ..lr import _drop_noise
    f = first_inst(fx, R + "add_conflicted_term")
    cn = Canon(f)
    loops = [n for n in walk(f.body) if n.get("k") in ("ForStmt", "WhileStmt")]
    if len(loops) != 1:
        chk.incomplete("add_conflicted_term: slot loop not found")
    actual, nodes = PS.event_conditions(cn, loops[0]["body"], unroll=1, drop=_drop_noise)
    FREE = ("($0[@i{0..4}] == uninitialized16)", True)
    want = {
        ("assign", "($0[@i{0..4}] = $1)"): (PS.dnf([FREE]), "a term takes the first free slot"),
        ("break", ""): (PS.dnf([FREE]), "and only that one"),
    }
    PS.compare(chk, "PRIO", f, loops[0], actual, nodes, want)
    # (2) writers of conflicted_recognition
    writers = set()
    for fn in fx.all_fns():
        if fn.is_pattern:
            continue
        for n, target, op in A.writes(fn.body):
            p = A.access_path(target)
            if any(c[0] == "field" and c[1] == R + "dfa_state::conflicted_recognition" for c in p):
                writers.add(fn.o["q"])
        for n in walk(fn.body):
            if A.is_call(n, q=R + "add_conflicted_term"):
                a0 = A.call_args(n)[0]
                if not any(c[0] == "field" and c[1] == R + "dfa_state::conflicted_recognition" for c in A.access_path(a0)):
                    writers.add(fn.o["q"] + ":passes-other-array")
    if writers:
        chk.violation("PRIO", "include/ctpg/ctpg.hpp " + sorted(writers)[0], "PRIO:other-writer",
                      "conflicted_recognition is written outside add_conflicted_term: %s" % sorted(writers))
    else:
        chk.ok("PRIO", "include/ctpg/ctpg.hpp " + R + "add_conflicted_term", "the only writer of the priority slots")
    # (3) mark_end_state / merge
    def calls_of(name):
        def evs(cn_, node):
            return [PS.Event("call", cn_.c(n), n) for n in walk(node) if A.is_call(n) and n["callee"]["n"] == name]
        return evs
    f = first_inst(fx, R + "dfa_builder::mark_end_state")
    cn = Canon(f)
    actual, nodes = PS.event_conditions(cn, f.body, events_of=calls_of("add_conflicted_term"), unroll=1, drop=_drop_noise)
    actual = {k: v for k, v in actual.items() if k[0] == "call"}
    c = actual.get(("call", "add_conflicted_term($0.conflicted_recognition, $1)"))
    if c is not None and len(actual) == 1 and PS.equivalent(c, PS.dnf([("$0.end_state", True)])):
        chk.ok("PRIO", A.site(f), "an accepting state (and only an accepting state) records the term in its own slot list")
    else:
        chk.violation("PRIO", A.site(f), "PRIO:mark_end_state", "mark_end_state does %s" % [(k[1], PS.show(v)) for k, v in actual.items()])
    f = first_inst(fx, R + "dfa_builder::merge")
    # loop-form independent: the counter is an ordinary local whose values are numbered along the path (0, 0 + 1, ...),
    # whether it is a for loop with a break or a while loop with the slot test in its condition
    cn = Canon(f, uniform=True)
    if not any(A.is_call(m) and m["callee"]["n"] == "mark_end_state" for m in walk(f.body)):
        chk.incomplete("merge: loop copying the priority slots not found")
    actual, nodes = PS.event_conditions(cn, f.body, events_of=calls_of("mark_end_state"), unroll=2, versioned=True,
                                        drop=lambda a: "conflicted_recognition" not in a)
    actual = {k: v for k, v in actual.items() if k[0] == "call"}
    slot = lambda i: "(sm[$1].conflicted_recognition[%s] == uninitialized16)" % i
    want = {("call", "mark_end_state(sm[$0], sm[$1].conflicted_recognition[0])"): PS.dnf([(slot("0"), False)]),
            ("call", "mark_end_state(sm[$0], sm[$1].conflicted_recognition[(0 + 1)])"):
                PS.dnf([(slot("0"), False), (slot("(0 + 1)"), False)])}
    if set(actual) == set(want) and all(PS.equivalent(actual[k], want[k]) for k in want):
        chk.ok("PRIO", A.site(f), "merge(to, from) appends from's terms, in slot order from slot 0, up to the first free "
                                  "slot, after to's")
    else:
        chk.violation("PRIO", A.site(f), "PRIO:merge", "merge copies priorities as %s" % [(k[1], PS.show(v)) for k, v in actual.items()])
    f = first_inst(fx, R + "dfa_builder::alt")
    cn = Canon(f)
    ms = [cn.c(n) for n in walk(f.body) if A.is_call(n) and n["callee"]["n"] == "merge"]
    if ms == ["merge($0.start, $1.start, true, true)"]:
        chk.ok("PRIO", A.site(f), "alt(s1, s2) merges s2 into s1: s1's terms keep the lower slots")
    else:
        chk.violation("PRIO", A.site(f), "PRIO:alt", "alt merges as %s" % ms)
    # (4) every term kind: mark the new states with the term's index, then alt(previous automaton, new)
    n_ok = 0
    for f in fx.need(R + "add_term_data_to_dfa"):
        key = f.o["l"]
        cn = Canon(f)
        seq = []
        for n in walk(f.body):
            if n.get("k") == "CXXMemberCallExpr" and (n.get("callee") or {}).get("n") in ("mark_end_states", "alt"):
                seq.append((n["callee"]["n"], [cn.c(a) for a in A.call_args(n)], n))
        names = [s[0] for s in seq]
        site = A.site(f)
        if names != ["mark_end_states", "alt"]:
            chk.violation("PRIO", site, "PRIO:add_term_data_to_dfa:order",
                          "a term's automaton must be marked with its index and then alt()-ed into the existing one; found %s" % names)
            continue
        mark, alt = seq
        if mark[1][1] != "$2":
            chk.violation("PRIO", site, "PRIO:add_term_data_to_dfa:index", "states are marked with %s instead of the term's index" % mark[1][1])
            continue
        if not alt[1][0].startswith("slice{0, ") or alt[1][1] != mark[1][0]:
            chk.violation("PRIO", site, "PRIO:add_term_data_to_dfa:alt-operands",
                          "alt(%s, %s): the existing automaton (starting at state 0) must be the first operand and the "
                          "marked slice the second" % (alt[1][0][:40], alt[1][1][:40]))
            continue
        n_ok += 1
    if n_ok >= 3:
        chk.ok("PRIO", "include/ctpg/ctpg.hpp " + R + "add_term_data_to_dfa",
               "all %d instantiated overloads (char, string, regex): mark(new, idx); alt(existing, new)" % n_ok)
    elif not chk.violations:
        chk.incomplete("fewer than 3 add_term_data_to_dfa overloads analysed")
    # (5) terms are added in listing order with their own index
    for f in fx.need(P + "create_lexer")[:10]:
        cn = Canon(f)
        idxs = []
        for n in walk(f.body):
            if A.is_call(n) and n["callee"]["n"] == "add_term_data_to_dfa":
                idxs.append((AI.const_of(A.call_args(n)[2]), tix._get_index(f, [m for m in walk(n) if A.is_call(m) and
                                                                                m["callee"]["n"] == "get"][0])))
        if not idxs:
            continue
        if idxs == [(i, i) for i in range(len(idxs))]:
            chk.ok("PRIO", A.site(f), "terms 0..%d are added in listing order, each with its own index" % (len(idxs) - 1))
        else:
            chk.violation("PRIO", A.site(f), "PRIO:create_lexer:order", "terms are added as (index, tuple element) %s" % idxs)
        break


def ws(chk, fx):
    from .. import pathsig as PS
    from ..lr import _drop_noise
    chk.rule("WS", "whitespace skipping", 5)
    f = first_inst(fx, P + "skip_whitespace")
    cn = Canon(f)
    calls = [n for n in walk(f.body) if A.is_call(n, q="ctpg::utils::find_char")]
    if not calls:
        # the other way to look a byte up in a table: a string_view over the table and find(). What matters is the same:
        # which bytes the view contains — a view built with the array's full extent contains the terminating NUL
        finds = [n for n in walk(f.body) if n.get("k") == "CXXMemberCallExpr" and (n.get("callee") or {}).get("n") == "find"
                 and "string_view" in cn.c(n)]
        if len(finds) == 1:
            t = cn.c(finds[0])
            views = re.findall(r"string_view\{(?:const )?char\[(\d+)\]\{([\d, ]*)\}, ([^{}]*(?:\{[\d, ]*\})?[^{}]*?)\}", t)
            if len(views) == 2:
                bad = False
                for ext, elems, length in views:
                    tab = [int(x) for x in elems.split(",")]
                    n_in_view = None
                    if re.fullmatch(r"\d+", length.strip()):
                        n_in_view = int(length)
                    elif length.strip().startswith("size(") or length.strip().startswith("sizeof"):
                        n_in_view = int(ext)
                    elif re.fullmatch(r"\(size\(.*\) - 1\)", length.strip()):
                        n_in_view = int(ext) - 1
                    if n_in_view is None:
                        chk.incomplete("skip_whitespace: length of the whitespace view not recognised (%s)" % length[:60])
                    if 0 in tab[:n_in_view]:
                        bad = True
                        chk.violation("WS", A.site(f, finds[0]), "WS:terminator:view",
                                      "the whitespace table is searched through a string_view of %d bytes over %s: the view "
                                      "contains the terminating NUL, so a NUL byte of the input is skipped as white space "
                                      "instead of being reported" % (n_in_view, tab))
                if bad:
                    return
        chk.incomplete("skip_whitespace: expected one find_char call")
    if len(calls) != 1:
        chk.incomplete("skip_whitespace: expected one find_char call")
    txt = cn.c(A.call_args(calls[0])[1])
    m = re.fullmatch(r"\((\$0\.options\.skip_newline) \? (?:const )?char\[\d+\]\{([\d, ]*)\} : (?:const )?char\[\d+\]\{([\d, ]*)\}\)", txt)
    site = A.site(f, calls[0])
    if not m:
        chk.incomplete("skip_whitespace: whitespace tables not recognised (%s)" % txt[:100])
    with_nl = [int(x) for x in m.group(2).split(",")]
    without = [int(x) for x in m.group(3).split(",")]
    for name, tab, want in (("skip_newline on", with_nl, ISSPACE), ("skip_newline off", without, [c for c in ISSPACE if c != 10])):
        if tab[-1:] != [0] or 0 in tab[:-1]:
            chk.violation("WS", site, "WS:terminator:%s" % name.split()[-1],
                          "the table for %s is not a NUL-terminated string %s: the scan for a byte runs past it / NUL is "
                          "treated as whitespace" % (name, tab))
        elif sorted(tab[:-1]) != want:
            chk.violation("WS", site, "WS:set:%s" % name.split()[-1],
                          "with %s the bytes skipped are %s; documented white space is %s" % (name, sorted(tab[:-1]), want))
        else:
            chk.ok("WS", site, "%s: skips %s" % (name, want))
    if cn.c(A.call_args(calls[0])[0]) != "*?%s" % _itname(f):
        chk.violation("WS", site, "WS:tested-byte", "the byte looked up is %s" % cn.c(A.call_args(calls[0])[0]))
    # one iteration advances the iterator exactly when (not at the end) and (the byte is in the table); every other
    # path leaves the loop — independent of whether the tests sit in the loop condition or in breaks
    loops = [n for n in walk(f.body) if n.get("k") in ("WhileStmt", "ForStmt")]
    if len(loops) != 1:
        chk.incomplete("skip_whitespace: scan loop not found")
    loop = loops[0]
    it = _itname(f)
    fc = "find_char(*?%s, %s)" % (it, txt)
    true_alts = flow.cond_atoms(loop["cond"], True) if loop.get("cond") is not None else [[]]
    adv_conds = set()
    stay_without_advance = False
    for alt in true_alts:
        for ev, term_ in flow.paths(loop.get("body"), unroll=0):
            rels = []
            advanced = False
            for e in list(alt) + list(ev) + ([("stmt", loop["inc"])] if loop.get("inc") else []):
                if e[0] == "cond":
                    a = AI.atom_with_outcome(e[1], e[2])
                    rels.append(_rel(cn, e[1], e[2]))
                elif e[0] == "stmt":
                    for eff in AI.effects(e[1]):
                        if eff[0] == "inc" and eff[1] == it and eff[2] == 1:
                            advanced = True
            if term_ in ("fall", "continue"):
                if advanced:
                    adv_conds.add(frozenset(rels))
                else:
                    stay_without_advance = True
    want_adv = {frozenset(("?%s != $0.buffer_end" % it, "%s != uninitialized" % fc))}
    lsite = A.site(f, loop)
    if stay_without_advance:
        chk.violation("WS", lsite, "WS:loop:no-progress", "an iteration can continue without advancing the iterator")
    elif adv_conds == want_adv:
        chk.ok("WS", lsite, "the scan advances exactly while it is not at the end and the byte is white space")
    else:
        chk.violation("WS", lsite, "WS:loop:advance-condition",
                      "the scan advances under %s; required: not at the end of the buffer and the byte is in the table" %
                      [sorted(x) for x in adv_conds])
    # find_char: a position is returned only for a byte that is not the terminator and equals the searched byte;
    # 'not found' once the terminator is reached — so searching for NUL never finds the table's own terminator
    g = first_inst(fx, "ctpg::utils::find_char")
    cg = Canon(g)
    flow.assert_structured(g)
    gc, gn = PS.event_conditions(cg, g.body, unroll=1, drop=_drop_noise)
    pos_rets = [(t, c) for (k, t), c in gc.items() if k == "return" and t not in ("uninitialized",)]
    nf = gc.get(("return", "uninitialized"))
    problems = []
    if not pos_rets:
        problems.append("never returns a position")
    def _excluded(conj):
        # the byte compared with the searched one ($0) is, on the same path, known not to be the terminator; the byte
        # may be written *p or p[i]
        d = dict(conj)
        els = [m.group(1) or m.group(2) for a, pol in conj if pol
               for m in [re.fullmatch(r"\((?:\$0 == (.+)|(.+) == \$0)\)", a)] if m]
        if not els:
            return None
        return any(d.get(e) is True or d.get("(%s == 0)" % e) is False or d.get("(0 == %s)" % e) is False for e in els)
    for t, c in pos_rets:
        verdicts = [_excluded(conj) for conj in c]
        if any(v is None for v in verdicts):
            chk.defer_incomplete("WS: find_char returns %s under a condition that does not compare a byte with the "
                                 "searched one (%s): unknown shape" % (t, PS.show(c)[:120]))
            continue
        if not all(verdicts):
            problems.append("returns %s when %s: the terminator is not excluded before the comparison, so searching for "
                            "NUL finds the terminator and a NUL byte of the input counts as white space" % (t, PS.show(c)[:120]))
    if nf is None:
        problems.append("never reports 'not found'")
    if problems:
        chk.violation("WS", A.site(g), "WS:find_char", "; ".join(problems))
    else:
        chk.ok("WS", A.site(g), "find_char returns a position only for a non-terminator byte equal to the searched one")
    # the skip is performed iff options.skip_whitespace
    h = first_inst(fx, P + "get_current_term")
    ch = Canon(h)
    sk = [(ch.c(n), ch.guards(n)) for n in walk(h.body) if A.is_call(n, q=P + "skip_whitespace")]
    if len(sk) == 1 and "$0.options.skip_whitespace" in sk[0][1]:
        chk.ok("WS", A.site(h), "white space is skipped iff options.skip_whitespace")
    else:
        chk.violation("WS", A.site(h), "WS:guard", "skip_whitespace is called under %s" % [s[1] for s in sk])


def _rel(cn, cond, outcome):
    """Canonical relation established by (cond, outcome): 'a != b' / 'a == b' / 'x' / '!x'."""
    st = strip(cond, casts=True)
    if st is not None and ((st.get("k") == "BinaryOperator" and st.get("op") in ("==", "!=")) or
                           (st.get("k") == "CXXOperatorCallExpr" and st.get("op") in ("==", "!=") and len(st["c"]) == 3)):
        ops = st["c"] if st["k"] == "BinaryOperator" else st["c"][1:]
        a, b = cn.c(ops[0]), cn.c(ops[1])
        eq = (st["op"] == "==") == outcome
        if b.startswith("?") and not a.startswith("?") or (a in ("uninitialized", "$0.buffer_end")):
            a, b = b, a
        return "%s %s %s" % (a, "==" if eq else "!=", b)
    return ("" if outcome else "!") + cn.c(cond)


def _itname(f):
    for n in walk(f.body):
        if n.get("k") == "Var" and n.get("init") is not None and "current_it" in A.path_names(A.access_path(n["init"])):
            return n["n"]
    return "start"
