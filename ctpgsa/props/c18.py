"""C18 — a custom lexer drives the parser under the same contract as the generated one.

 LEXARM  get_current_term: the generated and the custom arm are the two arms of one `if constexpr`; each assigns the
         result of one call with the same five arguments (options, current_sp, current_it, buffer_end, error_stream);
         the abstract behaviour of get_current_term (GCT: what is looked up, when the lexer is asked, failure report)
         is IDENTICAL for a generated-lexer and a custom-lexer instantiation
 SENT-C  a default-constructed recognized_term carries the very constant get_current_term compares with
 SLICE   consumes exactly the returned length: current_end_it = current_it + len, view [current_it, current_end_it)
 LENW    the returned length is not narrowed
 POS-P   (C10) the position advances by the consumed slice
 IMM-7   (C15) the lexer object is a fresh automatic local per request
 IDX     the returned index is used as a term index (table column via get_parse_table_idx, term_ftors, term_names)
 CAP-T   custom terms contribute no automaton states; lexer_dfa_size is 1 when no lexer is generated
Not decided: behaviour for indices / lengths out of range (excluded by the property).
"""
import re

from .. import astq as A
from .. import drv
from .. import idxrule
from .. import lexrules
from .. import caprules
from ..canon import Canon
from ..facts import walk, strip
from . import c08, c10

P = "ctpg::parser::"


def check(chk, fx):
    chk.explanation = (
        "The custom-lexer path differs from the generated-lexer path in one call expression. Both arms are compared on "
        "canonical forms (same five arguments), everything before and after is shared code, and the finite-domain "
        "summary of get_current_term is computed separately for an instantiation of each kind and required to be "
        "equal. The uses of the result (index as term, length as extent, default result as failure) are the shared "
        "rules SLICE, LENW, TAG, IDX.")
    lexarm(chk, fx)
    lexlocal(chk, fx)
    sent_c(chk, fx)
    lexrules.slice_rule(chk, fx)
    lexrules.lenw(chk, fx)
    lexrules.tag(chk, fx)
    chk.rule("GCT", "abstract cases of get_current_term", 8)
    c08.gct(chk, fx)
    c10.pos_p(chk, fx)
    from . import c04
    c04.ws(chk, fx)          # "after the same whitespace skipping"
    caprules.cap_t(chk, fx)
    from .. import width
    width.check(chk, fx, classes=("LEN",), minimum=8)
    from .. import cexrules
    cexrules.buf(chk, fx)             # the three buffer classes: begin / end / get_view mean the same slice
    from .. import primrules
    primrules.prims(chk, fx, "BUFIT")
    primrules.prims(chk, fx, "GAPI2")         # custom_term / typed_term constructors hand on what they were given
    from .. import termrules
    termrules.termapi(chk, fx)
    termrules.defarg(chk, fx)
    idxrule.report(chk, fx, lambda q: q.startswith(P + "get_current_term") or q.startswith(P + "shift") or
                   q.startswith(P + "context_parse") or q.startswith(P + "syntax_error") or
                   q.startswith(P + "trace_recognized_term") or q.startswith(P + "consume_term"),
                   "uses of the term index returned by the lexer", 5)


def lexlocal(chk, fx):
    """LEXLOCAL: "the parser asks L for one term at each position": every request is made to a freshly default-constructed
    L (an automatic local of the function that makes the request), as for the generated lexer, which has no state at all.
    A lexer object kept across requests would carry whatever its match() leaves in its members into the next request."""
    chk.rule("LEXLOCAL", "the custom lexer object is an automatic local of the requesting function", 1)
    n_ok = 0
    for f0 in fx.need(P + "get_current_term"):
        for f in A.with_helpers(f0):
            for n in walk(f.body):
                if A.is_call(n, name="match") and n.get("k") == "CXXMemberCallExpr":
                    obj = A.call_object(n)
                    d = A.declref(obj)
                    v = [x for x in walk(f.body) if d is not None and x.get("k") == "Var" and x["id"] == d["id"]]
                    if d is None or d["k"] != "Var" or not v or v[0].get("staticlocal") or v[0].get("ref"):
                        chk.violation("LEXLOCAL", A.site(f, n), "LEXLOCAL:%s" % f.o["n"],
                                      "match() is called on '%s', which is not a lexer object created for this request: state "
                                      "left in the lexer by one request reaches the next one" %
                                      A.path_names(A.access_path(obj)))
                    else:
                        n_ok += 1
                        if n_ok == 1:
                            chk.ok("LEXLOCAL", A.site(f, n), "a fresh '%s' per request" % d["n"])
    if n_ok == 0 and not chk.violations:
        chk.incomplete("LEXLOCAL: no custom-lexer instantiation of get_current_term in the witness matrix")


def lexarm(chk, fx):
    chk.rule("LEXARM", "generated / custom lexer arms of get_current_term", 3)
    gen, cus = None, None
    for f0 in fx.need(P + "get_current_term"):
        calls = [(h, n) for h in A.with_helpers(f0) for n in walk(h.body)
                 if A.is_call(n) and n["callee"]["n"] in ("dfa_match", "match")]
        if len(calls) != 1:
            chk.incomplete("get_current_term: expected exactly one lexer call per instantiation, found %d" % len(calls))
        f, call = calls[0]
        if call["callee"]["n"] == "dfa_match" and gen is None:
            gen = (f, call, f0)
        if call["callee"]["n"] == "match" and cus is None:
            cus = (f, call, f0)
    if gen is None or cus is None:
        chk.incomplete("both a generated-lexer and a custom-lexer instantiation of get_current_term are needed")
    fg, cg, fg0 = gen
    fc, cc, fc0 = cus
    ag = [Canon(fg).c(a) for a in A.call_args(cg)]
    ac = [Canon(fc).c(a) for a in A.call_args(cc)]
    want = ["$0.current_sp", "$0.current_it", "$0.buffer_end", "$0.error_stream"]
    okg = ag[0] == "lexer_sm" and ag[2:] == want and ag[1].startswith("?")
    okc = ac[1:] == want and ac[0].startswith("?")
    if okg and okc and ag[1] == ac[0]:
        chk.ok("LEXARM", A.site(fc, cc), "custom arm: lexer.match(opts, current_sp, current_it, buffer_end, error_stream) — the "
                                         "same five arguments as dfa_match(lexer_sm, ...)")
    else:
        chk.violation("LEXARM", A.site(fc, cc), "LEXARM:arguments",
                      "the two lexer arms are called with different arguments: generated %s, custom %s" % (ag, ac))
    # both are the two arms of one `if constexpr (generate_lexer)` in the pattern
    pats = fx.fns(fg.o["q"], patterns=True, insts=False)
    if not pats:
        chk.incomplete("pattern of %s not found" % fg.o["n"])
    ifs = [n for n in walk(pats[0].body) if n.get("k") == "IfStmt" and n.get("constexpr")]
    good = False
    for n in ifs:
        t = [m.get("name") or m.get("member") for m in walk(n.get("then")) if m.get("k") in ("UnresolvedLookupExpr", "CXXDependentScopeMemberExpr", "UnresolvedMemberExpr")]
        e = [m.get("name") or m.get("member") for m in walk(n.get("else")) if m.get("k") in ("UnresolvedLookupExpr", "CXXDependentScopeMemberExpr", "UnresolvedMemberExpr")]
        if "dfa_match" in t and "match" in e:
            good = True
    if good:
        chk.ok("LEXARM", A.site(pats[0]), "one `if constexpr (generate_lexer)`: dfa_match in one arm, lexer.match in the other; the rest is shared")
    else:
        chk.violation("LEXARM", A.site(pats[0]), "LEXARM:structure", "the two lexers are not selected by a single if constexpr around the call")
    # identical abstract behaviour
    sg = drv.gct_summary(fx, fg0)
    sc = drv.gct_summary(fx, fc0)
    if sg == sc:
        chk.ok("LEXARM", A.site(fc), "the abstract behaviour of get_current_term is identical with a generated and with a "
                                     "custom lexer (%d abstract cases)" % len(sg))
    else:
        diff = [k for k in sg if sg[k] != sc.get(k)]
        chk.violation("LEXARM", A.site(fc), "LEXARM:behaviour-differs",
                      "get_current_term behaves differently with a custom lexer in the abstract cases %s" % diff[:4])


def sent_c(chk, fx):
    chk.rule("SENT-C", "the failure value of a lexer result", 2)
    recs = list(fx.records("ctpg::recognized_term"))
    chk.require(recs, "recognized_term not found")
    u, r = recs[0]
    for fl in r["fields"]:
        if fl["n"] == "term_idx":
            init = strip(fl.get("init"), casts=True)
            name = init["d"]["n"] if init is not None and init.get("k") == "DeclRefExpr" else None
            s = "include/ctpg/ctpg.hpp:%s ctpg::recognized_term::term_idx" % fl["l"]
            if name == "uninitialized16":
                chk.ok("SENT-C", s, "a default-constructed result has term_idx = uninitialized16")
            else:
                chk.violation("SENT-C", s, "SENT-C:default", "default term_idx is %s" % name)
    f = fx.need(P + "get_current_term")[0]
    cn = Canon(f)
    rets = [(cn.c(n["value"]), cn.guards(n)) for n in walk(f.body) if n.get("k") == "ReturnStmt"]
    # the test may be made on the pending term (after the result's index was stored there) or on the result itself
    if any(v == "uninitialized16" and any(re.fullmatch(r"\((\$0\.current_term_idx|\?\w+\.term_idx) == uninitialized16\)", g)
                                           for g in gs) for v, gs in rets):
        chk.ok("SENT-C", A.site(f), "get_current_term treats term_idx == uninitialized16 as 'nothing recognised'")
    else:
        chk.violation("SENT-C", A.site(f), "SENT-C:test", "the failure test of get_current_term is %s" % [g for v, g in rets if v == "uninitialized16"])
