"""C12 — statically computed capacities always suffice, or construction fails loudly.  (rules: ctpgsa/caprules.py)"""
from .. import caprules, idxrule

P = "ctpg::parser::"


def check(chk, fx):
    chk.explanation = (
        "Each capacity the library derives is tied to the code that fills it: the automaton size analyser and the "
        "builder are compared operation by operation as polynomials over the operands (states created, slice "
        "returned, n == 0 and n != 0); per-term-kind sizes against what add_term_data_to_dfa creates; pushes into item "
        "vectors against membership tests; growth of every fixed-capacity container against an inside capacity test "
        "(so a too-small user limit throws / is not a constant expression); the new-state index against the state "
        "cap; the fixed parse stacks against an accounting of their push sites. Not decided: that the default STATE "
        "cap (a heuristic) suffices for every grammar — its overflow is checked and loud.")
    caprules.cap_k(chk, fx)
    caprules.cap_state(chk, fx)
    caprules.cap_d(chk, fx)
    caprules.cap_t(chk, fx)
    caprules.cap_i(chk, fx)
    caprules.cap_s(chk, fx)
    # the size analyser and the builder must read a pattern the same way (same pattern parser, same options): otherwise
    # they count different automata (a blank skipped by one and not by the other)
    from . import c17
    c17.rej4(chk, fx)
    from .. import primrules
    primrules.prims(chk, fx, "GAPI", "CVEC2")
    idxrule.report(chk, fx, lambda q: q.startswith("ctpg::regex::dfa_builder") or q.startswith(P + "state_analyzer"),
                   "automaton builder and state analyzer", 10)
