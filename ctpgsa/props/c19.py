"""C19 — helper functors pick and forward exactly the documented positions.

 HLP-T  generated type-level witness (ctpgsa/gen/helpers_witness.py): for every arity 1..9 and every position /
        ordered position pair, decltype of the helper applied to distinct non-copyable tag types is exactly the
        documented one; containers accept only the tag of the documented position. Decided by the type checker,
        nothing is evaluated. Negative witnesses must fail to compile (the harness can fail).
 HLP-A  on the template patterns: the body refers only to the named picked parameters (skipped ones are unnamed
        ignore<I> / Rest&&...), and returns std::forward<First>(arg) / T{std::forward<Arg>(arg)} (list-initialisation,
        as documented) / std::move(container) after container.emplace_back(std::move(arg)) or container.push_back(arg);
        val returns its stored value, create returns T{}.
"""
import os
import subprocess
import tempfile

from .. import astq as A
from ..facts import walk, strip, REPO
from ..gen import helpers_witness

FT = "ctpg::ftors::"


def check(chk, fx):
    chk.explanation = (
        "All arities 1..9, all positions and all ordered position pairs are enumerated in a generated translation unit "
        "of static_asserts over decltype with distinct non-copyable tag types, compiled (never run) with clang++ (and "
        "g++ in the thorough tier): which argument is picked, that it is forwarded unchanged (value category "
        "preserved), that the container is returned without a copy and that only the documented element can have been "
        "appended are facts of overload resolution and types. That no other argument is read follows from the patterns: "
        "skipped parameters have no name.")
    chk.level = "proof"
    hlp_t(chk, ("clang++", "g++") if chk.tier == "thorough" else ("clang++",))
    hlp_a(chk, fx)


def _compile(cxx, src, defs=()):
    r = subprocess.run([cxx, "-std=gnu++17", "-I" + os.path.join(REPO, "include"), "-fsyntax-only",
                        "-ferror-limit=0" if "clang" in cxx else "-fmax-errors=0"] + ["-D" + d for d in defs] + [src],
                       stdout=subprocess.PIPE, stderr=subprocess.STDOUT, text=True)
    return r.returncode, r.stdout


def pre(chk):
    """Runs before the witness matrix is extracted: the type-level witness needs only the header, so a change to a
    helper that also stops one of the witness grammars from compiling is still reported (a violation is a verdict,
    'the witness matrix does not compile' is not)."""
    hlp_t(chk, ("clang++", "g++") if chk.tier == "thorough" else ("clang++",))


def hlp_t(chk, compilers):
    if "HLP-T" in chk.rules:
        return          # already decided in the pre-phase
    src, n_pos, n_neg = helpers_witness.gen()
    chk.rule("HLP-T", "type-level assertions over all arities and positions", n_pos)
    d = tempfile.mkdtemp(prefix="ctpgsa-helpers-")
    path = os.path.join(d, "w_helpers.cpp")
    try:
        with open(path, "w") as f:
            f.write(src)
        lines = src.splitlines()
        for cxx in compilers:
            rc, out = _compile(cxx, path)
            failed = {}
            last_err = None
            for l in out.splitlines():
                if "error:" in l:
                    last_err = l.split("error:")[-1].strip()[:160]
                if "w_helpers.cpp:" in l and ("error" in l or ("note:" in l and "requested here" in l) or
                                              ("required from here" in l)):
                    try:
                        ln = int(l.split("w_helpers.cpp:")[1].split(":")[0])
                    except ValueError:
                        continue
                    if last_err:
                        failed.setdefault(ln, last_err)
            if rc != 0 and not failed:
                chk.incomplete("helper witness does not compile with %s: %s" % (cxx, out[:300]))
            n = 0
            for i, text in enumerate(lines, 1):
                if not text.startswith("static_assert("):
                    continue
                what = text[text.rfind(', "') + 3:text.rfind('"')]
                n += 1
                if i in failed:
                    helper = what.split(" ")[0].split("<")[0]
                    chk.violation("HLP-T", "witness w_helpers.cpp:%d (%s)" % (i, cxx), "HLP-T:%s:%s" % (helper, what.replace(" ", "-")),
                                  "type-level witness fails for %s: %s" % (what, failed[i]))
                elif cxx == compilers[0]:
                    chk.ok("HLP-T", "witness w_helpers.cpp:%d" % i, what)
            # errors outside static_asserts (ill-formed calls)
            for ln, msg in failed.items():
                if not lines[ln - 1].startswith("static_assert("):
                    chk.violation("HLP-T", "witness w_helpers.cpp:%d (%s)" % (ln, cxx), "HLP-T:ill-formed:%d" % ln, msg)
        # negative witnesses
        chk.rule("HLP-N", "negative witnesses (must not compile)", n_neg)
        for i in range(n_neg):
            rc, out = _compile(compilers[0], path, ["NEG_%d" % i])
            if rc != 0:
                chk.ok("HLP-N", "witness w_helpers.cpp NEG_%d" % i, "wrong position / copy is rejected by the type checker")
            else:
                chk.incomplete("negative witness NEG_%d compiles: the harness cannot fail" % i)
    finally:
        try:
            os.remove(path)
            os.rmdir(d)
        except OSError:
            pass


def _pattern_ops(fx, record):
    return [f for f in fx.all_fns() if f.is_pattern and f.o.get("parent") == record and f.o["n"] == "operator()"]


def hlp_a(chk, fx):
    chk.rule("HLP-A", "helper patterns: parameters referenced and value returned", 8)
    seen = set()

    def named_refs(f):
        ids = {p["id"]: p["n"] for p in f.o["params"]}
        used = set()
        for n in walk(f.body):
            if n.get("k") == "DeclRefExpr" and n["d"]["id"] in ids:
                used.add(ids[n["d"]["id"]])
        named = {p["n"] for p in f.o["params"] if p["n"]}
        return used, named

    def ret_shape(f):
        rets = [n for n in walk(f.body) if n.get("k") == "ReturnStmt"]
        return rets

    specs = [
        (FT + "element", {"arg"}, "forward"),
        (FT + "construct", {"arg"}, "construct"),
        (FT + "emplace_back", {"container", "arg"}, "emplace"),
        (FT + "push_back", {"container", "arg"}, "push"),
        (FT + "val", set(), "val"),
        (FT + "create", set(), "create"),
    ]
    for rec, want_named, kind in specs:
        fns = _pattern_ops(fx, rec)
        if not fns:
            chk.incomplete("pattern of %s::operator() not found" % rec)
        for f in fns:
            used, named = named_refs(f)
            site = A.site(f)
            key = (rec, f.o["l"])
            problems = []
            if named != want_named:
                problems.append("named parameters are %s, documented picks are %s (skipped arguments must stay unnamed)" % (
                    sorted(named), sorted(want_named)))
            if not used <= want_named:
                problems.append("the body reads %s" % sorted(used - want_named))
            rets = ret_shape(f)
            if len(rets) != 1:
                problems.append("%d return statements" % len(rets))
            else:
                v = strip(rets[0].get("value"))
                problems += _check_return(f, v, kind)
            if problems:
                chk.violation("HLP-A", site, "HLP-A:%s:%s" % (rec.split("::")[-1], f.o["l"]), "; ".join(problems))
            elif key not in seen:
                seen.add(key)
                chk.ok("HLP-A", site, "%s: refers only to %s and returns the documented value" % (
                    rec.split("::")[-1], sorted(want_named) or "nothing"))


def _callee_name(n):
    for m in walk(n):
        if m.get("k") in ("UnresolvedLookupExpr", "DependentScopeDeclRefExpr"):
            return m.get("name")
        if m.get("k") == "DeclRefExpr" and m["d"]["k"] in ("Function", "FunctionTemplate"):
            return m["d"]["n"]
    return None


def _check_return(f, v, kind):
    out = []
    if v is None:
        return ["no value returned"]
    k = v.get("k")

    def is_fwd(n, name, fn):
        n = strip(n)
        return n is not None and n.get("k") == "CallExpr" and _callee_name(n["c"][0]) == fn and \
            any(m.get("k") == "DeclRefExpr" and m["d"]["n"] == name for m in walk(n))
    if kind == "forward":
        if not is_fwd(v, "arg", "forward"):
            out.append("does not return std::forward<First>(arg)")
    elif kind == "construct":
        if not (k in ("CXXUnresolvedConstructExpr", "InitListExpr", "CXXTemporaryObjectExpr", "CXXFunctionalCastExpr") and
                (v.get("listinit") or k == "InitListExpr" or any(m.get("k") == "InitListExpr" for m in walk(v)))):
            out.append("does not list-initialise T{...} (documented: T{std::forward<Arg>(arg)}; T(...) selects other "
                       "constructors, e.g. std::vector<int>(3) vs std::vector<int>{3})")
        elif not any(is_fwd(m, "arg", "forward") for m in walk(v) if m.get("k") == "CallExpr"):
            out.append("does not construct from std::forward<Arg>(arg)")
        if any(m.get("k") == "IfStmt" for m in walk(f.body)):
            out.append("construction depends on a condition")
    elif kind in ("emplace", "push"):
        if not is_fwd(v, "container", "move"):
            out.append("does not return std::move(container) (the container would be copied)")
        ret_t = f.facts.T(f.o["ret"])
        if "decltype(auto)" not in ret_t and "&&" not in ret_t:
            out.append("return type is %s: the container is returned by value" % ret_t)
        calls = [m for m in walk(f.body) if m.get("k") == "CallExpr" and
                 strip(m["c"][0]) is not None and strip(m["c"][0]).get("k") == "CXXDependentScopeMemberExpr"]
        want_m = "emplace_back" if kind == "emplace" else "push_back"
        if len(calls) != 1 or strip(calls[0]["c"][0]).get("member") != want_m:
            out.append("does not call container.%s(...) exactly once" % want_m)
        else:
            c = calls[0]
            base = strip(strip(c["c"][0])["c"][0])
            if not (base is not None and base.get("k") == "DeclRefExpr" and base["d"]["n"] == "container"):
                out.append("%s is not called on the container" % want_m)
            a = c["c"][1:]
            if len(a) != 1 or not any(m.get("k") == "DeclRefExpr" and m["d"]["n"] == "arg" for m in walk(a[0])):
                out.append("the appended value is not the picked argument")
    elif kind == "val":
        s = strip(v)
        if not (s is not None and s.get("k") == "MemberExpr" and s["m"]["n"] == "v"):
            out.append("does not return the stored value")
    elif kind == "create":
        if not (k in ("CXXUnresolvedConstructExpr", "InitListExpr", "CXXTemporaryObjectExpr", "CXXScalarValueInitExpr") and not
                [c for c in (v.get("c") or []) if c is not None and c.get("k") != "InitListExpr"]):
            out.append("does not return a value-initialised T{}")
    return out
