"""C11 — diagnostics report every conflict and describe the real table.

 DIAG-F/X  finite-domain interpretation of the per-cell printing of write_state_diag_str over
           entry kind x conflict flag: every kind is handled, the line printed for a cell says what the driver
           does with that cell, a CONFLICT line appears iff the cell carries the flag (S/R) or is rr_conflict
 DIAG-A    the operand printed for a cell is the cell's own (arg under its kind; the conflicting rule looked
           up in the state's items for the preferred-shift case)
 DIAG-T    diagnostics read the very members the driver reads (parse_table, states, gi, names) — no copy
 DIAG-S    every item of a state and every state / rule is listed (scan coverage), an item prints its rule, the
           dot position and its lookahead
 CONF      (C05) the flag is set iff a shift item and a reduce item met in the cell, kind follows the solver
 IDX       printed numbers are in the space their label names (rule numbers as written, states)
 + the structural rules of the table construction (necessary for "the conflicts reported are the real ones")
Not decided: that the item sets are the true LR(1) ones (C01's undecided part).
"""
from .. import astq as A
from .. import flow
from .. import fdi
from .. import absint as AI
from .. import idxrule
from .. import lr
from ..canon import Canon
from ..facts import walk, strip
from . import c05

P = "ctpg::parser::"
KIND = ("f", P + "parse_table_entry::kind")
FLAG = ("f", P + "parse_table_entry::has_sr_conflict")


class DiagHooks(fdi.Hooks):
    def __init__(self, kinds):
        self.kinds = kinds

    def untracked(self, key):
        return key[0] == "f" and key not in (KIND, FLAG)

    def oracle(self, rel, st):
        if rel[0] in ("truth", "false"):
            t = rel[1]
            if t[0] == "call" and t[1] == P + "is_shift":
                k = st.get(KIND)
                v = k in (self.kinds["shift"], self.kinds["shift_error_recovery_token"])
                return v if rel[0] == "truth" else (not v)
        return None

    def call_effect(self, q, node, st):
        if node.get("k") == "CXXOperatorCallExpr" and node.get("op") == "<<":
            rhs = strip(node["c"][2])
            if rhs is not None and rhs.get("k") == "StringLiteral":
                return [fdi.log(st, bytes(rhs.get("bytes", [])).decode("latin1"))]
            return [fdi.log(st, ("value", id(node)))]
        return None


EXPECT = {
    # (kind, flag) -> substrings that must / must not be printed
    ("error", 0): ([], ["CONFLICT", "shift", "reduce", "success"]),
    ("error", 1): ([], ["CONFLICT", "shift", "reduce", "success"]),
    ("success", 0): (["success"], ["CONFLICT", "shift to", "reduce"]),
    ("shift", 0): (["shift to "], ["CONFLICT", "reduce", "success"]),
    ("shift_error_recovery_token", 0): (["shift to "], ["CONFLICT", "reduce", "success"]),
    ("shift", 1): (["S/R CONFLICT", "prefer shift over reduce("], ["prefer reduce", "R/R", "success"]),
    ("shift_error_recovery_token", 1): (["S/R CONFLICT", "prefer shift over reduce("], ["prefer reduce", "R/R", "success"]),
    ("reduce", 0): (["reduce using ("], ["CONFLICT", "shift", "success"]),
    ("reduce", 1): (["S/R CONFLICT", "prefer reduce("], ["prefer shift", "R/R", "success"]),
    ("rr_conflict", 0): (["R/R CONFLICT"], ["S/R", "shift to", "reduce using", "success"]),
    ("rr_conflict", 1): (["R/R CONFLICT"], ["shift to", "reduce using", "success"]),
}


def check(chk, fx):
    chk.explanation = (
        "The per-cell printing code of write_state_diag_str is interpreted over the finite domain entry kind x "
        "conflict flag and the text printed for each cell is compared with what the driver does with such a cell; the "
        "operands printed are tied to the cell by index-space typing and canonical forms; the CONF fixpoint (C05) "
        "shows the flag and kind are set exactly when a shift and a reduce item meet; coverage rules show nothing is "
        "left out of the listing. That the item sets themselves are the true LR(1) ones is the undecided part of C01; "
        "its decided structural rules are included here as necessary conditions.")
    kinds = fx.enum(P + "parse_table_entry_kind")
    diag_fx(chk, fx, kinds)
    diag_a(chk, fx)
    diag_t(chk, fx)
    diag_s(chk, fx)
    from .. import golden, goldenreg
    golden.group(chk, fx, "DIAG", "reference summaries of the listing functions (what is printed, under which condition)",
                 goldenreg.GROUPS["DIAG"])
    from .. import primrules
    primrules.prims(chk, fx, "NAMEFILL")
    primrules.prims(chk, fx, "UTIL")          # symbols of the listing are resolved by exact string comparison
    from . import c17
    c17.symbol_lookup(chk, fx)
    enums = c05._enum_values(fx)
    c05.conf(chk, fx, enums)
    lr.all_table_rules(chk, fx)
    idxrule.report(chk, fx, lambda q: "diag_str" in q or q.startswith(P + "find_reduction_rule") or
                   q.startswith(P + "get_symbol_name") or q.startswith(P + "state_analyzer::transitions"),
                   "diagnostic output", 4)


def _term_loop(f):
    for n in walk(f.body):
        if n.get("k") == "ForStmt" and any(m.get("k") == "StringLiteral" and b"S/R CONFLICT" in bytes(m.get("bytes", []))
                                           for m in walk(n.get("body"))):
            return n
    return None


def diag_fx(chk, fx, kinds):
    chk.rule("DIAG-FX", "abstract cells (entry kind x conflict flag) of the action listing", 11)
    seen = set()
    for f in fx.need(P + "write_state_diag_str")[:4]:
        flow.assert_structured(f)
        loop = _term_loop(f)
        if loop is None:
            chk.incomplete("write_state_diag_str: the loop printing the term columns was not found")
        paths = flow.paths(loop["body"], unroll=1)
        hooks = DiagHooks(kinds)
        for (kname, flag), (must, mustnot) in sorted(EXPECT.items()):
            outs = set()
            for ev, term_ in paths:
                for o in fdi.exec_events(ev, {KIND: kinds[kname], FLAG: flag}, hooks):
                    text = "".join(x for x in o.get(("log",), ()) if isinstance(x, str))
                    outs.add(text)
            site = A.site(f, loop)
            problems = []
            for text in outs:
                for m in must:
                    if m not in text:
                        problems.append("'%s' is not printed (output: %r)" % (m, text[:80]))
                for m in mustnot:
                    if m in text:
                        problems.append("'%s' is printed (output: %r)" % (m, text[:80]))
            if not outs:
                problems.append("no feasible path")
            desc = "cell kind=%s has_sr_conflict=%d" % (kname, flag)
            if problems:
                chk.violation("DIAG-FX", site, "DIAG-FX:%s:%d" % (kname, flag), "%s: %s" % (desc, "; ".join(sorted(set(problems))[:3])))
            elif (kname, flag) not in seen:
                seen.add((kname, flag))
                chk.ok("DIAG-FX", site, "%s -> %s" % (desc, sorted(outs)[0][:70].replace("\n", "\\n") if outs else ""))
        # nonterminal columns: a goto is printed iff the cell is a shift
        nt = None
        for n in walk(f.body):
            if n.get("k") == "ForStmt" and n is not loop and any(
                    m.get("k") == "StringLiteral" and b" go to " in bytes(m.get("bytes", [])) for m in walk(n.get("body"))):
                nt = n
        if nt is None:
            chk.violation("DIAG-FX", A.site(f), "DIAG-FX:goto-listing", "gotos are not listed")
        else:
            pths = flow.paths(nt["body"], unroll=1)
            for kname in kinds:
                outs = set()
                for ev, term_ in pths:
                    for o in fdi.exec_events(ev, {KIND: kinds[kname], FLAG: 0}, hooks):
                        outs.add("".join(x for x in o.get(("log",), ()) if isinstance(x, str)))
                want = kname in ("shift", "shift_error_recovery_token")
                got = all(" go to " in t for t in outs) if outs else False
                none = all(" go to " not in t for t in outs)
                if (want and got) or (not want and none):
                    if ("nt", kname) not in seen:
                        seen.add(("nt", kname))
                        chk.ok("DIAG-FX", A.site(f, nt), "nonterminal column kind=%s -> %s" % (kname, "goto printed" if want else "nothing"))
                else:
                    chk.violation("DIAG-FX", A.site(f, nt), "DIAG-FX:goto:%s" % kname,
                                  "nonterminal column of kind %s prints %s" % (kname, sorted(outs)))


def diag_a(chk, fx):
    chk.rule("DIAG-A", "operands printed for a table cell", 5)
    f = fx.need(P + "write_state_diag_str")[0]
    cn = Canon(f)
    from .c16 import chain, is_stream_write, _string_of
    from .. import graph as G
    seen = set()
    # the loop over the term columns may count the columns (i from nterm_count) or the terms (i from 0): what matters is
    # that the cell read and the term named belong to the same column
    FORMS = [("@i{nterm_count..(nterm_count + term_count)}", "(@i{nterm_count..(nterm_count + term_count)} - nterm_count)"),
             ("(nterm_count + @i{0..term_count})", "@i{0..term_count}"),
             ("(@i{0..term_count} + nterm_count)", "@i{0..term_count}")]
    all_text = " ".join(cn.c(n) for n in walk(f.body) if n.get("k") == "ArraySubscriptExpr")
    COL, TIDX = next(((c_, t_) for c_, t_ in FORMS if ("parse_table[$1][%s]" % c_) in all_text), FORMS[0])
    ENTRY_T = "parse_table[$1][%s]" % COL
    ENTRY_N = "parse_table[$1][@i{0..nterm_count}]"
    want = {
        "prefer reduce(": ["gi.rule_infos[%s.arg].r_idx" % ENTRY_T],
        "reduce using (": ["gi.rule_infos[%s.arg].r_idx" % ENTRY_T],
        "prefer shift over reduce(": ["find_reduction_rule($1, %s)" % TIDX],
        " shift to ": ["%s.arg" % ENTRY_T],
        " go to ": ["%s.arg" % ENTRY_N],
    }
    found = {}
    for st, guards in G.guarded_statements(f.body):
        if not is_stream_write(st):
            continue
        root, ops = chain(st)
        for i, o in enumerate(ops):
            s = _string_of(o)
            if s is None:
                continue
            for lab in want:
                if s.endswith(lab) and i + 1 < len(ops):
                    found[lab] = (cn.c(ops[i + 1]), ops[i + 1])
    for lab, allowed in want.items():
        if lab not in found:
            chk.violation("DIAG-A", A.site(f), "DIAG-A:%s:missing" % lab.strip(), "label '%s' is never printed" % lab)
            continue
        txt, node = found[lab]
        if lab == "prefer shift over reduce(":
            # any operand is acceptable that is a rule number (IDX types the printed label) and is not derived from the
            # cell's arg, which is the target STATE for a shift cell
            if (ENTRY_T + ".arg") in txt:
                chk.violation("DIAG-A", A.site(f, node), "DIAG-A:prefer-shift-operand",
                              "after '%s' the listing prints %s: for a shift cell arg is the target state, not a rule" %
                              (lab, txt.replace(ENTRY_T, "entry")))
            elif txt.startswith("?"):
                chk.violation("DIAG-A", A.site(f, node), "DIAG-A:prefer-shift-carried",
                              "after '%s' the listing prints the reassigned local %s: a value carried from another column "
                              "of the state, not the reduce item of THIS column's lookahead (%s)" % (lab, txt, allowed[0][:60]))
            else:
                chk.ok("DIAG-A", A.site(f, node), "after '%s' prints %s (not the shift target)" % (lab, txt[:80]))
            continue
        if txt in allowed:
            chk.ok("DIAG-A", A.site(f, node), "after '%s' prints %s" % (lab, txt.replace(ENTRY_T, "entry").replace(ENTRY_N, "entry")))
        else:
            chk.violation("DIAG-A", A.site(f, node), "DIAG-A:%s" % lab.strip(),
                          "after '%s' the listing prints %s; the cell's own operand is %s" % (
                              lab, txt.replace(ENTRY_T, "entry"), allowed[0].replace(ENTRY_T, "entry")))
    # term name printed for the column is the column's term
    names = [cn.c(n) for n in walk(f.body) if n.get("k") == "ArraySubscriptExpr" and cn.c(n).startswith("term_names[")]
    if ("term_names[%s]" % TIDX) in names:
        chk.ok("DIAG-A", A.site(f), "a term column i is labelled term_names[i - nterm_count]")
    else:
        chk.violation("DIAG-A", A.site(f), "DIAG-A:column-label", "term columns are labelled with %s" % names)
    # find_reduction_rule: the completed item of that state with that lookahead
    gs_ = fx.fns(P + "find_reduction_rule")
    if not gs_:
        # the preferred-shift line does not use the lookup helper: its operand was judged above
        return
    g = gs_[0]
    cg = Canon(g)
    from .. import pathsig as PS
    from ..lr import _drop_noise
    I = "make_situation_info(@i{0..situation_address_space_size})"
    R = "gi.rule_infos[%s.rule_info_idx]" % I
    conds, nodes = PS.event_conditions(cg, g.body, unroll=1, drop=_drop_noise)
    c = conds.get(("return", "%s.r_idx" % R))
    want = PS.dnf([("states[$0].test(@i{0..situation_address_space_size})", True),
                   ("(%s.after < %s.r_elements)" % (I, R), False), ("($1 == %s.t)" % I, True)])
    alt = PS.dnf([("states[$0].test(@i{0..situation_address_space_size})", True),
                  ("(%s.after < %s.r_elements)" % (I, R), False), ("(%s.t == $1)" % I, True)])
    if c is not None and (PS.equivalent(c, want) or PS.equivalent(c, alt)):
        chk.ok("DIAG-A", A.site(g), "find_reduction_rule returns the rule of the state's completed item whose lookahead "
                                    "is the conflicting term")
    elif c is not None:
        chk.violation("DIAG-A", A.site(g), "DIAG-A:find_reduction_rule",
                      "the rule is taken from an item under the condition %s; it must be an item of the state that is "
                      "complete and has the conflicting term as lookahead" % PS.show(c).replace(I, "info")[:260])
    else:
        rets = [t for (k, t) in conds if k == "return"]
        if any(".r_idx" in t for t in rets):
            chk.violation("DIAG-A", A.site(g), "DIAG-A:find_reduction_rule",
                          "find_reduction_rule returns %s" % [t.replace(I, "info")[:100] for t in rets])
        else:
            # another way of finding the item: no verdict from this clause (the index-space rule still says whether what is
            # returned is a rule number as written)
            chk.defer_incomplete("find_reduction_rule: shape not recognised (returns %s)" % rets)


def diag_t(chk, fx):
    chk.rule("DIAG-T", "data the diagnostics read", 4)
    driver = set()
    for f in fx.need(P + "context_parse")[:3] + fx.need(P + "reduce")[:2]:
        for n in walk(f.body):
            if n.get("k") == "MemberExpr" and n["m"]["k"] == "Field" and n["m"]["q"].startswith(P) and \
                    n["m"]["q"].count("::") == 2:
                driver.add(n["m"]["n"])
    allowed = {"parse_table", "states", "gi", "term_names", "nterm_names", "state_count", "lexer_sm", "term_ids"}
    seen = set()
    for name in ("write_diag_str", "write_state_diag_str", "write_rule_diag_str", "write_situation_diag_str",
                 "find_reduction_rule", "get_symbol_name"):
        for f in (fx.fns(P + name) if name == "find_reduction_rule" else fx.need(P + name))[:2]:
            used = set()
            for n in walk(f.body):
                if n.get("k") == "MemberExpr" and n["m"]["k"] == "Field" and n["m"]["q"].startswith(P) and \
                        n["m"]["q"].count("::") == 2:
                    used.add(n["m"]["n"])
            extra = used - allowed
            if extra:
                chk.violation("DIAG-T", A.site(f), "DIAG-T:%s:%s" % (name, sorted(extra)[0]),
                              "%s reads %s, which is not the table/state data the driver executes" % (name, sorted(extra)))
            elif name not in seen:
                seen.add(name)
                chk.ok("DIAG-T", A.site(f), "%s reads only %s" % (name, sorted(used)))
            if not f.o.get("const"):
                chk.violation("DIAG-T", A.site(f), "DIAG-T:%s:non-const" % name, "diagnostic function is not const")
    if "parse_table" not in driver:
        chk.incomplete("driver does not read parser::parse_table?")


def diag_s(chk, fx):
    chk.rule("DIAG-S", "completeness of the listing", 5)
    f = fx.need(P + "write_diag_str")[0]
    cn = Canon(f)
    calls = [cn.c(n) for n in walk(f.body) if A.is_call(n) and n["callee"]["n"] in ("write_rule_diag_str",
                                                                                    "write_state_diag_str")]
    for w, why in (("write_rule_diag_str($0, @i{0..rule_count})", "every rule is listed"),
                   ("write_state_diag_str($0, @i{0..state_count})", "every state is listed")):
        if w in calls:
            chk.ok("DIAG-S", A.site(f), why)
        else:
            chk.violation("DIAG-S", A.site(f), "DIAG-S:%s" % why.split(" ")[1], "%s: expected %s, found %s" % (why, w, calls))
    g = fx.need(P + "write_state_diag_str")[0]
    cg = Canon(g)
    items = [(cg.c(n), cg.guards(n)) for n in walk(g.body) if A.is_call(n) and n["callee"]["n"] == "write_situation_diag_str"]
    if any(t == "write_situation_diag_str($0, @i{0..situation_address_space_size})" and
           "states[$1].test(@i{0..situation_address_space_size})" in gs for t, gs in items):
        chk.ok("DIAG-S", A.site(g), "exactly the items of the state are listed")
    else:
        chk.violation("DIAG-S", A.site(g), "DIAG-S:items", "items listed: %s" % items[:2])
    h = fx.need(P + "write_situation_diag_str")[0]
    ch = Canon(h)
    I = "make_situation_info($1)"
    R = "gi.rule_infos[%s.rule_info_idx]" % I
    names = [ch.c(n) for n in walk(h.body) if A.is_call(n) and n["callee"]["n"] == "get_symbol_name"]
    want = ["get_symbol_name(gi.right_sides[%s.r_idx][@i{0..%s.after}])" % (R, I),
            "get_symbol_name(gi.right_sides[%s.r_idx][@i{%s.after..%s.r_elements}])" % (R, I, R)]
    if names == want:
        chk.ok("DIAG-S", A.site(h), "an item prints the symbols before the dot, the dot, the symbols after it")
    else:
        chk.violation("DIAG-S", A.site(h), "DIAG-S:item-text", "item text is built from %s" % [n.replace(I, "info") for n in names])
    la = [ch.c(n) for n in walk(h.body) if n.get("k") == "ArraySubscriptExpr" and ch.c(n).startswith("term_names[")]
    if la == ["term_names[%s.t]" % I]:
        chk.ok("DIAG-S", A.site(h), "an item prints its lookahead term")
    else:
        chk.violation("DIAG-S", A.site(h), "DIAG-S:lookahead", "lookahead printed as %s" % la)
