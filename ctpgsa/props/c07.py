"""C07 — compile-time and run-time parsing agree, for every buffer kind (decided clauses; DESIGN.md 5/C07)."""
from .. import caprules, cexrules, lexrules, saferules


def check(chk, fx):
    chk.explanation = (
        "Decided: every function reachable from a constexpr construction, parse or match (through the resolved call "
        "graph, including the two function-pointer tables) is constexpr, structured, uses literal locals and calls "
        "only constexpr library functions — this covers the error, recovery, verbose and diagnostic paths the single "
        "constexpr test never evaluates (CEX); no code branches on 'is this constant evaluation' (NOFORK); the "
        "operations that are undefined behaviour at run time and therefore rejected by the constant evaluator are "
        "excluded structurally: sentinel length arithmetic (TAG), reads of the top of an empty stack (EMPTY), "
        "dereferences past the end (ITER); the three buffer classes implement one interface with the same meaning "
        "(BUF); stack types are selected by buffer kind only in the documented way (STACKSEL); the fixed-capacity "
        "stacks are the one place where the result depends on the buffer kind (CAP-S: recorded findings). Not "
        "decided: equality of results as such; compiler-specific constant-evaluation limits.")
    cexrules.cex(chk, fx)
    cexrules.ceval(chk, fx, ("clang++", "g++") if chk.tier == "thorough" else ("clang++",))
    cexrules.nofork(chk, fx)
    lexrules.tag(chk, fx)
    saferules.empty_guard(chk, fx)
    lexrules.iter_rule(chk, fx)
    cexrules.buf(chk, fx)
    from .. import ownrules
    ownrules.bufref(chk, fx, 6)
    from .. import primrules
    primrules.prims(chk, fx, "OVL")
    from .. import primrules
    primrules.prims(chk, fx, "BUFIT", "CVEC2")
    cexrules.stacksel(chk, fx)
    caprules.cap_k(chk, fx)
    caprules.cap_s(chk, fx)
