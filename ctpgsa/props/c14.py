"""C14 — semantic values are moved, never duplicated, leaked or reused.

 MOVE-T  inside the parser's transport functions no copy constructor / copy assignment of a non-trivially-copyable
         type is resolved (checked in the std::string / std::vector / unique_ptr instantiations, where a copy would be
         legal and silent)
 MOVE-A  (ARGS) each functor argument is std::get<T_k>(std::move(*(start + k))): an xvalue of a distinct slot
 MOVE-V  term_value moves its constructor argument in and, as an rvalue, its value out; cvector::emplace_back and
         erase move; success's value is moved into the optional
 MOVE-1  (ONCE) the consumed slice is erased right after the single invocation: nothing reads it in between
 MOVE-W  type-level witness: move-only nonterminal AND typed-term values compile on all three buffers (w_values)
 RAII    the value stack is a local std::vector, or a cvector of a trivially destructible variant (enable_if), so
         every value is destroyed exactly once on every exit
Not decided: copies made by design in user-visible helpers (val, push_back, lvalue conversion of term_value).
"""
import re

from .. import astq as A
from ..canon import Canon
from ..facts import walk, strip
from . import c02

P = "ctpg::parser::"
VR = "ctpg::detail::value_reductors::"
TRANSPORT = [P + "shift", P + "shift_recovery_token", P + "reduce", P + "success", P + "context_parse",
             P + "string_view_to_term_value", VR + "invoke", VR + "reduce_value", VR + "reduce_value_impl",
             "ctpg::term_value::term_value", "ctpg::stdex::cvector::emplace_back", "ctpg::stdex::cvector::erase"]


def check(chk, fx):
    chk.explanation = (
        "Copies are resolved calls of copy constructors / copy assignment operators; the transport functions of the "
        "parser are scanned in the instantiations with std::string, std::vector and unique_ptr values, where a copy "
        "would compile silently. Argument hand-over, the conversion operators of term_value and the container "
        "primitives are checked on canonical forms; single use follows from the invoke/erase adjacency (ONCE); "
        "exactly-once destruction from the value stack being a local std::vector or a cvector of a trivially "
        "destructible variant.")
    move_t(chk, fx)
    c02.args(chk, fx)
    move_v(chk, fx)
    c02.once(chk, fx)
    c02.lock(chk, fx)          # a value whose state was discarded must leave the value stack with it (no reuse later)
    move_w(chk, fx)
    raii(chk, fx)
    # the library's own functors (emplace_back, push_back, _eN, construct) are part of the transport: their type-level
    # witness shows that an rvalue element is taken as an rvalue (moved, not copied) and the container handed back by move
    from . import c19
    c19.hlp_t(chk, ("clang++",))


def move_t(chk, fx):
    chk.rule("MOVE-T", "transport functions free of copies of non-trivial values", 10)
    seen = set()
    n_nontrivial_insts = 0
    for q in TRANSPORT:
        for f in fx.need(q):
            if f.o.get("implicit") or f.o.get("defaulted"):
                continue
            full = f.full + (f.o.get("targs") or "")
            if "basic_string<" in full or "unique_ptr" in full or "std::vector<std::" in full:
                n_nontrivial_insts += 1
            bad = []
            roots = [f.body] + [i.get("init") for i in f.o.get("inits", ())]
            for r in roots:
                for n in walk(r):
                    k = n.get("k")
                    if k in ("CXXConstructExpr", "CXXTemporaryObjectExpr"):
                        c = n.get("ctor") or {}
                        if c.get("copy") and not c.get("trivial") and not _is_ok_copy(f, n):
                            bad.append((n, "copy-constructs %s" % f.facts.T(n.get("t"))[:70]))
                    if k == "CXXOperatorCallExpr" and n.get("op") == "=":
                        c = n.get("callee") or {}
                        if c.get("copyassign") and not c.get("trivial"):
                            bad.append((n, "copy-assigns %s" % f.facts.T(n.get("t"))[:70]))
            key = (q, f.o["l"])
            if bad:
                for n, msg in bad[:2]:
                    chk.violation("MOVE-T", A.site(f, n), "MOVE-T:%s" % q.split("::")[-1],
                                  "%s %s: a semantic value is duplicated instead of moved (move-only values stop "
                                  "compiling, others are copied on every parse step)" % (q.split("::")[-1], msg))
            elif key not in seen:
                seen.add(key)
                chk.ok("MOVE-T", A.site(f), "no copy construction / copy assignment of a non-trivial type")
    if n_nontrivial_insts < 10:
        chk.incomplete("MOVE-T: only %d transport instantiations with non-trivial value types in the matrix" % n_nontrivial_insts)


def _is_ok_copy(f, n):
    t = f.facts.T(n.get("t"))
    # by-value parameters of the library that are not semantic values
    return any(x in t for x in ("source_point", "parse_options", "match_options", "string_view", "iterator"))


def move_v(chk, fx):
    chk.rule("MOVE-V", "value hand-over primitives", 5)
    seen = set()
    for f in fx.need("ctpg::term_value::term_value"):
        if f.o.get("implicit") or f.o.get("defaulted") or len(f.o["params"]) != 2:
            continue
        cn = Canon(f)
        init = [i for i in f.o.get("inits", ()) if i.get("member") == "value"]
        txt = cn.c(init[0]["init"]) if init else None
        if txt in ("move($0)", "forward($0)") or (txt or "").endswith("{move($0)}"):
            if "ctor" not in seen:
                seen.add("ctor")
                chk.ok("MOVE-V", A.site(f), "term_value(VT v, sp): value(std::move(v))")
        else:
            chk.violation("MOVE-V", A.site(f), "MOVE-V:term_value::term_value", "the constructor initialises value with %s (a copy)" % txt)
            break
    conv = [f for f in fx.all_fns() if not f.is_pattern and f.o.get("parent") == "ctpg::term_value" and
            f.o["n"].startswith("operator ") and not f.o.get("implicit")]
    by_q = {}
    for f in conv:
        by_q.setdefault(f.o.get("refq", ""), []).append(f)
    rv = by_q.get("&&", [])
    if not rv:
        pats = [f for f in fx.all_fns() if f.is_pattern and f.o.get("parent") == "ctpg::term_value" and
                f.o["n"].startswith("operator ") and f.o.get("refq") == "&&"]
        if not pats:
            chk.violation("MOVE-V", "include/ctpg/ctpg.hpp ctpg::term_value", "MOVE-V:term_value:no-rvalue-conversion",
                          "term_value has no rvalue-qualified conversion to its value: a functor can never take a "
                          "move-only typed-term value")
        else:
            chk.incomplete("rvalue conversion of term_value is never instantiated in the witness matrix")
    for f in rv[:8]:
        cn = Canon(f)
        rets = [cn.c(n["value"]) for n in walk(f.body) if n.get("k") == "ReturnStmt"]
        if rets and all("move(value)" in r for r in rets):
            if "conv" not in seen:
                seen.add("conv")
                chk.ok("MOVE-V", A.site(f), "operator VT() && returns std::move(value)")
        else:
            chk.violation("MOVE-V", A.site(f), "MOVE-V:term_value::operator VT&&", "the rvalue conversion returns %s (a copy)" % rets)
            break
    for q, want in (("ctpg::stdex::cvector::emplace_back", r"\(the_data\[current_size\+\+\] = move\(\$0\)\)"),
                    ("ctpg::stdex::cvector::erase", r"\(\*.+ = move\(\*.+\)\)")):
        f = fx.need(q)[0]
        cn = Canon(f)
        assigns = [cn.c(n) for n in walk(f.body) if (n.get("k") in ("BinaryOperator",) and n.get("op") == "=") or
                   (n.get("k") == "CXXOperatorCallExpr" and n.get("op") == "=")]
        if any(re.fullmatch(want, a) for a in assigns):
            chk.ok("MOVE-V", A.site(f), "%s moves elements" % q.split("::")[-1])
        else:
            chk.violation("MOVE-V", A.site(f), "MOVE-V:%s" % q.split("::")[-1], "%s assigns %s" % (q.split("::")[-1], assigns[:3]))
    g = [x for x in fx.need(P + "context_parse") if len(x.o["params"]) == 4][0]
    cg = Canon(g)
    txt = [cg.c(n) for n in walk(g.body) if n.get("k") == "CXXOperatorCallExpr" and n.get("op") == "=" and "success(" in cg.c(n)]
    if txt and "move(success(" in txt[0]:
        chk.ok("MOVE-V", A.site(g), "the root value is moved into the result optional")
    else:
        chk.violation("MOVE-V", A.site(g), "MOVE-V:result", "the result is produced by %s" % txt)


def move_w(chk, fx):
    chk.rule("MOVE-W", "type-level witness: move-only values instantiate", 2)
    for tu, diag in fx.failed.items():
        if tu.endswith("w_moveonly.cpp"):
            lines = [l.strip()[:220] for l in diag.splitlines() if "error" in l or "note:" in l and "ctpg.hpp" in l][:3]
            if "deleted" in diag or "no matching" in diag or "copy" in diag:
                chk.violation("MOVE-W", "witness/w_moveonly.cpp", "MOVE-W:does-not-compile",
                              "a parser with move-only nonterminal and typed-term values no longer compiles: a copy of a "
                              "semantic value was introduced on the transport path: " + " | ".join(lines))
                return
            chk.incomplete("w_moveonly.cpp does not compile for another reason: " + " | ".join(lines))
    found = {"nterm": False, "term": False}
    for f in fx.fns(VR + "reduce_value_impl"):
        ta = f.o.get("targs") or ""
        if "unique_ptr" in ta:
            found["nterm"] = True
            if "term_value<std::unique_ptr" in ta:
                found["term"] = True
    for k, v in found.items():
        if v:
            chk.ok("MOVE-W", "witness/w_values.cpp", "a parser whose %s values are move-only compiles and is analysed" %
                   ("nonterminal" if k == "nterm" else "typed-term"))
        else:
            chk.incomplete("MOVE-W: no instantiation with move-only %s values (witness/w_values.cpp)" % k)


def raii(chk, fx):
    chk.rule("RAII", "ownership of the value stack", 3)
    g = [x for x in fx.need(P + "context_parse") if len(x.o["params"]) == 4][0]
    vs = [n for n in walk(g.body) if n.get("k") == "Var" and n["n"] == "value_stack" or
          (n.get("k") == "Var" and "parser_value_stack_type" in g.facts.T(n["t"]))]
    if vs and not vs[0].get("ref") and not vs[0].get("staticlocal"):
        chk.ok("RAII", A.site(g, vs[0]), "the value stack is an automatic local of context_parse: destroyed on every exit")
    else:
        chk.violation("RAII", A.site(g), "RAII:value-stack-local", "the value stack is not an automatic local of context_parse")
    for u, r in fx.records("ctpg::stdex::is_cvector_compatible"):
        if r["tmpl"] != "pattern":
            continue
        bases = [u.T(b) for b in r["bases"]]
        if bases and "is_trivially_destructible" in bases[0]:
            chk.ok("RAII", "include/ctpg/ctpg.hpp:%s ctpg::stdex::is_cvector_compatible" % r["l"],
                   "cvector is available only for trivially destructible element types")
        else:
            chk.violation("RAII", "include/ctpg/ctpg.hpp:%s ctpg::stdex::is_cvector_compatible" % r["l"],
                          "RAII:is_cvector_compatible", "cvector compatibility is %s: elements with destructors would "
                          "never be destroyed (cvector::erase/pop_back only move the size)" % bases)
        break
    # in every instantiation with a cvector value stack the variant is trivially destructible
    n = 0
    for f in fx.need(P + "reduce"):
        ta = f.o.get("targs") or ""
        m = re.search(r"parse_state<ctpg::stdex::cvector<[^,]+, \d+>, (ctpg::stdex::cvector<std::variant<.*)$", ta)
        if m:
            n += 1
            if "basic_string<" in m.group(1).split("ctpg::utils::no_stream")[0] and "string_view" not in m.group(1):
                chk.violation("RAII", A.site(f), "RAII:cvector-of-nontrivial", "a cvector value stack holds a non-trivial variant")
                return
    chk.ok("RAII", "include/ctpg/ctpg.hpp " + P + "reduce", "%d instantiation(s) with a cvector value stack: all variants trivially destructible" % n)


def pre(chk):
    from . import c19
    c19.hlp_t(chk, ("clang++",))
