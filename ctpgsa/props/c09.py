"""C09 — failures are reported once, at the right place, and never silently.

Uses the driver relation extracted by ctpgsa/drv.py (as C08) and asks the reporting questions of it:
 REP-1  'Syntax error' is written only on the normal -> recovery edge, exactly once per edge; no other row of the
        relation writes a report
 REP-2  'Unexpected character' is written only by get_current_term, exactly once, immediately before it returns
        the failure sentinel; the driver then leaves the loop without any further action
 REP-3  without error rules an error entry ends the parse: after the report the parse can only pop (no input is
        examined, no value is produced) until it fails
 REP-4  input is consumed only by a shift (directly after it) or, in consume mode, by the documented discard
 REP-5  the result optional is written only on the success edge and is what the function returns; every other
        exit returns it empty
 REP-6  the messages name the pending term / the offending character and start with the current source point
 EFF-V1 (from C16) a parse that never takes the error edge writes nothing unless verbose
Not decided: that an error entry is met exactly when the input is not in the language, at the first offending
term (canonical LR(1) viable-prefix property of the table: C01).
"""
from .. import astq as A
from .. import drv
from .. import flow
from .. import graph as G
from .. import absint as AI
from . import c08, c16
from ..facts import walk, strip

P = "ctpg::parser::"
PS = "ctpg::detail::parse_state::"


def check(chk, fx):
    chk.explanation = (
        "The same finite-domain extraction of the driver's transition relation as C08, queried for reporting: which "
        "rows write which report, what the driver does after a lexer failure, where input is consumed and where the "
        "result is produced. Message contents are checked on the resolved << chains. All of it is per construct and "
        "holds for every grammar and input; that error entries sit exactly where the input leaves the language is a "
        "property of the LR(1) table (C01) and not decided here.")
    chk.rule("REP-1", "rows of the driver relation that may write 'Syntax error'", 10)
    chk.rule("REP-2", "lexer-failure rows", 2)
    chk.rule("REP-4", "rows that consume input", 3)
    cps = [f for f in fx.need(P + "context_parse") if len(f.o["params"]) == 4]
    f = cps[0]
    table, lp = drv.transition_table(fx, f)
    site = A.site(f, lp)
    seen = set()
    for (R, C, kind, lf, em, eo), outs in sorted(table.items()):
        if c08.expected(R, C, kind, lf, em, eo) is None:
            continue
        for (r2, c2, log, ex) in outs:
            nrep = log.count("report")
            want = 1 if (R == 0 and C == 0 and kind == "error" and not lf) else 0
            k = ("r1", R, C, kind, lf)
            if nrep != want:
                chk.violation("REP-1", site, "REP-1:R%d-C%d-%s" % (R, C, kind),
                              "recovery=%d consume=%d entry=%s writes %d 'Syntax error' report(s), documented %d" % (
                                  R, C, kind, nrep, want))
            elif k not in seen:
                seen.add(k)
                chk.ok("REP-1", site, "recovery=%d consume=%d entry=%s%s: %d report(s)" % (
                    R, C, kind, " lexer-failure" if lf else "", nrep))
            if "lexreport" in log:
                chk.violation("REP-2", site, "REP-2:driver-writes-lexreport",
                              "the driver itself writes 'Unexpected character' (row recovery=%d consume=%d %s)" % (R, C, kind))
            if lf:
                k = ("r2", R, C)
                if log != () or ex != "break":
                    chk.violation("REP-2", site, "REP-2:after-lexer-failure:R%d-C%d" % (R, C),
                                  "after a lexer failure the driver performs %s and exits by %s instead of leaving the "
                                  "loop at once" % (list(log), ex))
                elif k not in seen:
                    seen.add(k)
                    chk.ok("REP-2", site, "recovery=%d consume=%d: lexer failure leaves the loop without any action" % (R, C))
            # consumption
            for i, a in enumerate(log):
                if a == "consume":
                    okc = (i > 0 and log[i - 1] == "shift") or (C == 1 and kind == "error" and log == ("consume",))
                    k = ("r4", R, C, kind)
                    if not okc:
                        chk.violation("REP-4", site, "REP-4:R%d-C%d-%s" % (R, C, kind),
                                      "input is consumed without a shift entry for it (actions %s)" % list(log))
                    elif k not in seen:
                        seen.add(k)
                        chk.ok("REP-4", site, "recovery=%d consume=%d entry=%s: term consumed %s" % (
                            R, C, kind, "right after its shift" if i > 0 else "by the documented discard"))
            if "shift" in log and "consume" not in log:
                chk.violation("REP-4", site, "REP-4:shift-without-consume:R%d-C%d" % (R, C),
                              "a term is shifted but not consumed: it would be shifted again")
    rep3(chk, fx, table, site)
    rep5(chk, fx, f, lp)
    rep6(chk, fx)
    # GCT (lexreport exactly once before the sentinel) is part of this property too
    chk.rule("GCT", "abstract cases of get_current_term", 8)
    c08.gct(chk, fx)
    eff_v1(chk, fx)
    # "empty exactly when not in the language / first offending term" rests on the table: its structural rules are
    # necessary conditions here too (not sufficient: see DESIGN.md)
    from .. import lr, lexrules
    lr.all_table_rules(chk, fx)
    # the position reported for an offending byte / term rests on the lexeme extents: the matcher's snapshot rule
    lexrules.match(chk, fx)
    # what is skipped silently before a term is looked for (a NUL or any non-space byte must be reported, not skipped)
    from . import c04
    c04.ws(chk, fx)
    # positions and extents are computed in integers that must not wrap (lexeme lengths, line / column)
    from .. import width
    width.check(chk, fx, classes=("LEN", "LINECOL"), minimum=10)
    # the names printed in "Unexpected <term>" come from the term getters
    from .. import termrules
    termrules.termapi(chk, fx)
    from .. import primrules
    primrules.prims(chk, fx, "UTIL", "TVAL")
    primrules.prims(chk, fx, "NAMEFILL")


def rep3(chk, fx, table, site):
    chk.rule("REP-3", "after the error edge only pops follow when the error column is empty", 1)
    # from (1,0) with an error entry (error column empty = no error rules): next rows are pops until break
    bad = []
    for (R, C, kind, lf, em, eo), outs in table.items():
        if R == 1 and C == 0 and kind == "error" and not lf:
            for (r2, c2, log, ex) in outs:
                if (r2, c2) != (1, 0) or any(a not in ("pop-cursor", "pop-value") for a in log):
                    bad.append((log, ex))
                if em and ex != "break":
                    bad.append((log, ex))
    if bad:
        chk.violation("REP-3", site, "REP-3:recovery-without-error-rules",
                      "in recovery mode with an empty error column the driver does more than pop: %s" % bad[:3])
    else:
        chk.ok("REP-3", site, "recovery mode + error entry: only pops, stays in recovery mode, ends when the stack is "
                              "empty (so exactly one report per failing parse without error rules)")


def rep5(chk, fx, f, lp):
    chk.rule("REP-5", "the returned optional is written only on the success edge", 2)
    body = f.body.get("c") or []
    rets = [s for s in body if s.get("k") == "ReturnStmt"]
    if len(rets) != 1 or body[-1] is not rets[0]:
        chk.incomplete("context_parse: expected a single return as the last statement")
    rv = A.declref(rets[0].get("value"))
    if rv is None:
        # return of a moved / copied local
        for n in walk(rets[0]):
            if n.get("k") == "DeclRefExpr" and n["d"]["k"] == "Var":
                rv = n["d"]
                break
    if rv is None:
        chk.incomplete("context_parse: the returned expression is not a local variable")
    decl = [n for n in walk(f.body) if n.get("k") == "Var" and n["id"] == rv["id"]]
    if not decl:
        chk.incomplete("context_parse: declaration of the returned variable not found")
    init = strip(decl[0].get("init"))
    empty_init = init is None or (init.get("k") == "CXXConstructExpr" and not (init.get("c") or []))
    if empty_init:
        chk.ok("REP-5", A.site(f, decl[0]), "'%s' starts as an empty optional" % rv["n"])
    else:
        chk.violation("REP-5", A.site(f, decl[0]), "REP-5:result-initialised", "the result optional is initialised non-empty")
    n_w = 0
    for st, guards in G.guarded_statements(lp.get("body")):
        wr = False
        for n in walk(st) if st.get("k") not in ("IfStmt", "WhileStmt", "ForStmt") else []:
            if n.get("k") == "CXXOperatorCallExpr" and n.get("op") == "=" and A.declref_id(n["c"][1]) == rv["id"]:
                wr = True
            if n.get("k") == "CXXMemberCallExpr" and A.declref_id(A.call_object(n)) == rv["id"] and \
                    not (n.get("callee") or {}).get("const"):
                wr = True
        if not wr:
            continue
        n_w += 1
        under_success = False
        for gk, gn, arm in guards:
            if gk == "if" and arm == "then":
                for alt in flow.cond_atoms(gn["cond"], True):
                    for _, c, o in alt:
                        a = AI.atom(c)
                        if a[0] == "cmp" and a[1] == "==" and o and "success" in (_enum_name(c) or ""):
                            under_success = True
        has_success_call = any(A.is_call(n, q=P + "success") for n in walk(st))
        if under_success and has_success_call:
            chk.ok("REP-5", A.site(f, st), "result written from success(ps) under entry.kind == success")
        else:
            chk.violation("REP-5", A.site(f, st), "REP-5:result-written-elsewhere",
                          "the result optional is written outside the success edge")
    if n_w != 1:
        chk.violation("REP-5", A.site(f, lp), "REP-5:writes=%d" % n_w, "the result optional is written %d times" % n_w)


def _enum_name(cond):
    for n in walk(cond):
        if n.get("k") == "DeclRefExpr" and n["d"]["k"] == "EnumConstant":
            return n["d"]["n"]
    return None


def rep6(chk, fx):
    chk.rule("REP-6", "contents of the two failure messages", 2)
    done = set()
    for name, must in (("syntax_error", ("Syntax error", PS + "current_term_idx")),
                       ("unexpected_char", ("Unexpected character", PS + "current_it"))):
        for f in fx.need(P + name):
            writes = [st for st, g in G.guarded_statements(f.body) if c16.is_stream_write(st)]
            if len(writes) != 1:
                chk.violation("REP-6", A.site(f), "REP-6:%s:count" % name, "%d messages instead of one" % len(writes))
                continue
            root, ops = c16.chain(writes[0])
            text = "".join(c16._string_of(o) or "" for o in ops)
            # operands in canonical form: a one-expression helper (current_term_name(ps)) is a name for its expression
            from ..canon import Canon
            cn = Canon(f)
            texts = [cn.c(o) for o in ops]
            first_sp = texts[0].endswith(".current_sp") if texts else False
            if name == "syntax_error":
                named = any(t == "term_names[$0.current_term_idx]" for t in texts)
            else:
                named = any("*$0.current_it" in t for t in texts)
            if must[0] in text and first_sp and named:
                if name not in done:
                    done.add(name)
                    chk.ok("REP-6", A.site(f, writes[0]), "'%s' message: position first, names %s" % (
                        must[0], "term_names[current_term_idx]" if name == "syntax_error" else "*current_it"))
            else:
                chk.violation("REP-6", A.site(f, writes[0]), "REP-6:%s:content" % name,
                              "message text '%s' / position-first=%s / names-offender=%s" % (text[:60], first_sp, named))
        # dereference in unexpected_char is safe only when not at the end: GCT shows the at-end case returns <eof> first


def eff_v1(chk, fx):
    """A successful non-verbose parse writes nothing: every stream write on the parse path is verbose-guarded except
    the two reports whose rows REP-1/REP-2 pin down (the full rule lives in C16; this is the C09 part)."""
    chk.rule("QUIET", "unguarded stream writes on the parse path", 2)
    roots = [f for f in fx.need(P + "context_parse") if len(f.o["params"]) == 4]
    reach = [g for g in G.reachable(roots) if not g.is_pattern]
    seen = set()
    for g in reach:
        q = g.o["q"]
        if q.startswith("ctpg::utils::no_stream") or q.startswith("ctpg::operator<<"):
            continue
        for st, guards in G.guarded_statements(g.body):
            if not c16.is_stream_write(st):
                continue
            vg = [gn for gk, gn, arm in guards if gk == "if" and c16.mentions_verbose(gn["cond"]) and arm == "then"]
            if vg:
                continue
            name = q.split("::")[-1]
            k = (q, st.get("l"))
            if name in ("syntax_error", "unexpected_char"):
                if k not in seen:
                    seen.add(k)
                    chk.ok("QUIET", A.site(g, st), "unguarded write is the documented %s report" % name)
            elif name.startswith("write_") or "diag" in name or "(lambda@" in q:
                continue
            elif q.startswith("ctpg::regex::regex_lexer") or q.startswith("ctpg::regex::dfa_match"):
                chk.violation("QUIET", A.site(g, st), "QUIET:%s" % q, "lexer writes to the stream without a verbose test")
            else:
                chk.violation("QUIET", A.site(g, st), "QUIET:%s" % q,
                              "stream write on the parse path without a verbose test: a successful parse is not silent")
