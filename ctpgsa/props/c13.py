"""C13 — context_parse hands the caller's context to exactly the contextual functors.

 CTX-R  every parameter that carries the context along context_parse -> reduce / rr_conflict ->
        value_reductors::invoke -> (function pointer) -> reduce_value -> reduce_value_impl is a reference, and every
        argument on the chain is std::forward<Context>(that parameter): no copy, temporary or conversion of the
        context is ever materialised (identity and constness preserved)
 CTX-C  no object of the context's type is constructed anywhere on the chain
 CTX-F  reduce_value_impl passes the context as first argument iff the rule was attached with >>= (ARGS, all arms)
 CTX-O  operator>>= builds rule<true,...>, operator>=, nterm::operator() and the constructors rule<false,...>,
        operator[] keeps the flag
 CTX-T  the "contextual" flag and the functor type of a rule travel unchanged from the rule's type to the reductor stored
        for it: init_nth_reductor<Nr, RC, F, ...> stores &reduce_value<Nr, RC, F, ...>, which calls
        reduce_value_impl<RC, F, ...> (compared on the template arguments of every instantiation, including a
        contextual functor that could also be called without the context)
 CTX-P  parse(...) is context_parse(no_type{}, ...): same result for grammars that ignore the context
"""
import re

from .. import astq as A
from ..canon import Canon
from ..facts import walk, strip
from . import c02

P = "ctpg::parser::"
VR = "ctpg::detail::value_reductors::"


def check(chk, fx):
    chk.explanation = (
        "The context travels through six functions and one function-pointer type. In every instantiation of the "
        "witness matrix (context passed as lvalue, const lvalue, prvalue, move-only rvalue, non-copyable lvalue) each "
        "carrying parameter is a reference and each hand-over is std::forward of exactly that parameter; nothing of "
        "the context's type is constructed on the way. Which functor gets the context is decided over all three arms "
        "of reduce_value_impl; which rules are contextual by the return types of the rule operators. This is a proof "
        "of identity/constness preservation for the stated context categories; order of reductions is C02.")
    chk.level = "proof"
    ctx_r(chk, fx)
    c02.args(chk, fx)
    ctx_o(chk, fx)
    ctx_p(chk, fx)
    ctx_t(chk, fx)
    from .. import primrules
    primrules.prims(chk, fx, "OVL")


CHAIN = [
    # (function, index of the context parameter, callees that must receive forward($idx) as FIRST argument)
    (P + "context_parse", 0, {2: ["context_parse"], 3: ["context_parse"], 4: ["reduce", "rr_conflict"]}),
    (P + "reduce", 0, ["invoke"]),
    (P + "rr_conflict", 0, ["reduce"]),
    (VR + "invoke", 0, ["<indirect>"]),
    (VR + "reduce_value", 0, ["reduce_value_impl"]),
]


def ctx_r(chk, fx):
    chk.rule("CTX-R", "context-carrying parameters and hand-overs", 8)
    chk.rule("CTX-C", "no construction of a context object on the chain", 5)
    seen = set()
    categories = set()
    for q, pidx, callees in CHAIN:
        fns = fx.need(q)
        for f in fns:
            params = f.o["params"]
            if isinstance(callees, dict):
                cl = callees.get(len(params))
                if cl is None:
                    continue
            else:
                cl = callees
            p = params[pidx]
            ptype = f.facts.T(p["t"])
            site = A.site(f)
            key = (q, len(params))
            ctx_type = ptype.replace("&&", "").replace("&", "").replace("const ", "").strip()
            categories.add(("const " if "const " in ptype else "") + ("&&" if p.get("ref") == "&&" else "&" if p.get("ref") == "&" else "value"))
            if not p.get("ref"):
                chk.violation("CTX-R", site, "CTX-R:%s:by-value" % q.split("::")[-1],
                              "%s takes the context by value (%s): functors work on a copy / moved-from object, the "
                              "caller's object is not the one they see" % (q.split("::")[-1], ptype[:60]))
                continue
            cn = Canon(f)
            n_calls = 0
            for n in walk(f.body):
                target = None
                if n.get("k") in ("CallExpr", "CXXMemberCallExpr"):
                    c = n.get("callee")
                    if c is not None and c["n"] in cl:
                        target = c["n"]
                    elif c is None and "<indirect>" in cl:
                        target = "<indirect>"
                if target is None:
                    continue
                args = n["c"][1:]
                if not args:
                    continue
                n_calls += 1
                a0 = cn.c(args[0])
                if a0 == "forward($%d)" % pidx:
                    if (key, target) not in seen:
                        seen.add((key, target))
                        chk.ok("CTX-R", A.site(f, n), "%s(%d params) hands std::forward<Context>(ctx) to %s" % (
                            q.split("::")[-1], len(params), target))
                else:
                    chk.violation("CTX-R", A.site(f, n), "CTX-R:%s:%s" % (q.split("::")[-1], target),
                                  "%s passes %s to %s instead of std::forward<Context>(its context parameter): the "
                                  "callee does not receive the caller's object" % (q.split("::")[-1], a0[:60], target))
            if n_calls == 0:
                chk.incomplete("%s (%d params): hand-over call not found" % (q, len(params)))
            # CTX-C: nothing of the context's type is constructed here
            made = []
            for n in walk(f.body):
                if n.get("k") in ("CXXConstructExpr", "CXXTemporaryObjectExpr") or (n.get("k") == "Var" and not n.get("ref")):
                    t = f.facts.T(n.get("t")).replace("const ", "").strip()
                    if t == ctx_type and ctx_type not in ("ctpg::no_type",) and n.get("k") != "Var":
                        made.append(n)
                    if n.get("k") == "Var" and t in (ctx_type, "Context") and ctx_type != "ctpg::no_type":
                        made.append(n)
            if made:
                chk.violation("CTX-C", A.site(f, made[0]), "CTX-C:%s" % q.split("::")[-1],
                              "%s constructs an object of the context type %s: functors see that object, not the caller's"
                              % (q.split("::")[-1], ctx_type[:50]))
            elif ("c", key) not in seen:
                seen.add(("c", key))
                chk.ok("CTX-C", site, "no object of the context type is constructed")
    # reduce_value_impl's parameter and the function-pointer type
    for f in fx.need(VR + "reduce_value_impl"):
        p = f.o["params"][0]
        if not p.get("ref"):
            chk.violation("CTX-R", A.site(f), "CTX-R:reduce_value_impl:by-value", "reduce_value_impl takes the context by value")
            break
    else:
        chk.ok("CTX-R", "include/ctpg/ctpg.hpp " + VR + "reduce_value_impl", "context parameter is a reference in every instantiation")
    for u, r in fx.records("ctpg::detail::value_reductors"):
        if r["tmpl"] != "pattern":
            continue
        for m in r["members"]:
            if m["k"] == "alias" and m["n"] == "value_reductor":
                t = u.T(m["t"])
                first = t[t.find("(*)(") + 4:].split(",")[0].strip()
                if first.endswith("&&") or first.endswith("&"):
                    chk.ok("CTX-R", "include/ctpg/ctpg.hpp:%s value_reductors::value_reductor" % m["l"],
                           "the reductor function-pointer type takes %s" % first)
                else:
                    chk.violation("CTX-R", "include/ctpg/ctpg.hpp:%s value_reductors::value_reductor" % m["l"],
                                  "CTX-R:value_reductor:by-value", "the reductor function-pointer type takes the context as %s" % first)
        break
    need = {"&", "&&", "const &"}
    if not need <= categories and not chk.violations:
        chk.incomplete("context categories witnessed: %s (need lvalue, const lvalue, rvalue)" % sorted(categories))
    chk.note("context categories witnessed: %s" % sorted(categories))


def ctx_o(chk, fx):
    chk.rule("CTX-O", "contextual flag produced by the rule operators", 4)
    seen = set()
    for tu, diag in fx.failed.items():
        if tu.endswith("w_ctxflag.cpp"):
            lines = [l.strip()[:200] for l in diag.splitlines() if "error" in l][:2]
            chk.violation("CTX-O", "witness/w_ctxflag.cpp", "CTX-O:witness-does-not-compile",
                          "(rule >>= f)[n] / rule[n] >>= f with a functor that requires the context no longer compiles: the "
                          "contextual flag is lost by a rule operator: " + " | ".join(lines))
    want = {"operator>>=": "true", "operator>=": "false"}
    for name, flag in want.items():
        for f in fx.need("ctpg::detail::rule::" + name):
            ret = f.facts.T(f.o["ret"])
            m = re.match(r"(?:ctpg::)?(?:detail::)?rule<(true|false),", ret)
            if not m:
                chk.incomplete("rule::%s returns %s" % (name, ret[:60]))
            if m.group(1) == flag:
                if name not in seen:
                    seen.add(name)
                    chk.ok("CTX-O", A.site(f), "%s yields rule<%s, ...>" % (name, flag))
            else:
                chk.violation("CTX-O", A.site(f), "CTX-O:%s" % name, "%s yields rule<%s, ...>: %s functors %s the context" % (
                    name, m.group(1), "contextual" if flag == "true" else "plain", "never get" if flag == "true" else "would get"))
                break
    for f in fx.need("ctpg::detail::rule::operator[]"):
        ret = f.facts.T(f.o["ret"])
        own = re.search(r"rule<(true|false),", f.full)
        got = re.match(r"(?:ctpg::)?(?:detail::)?rule<(true|false),", ret)
        if own and got and own.group(1) == got.group(1):
            if "[]" not in seen:
                seen.add("[]")
                chk.ok("CTX-O", A.site(f), "operator[] keeps the contextual flag")
        elif own and got:
            chk.violation("CTX-O", A.site(f), "CTX-O:operator[]", "operator[] turns rule<%s> into rule<%s>" % (own.group(1), got.group(1)))
            break
    for f in fx.need("ctpg::nterm::operator()")[:30]:
        ret = f.facts.T(f.o["ret"])
        if re.match(r"(?:ctpg::)?(?:detail::)?rule<false, (?:std::)?nullptr_t,", ret):
            if "()" not in seen:
                seen.add("()")
                chk.ok("CTX-O", A.site(f), "a rule written without a functor is rule<false, nullptr_t, ...>")
        else:
            chk.violation("CTX-O", A.site(f), "CTX-O:nterm::operator()", "nterm::operator() yields %s" % ret[:80])
            break


def ctx_p(chk, fx):
    chk.rule("CTX-P", "parse delegates to context_parse with an empty context", 3)
    seen = set()
    for f in fx.need(P + "parse"):
        cn = Canon(f)
        rets = [cn.c(n["value"]) for n in walk(f.body) if n.get("k") == "ReturnStmt"]
        n = len(f.o["params"])
        ok = False
        # canonical forms replace a one-expression member by its expression, so every overload shows where it ends up:
        # context_parse(no_type{}, <the options or default options>, <the buffer>, <the stream or a local no_stream>)
        if n == 3:
            ok = rets == ["context_parse(no_type{}, $0, $1, $2)"]
        elif n == 2:
            ok = len(rets) == 1 and (re.fullmatch(r"parse\(parse_options\{.*\}, \$0, \$1\)", rets[0]) is not None or
                                     re.fullmatch(r"context_parse\(no_type\{\}, parse_options\{[^{}]*\}, \$0, \$1\)", rets[0]) is not None)
        elif n == 1:
            ok = len(rets) == 1 and (re.fullmatch(r"parse\(\$0, \?\w+\)", rets[0]) is not None or
                                     re.fullmatch(r"context_parse\(no_type\{\}, parse_options\{[^{}]*\}, \$0, \?\w+\)", rets[0]) is not None)
        if ok:
            if n not in seen:
                seen.add(n)
                chk.ok("CTX-P", A.site(f), "parse/%d -> %s" % (n, rets[0][:60]))
        else:
            chk.violation("CTX-P", A.site(f), "CTX-P:parse/%d" % n, "parse with %d parameter(s) returns %s" % (n, rets))


# ------------------------------------------------------------------------------------------------- CTX-T
def _targs(f):
    return [a.strip() for a in (f.o.get("targs") or "").split(" | ")]


def ctx_t(chk, fx):
    chk.rule("CTX-T", "instantiations in which the contextual flag / functor type reach the stored reductor unchanged", 20)
    seen = set()
    variadic = False
    for f in fx.fns(VR + "init_nth_reductor"):
        if f.is_pattern:
            continue
        ta = _targs(f)
        if len(ta) < 3:
            chk.incomplete("CTX-T: template arguments of init_nth_reductor not recorded")
        refs = [n for n in walk(f.body) if n.get("k") == "DeclRefExpr" and n["d"]["k"] in ("Function", "CXXMethod") and
                n["d"]["n"] == "reduce_value"]
        if len(refs) != 1:
            chk.incomplete("CTX-T: init_nth_reductor does not take the address of exactly one reduce_value")
        g = f.facts.by_id.get(refs[0]["d"]["id"])
        if g is None:
            chk.incomplete("CTX-T: the stored reduce_value instantiation has no body in this TU")
        tg = _targs(g)
        key = (tuple(ta[:3]), tuple(tg[:3]))
        if key in seen:
            continue
        seen.add(key)
        site = A.site(f, refs[0])
        if ta[:3] == tg[:3]:
            chk.ok("CTX-T", site, "rule %s (contextual=%s) stores reduce_value<%s, %s, ...>" % (ta[0], ta[1], tg[0], tg[1]))
        else:
            chk.violation("CTX-T", site, "CTX-T:init_nth_reductor",
                          "the rule is rule<%s, %s, ...> (number %s) but the stored reductor is reduce_value<%s, %s, %s, "
                          "...>: the functor %s the context" % (ta[1], ta[2][:60], ta[0], tg[0], tg[1], tg[2][:60],
                                                                "is called WITHOUT" if ta[1] == "true" else "is handed"))
        # second hop
        calls = [n for n in walk(g.body) if n.get("k") == "CallExpr" and (n.get("callee") or {}).get("n") == "reduce_value_impl"]
        if len(calls) != 1:
            chk.incomplete("CTX-T: reduce_value does not call reduce_value_impl exactly once")
        h = g.facts.by_id.get(calls[0]["callee"]["id"])
        if h is None:
            chk.incomplete("CTX-T: reduce_value_impl instantiation not found")
        th = _targs(h)
        if th[:2] == tg[1:3]:
            chk.ok("CTX-T", A.site(g, calls[0]), "reduce_value<%s, %s> calls reduce_value_impl<%s, ...>" % (tg[0], tg[1], th[0]))
        else:
            chk.violation("CTX-T", A.site(g, calls[0]), "CTX-T:reduce_value",
                          "reduce_value<%s, %s, %s...> calls reduce_value_impl<%s, %s...>" % (
                              tg[0], tg[1], tg[2][:50], th[0], th[1][:50]))
    # the witness that makes the rule bite: a '>>=' functor invocable with and without the context
    opt_ok = not any(t.endswith("w_ctxflag.cpp") for t in getattr(fx, "failed", {}))
    if opt_ok:
        n_ctx = [k for k in seen if k[0][1] == "true" and "w_ctxflag.cpp" in k[0][2]]
        if len(n_ctx) < 3:
            chk.incomplete("CTX-T: the three contextual rules of witness/w_ctxflag.cpp were not all instantiated")


def pre(chk):
    """Type-level facts about what the rule operators build (stored functor type, contextual flag, right-side items):
    decided before the witness grammars are extracted."""
    from .. import tlw
    tlw.run(chk, "RULE-T", "w_ruletype.cpp")
