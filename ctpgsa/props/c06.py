"""C06 — parsing any byte string is memory-safe and terminates (decided clauses; see DESIGN.md 5/C06)."""
from .. import caprules, idxrule, lexrules, saferules

P = "ctpg::parser::"


def check(chk, fx):
    chk.explanation = (
        "Decided, for every input and grammar: a lexer result's length is used only where its term index was tested "
        "valid (TAG); fixed-capacity containers test their capacity before growing and bitsets their index (CAP-K/B), "
        "the new-state index is below the cap (CAP-ST); byte tables are indexed through char_to_idx (CHARIDX); a value "
        "of index space X only indexes arrays of dimension X (IDX); sentinel-carrying values are compared with the "
        "sentinel before being used as indices (SENT); moving iterators are compared with the end before every "
        "dereference and the scans advance every iteration (ITER, MATCH); the top of the stack is read only when "
        "non-empty in pop_stacks (EMPTY); the fixed parse stacks are accounted for (CAP-S: two known findings, loud "
        "since the cvector fix). Not decided: termination of the driver loop and the stack bounds that follow from LR "
        "table invariants; the iterator discipline inside regex_lexer.")
    lexrules.tag(chk, fx)
    caprules.cap_k(chk, fx)
    caprules.cap_state(chk, fx)
    caprules.cap_s(chk, fx)
    lexrules.charidx(chk, fx)
    saferules.sent(chk, fx)
    lexrules.iter_rule(chk, fx)
    lexrules.match(chk, fx)
    saferules.empty_guard(chk, fx)
    saferules.posb(chk, fx)
    from .. import primrules
    primrules.prims(chk, fx, "CVEC2", "BUFIT", "UTIL")
    from .. import golden, goldenreg
    golden.group(chk, fx, "CVEC", "reference summaries of the fixed-capacity vector primitives", goldenreg.GROUPS["CVEC"])
    # the value slice handed to a functor must be taken from the stack as it is when the functor runs: the order
    # uncover-goto-invoke-erase-push of reduce and the lock-step of the two stacks (C02's ONCE / LOCK)
    from . import c02
    c02.once(chk, fx)
    c02.lock(chk, fx)
    lexrules.lenw(chk, fx)
    from .. import ownrules
    ownrules.bufref(chk, fx, 6)       # views into a copied buffer dangle
    # the driver never consumes the <eof> term and leaves the discard loop at the end of input: rows of the driver's
    # transition relation (C08) are necessary for "terminates, never reads outside the caller's buffer"
    from . import c08
    chk.rule("DRV", "rows of the driver's transition relation (modes x entry kind x exits)", 20)
    c08.modes(chk, fx, c08.check_table(chk, fx, "DRV"))
    from .. import deporder, goldenreg as _gr
    deporder.group(chk, fx, "DEPORD", "dependence order of statements (lexer, matcher and driver)", sorted(set(_gr.DEP_GROUPS["LEX"] + _gr.DEP_GROUPS["DRV"])))
    from .. import width
    width.check(chk, fx, classes=("LEN", "DEPTH"), minimum=8)
    idxrule.report(chk, fx, lambda q: q.startswith("ctpg::"), "whole header", 40)


def pre(chk):
    """Type-level facts about what the rule operators build (stored functor type, contextual flag, right-side items):
    decided before the witness grammars are extracted."""
    from .. import tlw
    tlw.run(chk, "RULE-T", "w_ruletype.cpp")
