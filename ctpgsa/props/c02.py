"""C02 — the parse result is the bottom-up evaluation of the input's derivation tree.

 LOCK    every driver action changes the cursor stack and the value stack by the same amount (shift +1/+1,
         error-token shift +1/+1, reduce -r+1/-r+1 with the same r everywhere, pop -1/-1), initial offset 1
 ONCE    reduce: exactly one functor invocation per reduction, on the r topmost values, before they are erased,
         its result pushed afterwards; goto taken from the uncovered state and the rule's left side
 ARGS    reduce_value_impl calls the functor exactly once in each arm with std::get<T_k>(std::move(*(start + k)))
         for k = 0..n-1 in order; the default (nullptr) arm constructs the left-side value from them
 TERMV   a term's value is its own functor applied to the lexeme view (SLICE), with the current source point
 RESULT  success returns the value at the bottom of the value stack
 IDX/TIX reductor chosen by rule number as written, goto column by the rule's nonterminal, term functor by term
 + MATCH (lexeme extents) and the table rules (which reductions happen) as necessary conditions
Not decided: that the table drives exactly the derivation's reductions (C01).
"""
import re

from .. import astq as A
from .. import absint as AI
from .. import flow
from .. import idxrule
from .. import lexrules
from .. import lr
from .. import tix
from ..canon import Canon
from ..facts import walk, strip
from . import c08

P = "ctpg::parser::"
VR = "ctpg::detail::value_reductors::"


def check(chk, fx):
    chk.explanation = (
        "The evaluation discipline of the driver is decided structurally on the resolved bodies: both stacks move in "
        "lock-step in every action, a reduction invokes the rule's own functor exactly once on exactly the r topmost "
        "values in right-side order before erasing them and pushes the result, terms get their own functor applied to "
        "the exact lexeme view, the result is the bottom value. Index-space typing shows rule numbers, sorted rule "
        "positions, states and terms are not confused. Which reductions happen is the table's business (C01); its "
        "decided structural rules and the lexer's snapshot rule are included as necessary conditions.")
    lock(chk, fx)
    once(chk, fx)
    args(chk, fx)
    termv(chk, fx)
    result(chk, fx)
    lexrules.match(chk, fx)
    lexrules.slice_rule(chk, fx)
    from .. import golden, goldenreg
    golden.group(chk, fx, "CVEC", "reference summaries of the fixed-capacity vector primitives (stack operations)",
                 goldenreg.GROUPS["CVEC"])
    # the documented helper functors are rule functors too: their type-level witness and pattern rules (C19)
    from . import c19
    c19.hlp_t(chk, ("clang++",))
    c19.hlp_a(chk, fx)
    from .. import deporder, goldenreg as _gr
    deporder.group(chk, fx, "DEPORD", "dependence order of statements (driver: shift / reduce / stacks)", _gr.DEP_GROUPS["DRV"])
    from .. import ownrules
    ownrules.fcopy(chk, fx, 100)      # "each rule's functor is called": the stored object, not a copy of it
    from .. import cexrules
    cexrules.buf(chk, fx)             # the three buffer classes: begin / end / get_view mean the same slice
    from .. import primrules
    primrules.prims(chk, fx, "CVEC2", "BUFIT", "TVAL", "UTIL", "GAPI")
    primrules.prims(chk, fx, "GAPI2")
    lr.all_table_rules(chk, fx)
    tix.report(chk, fx)
    idxrule.report(chk, fx, lambda q: q.startswith(P) or q.startswith("ctpg::detail::value_reductors"),
                   "driver, reductors and table construction", 20)


def _stack_ops(f, cn):
    """[(stack, op, canonical args, node)] in source order for cursor/value stack mutations."""
    out = []
    for n in walk(f.body):
        if n.get("k") != "CXXMemberCallExpr":
            continue
        name = (n.get("callee") or {}).get("n")
        if name not in ("push_back", "emplace_back", "pop_back", "erase", "clear"):
            continue
        names = A.field_names(A.access_path(A.call_object(n)))
        st = "cursor" if "cursor_stack" in names else ("value" if "value_stack" in names else None)
        if st:
            out.append((st, name, [cn.c(a) for a in A.call_args(n)], n))
    return out


def lock(chk, fx):
    chk.rule("LOCK", "stack-mutating driver functions keep both stacks in step", 4)
    # shift / shift_recovery_token: +1 / +1 unconditionally
    for name in ("shift", "shift_recovery_token"):
        f = fx.need(P + name)[0]
        cn = Canon(f)
        ops = _stack_ops(f, cn)
        sig = sorted((s, o) for s, o, a, n in ops)
        uncond = all(not [g for g in cn.guards(n)] for s, o, a, n in ops)
        if sig == [("cursor", "push_back"), ("value", "emplace_back")] and uncond:
            chk.ok("LOCK", A.site(f), "%s: one state and one value pushed on every path" % name)
        else:
            chk.violation("LOCK", A.site(f), "LOCK:%s" % name,
                          "%s changes the stacks by %s%s" % (name, sig, "" if uncond else " (conditionally)"))
    # reduce
    f = fx.need(P + "reduce")[0]
    cn = Canon(f)
    ops = _stack_ops(f, cn)
    R = "gi.rule_infos[$2].r_elements"
    want = [("cursor", "erase", ["($1.cursor_stack.end() - %s)" % R, "$1.cursor_stack.end()"]),
            ("cursor", "push_back", None),
            ("value", "erase", ["($1.value_stack.end() - %s)" % R, "$1.value_stack.end()"]),
            ("value", "emplace_back", None)]
    got = [(s, o, a) for s, o, a, n in ops]
    good = len(got) == 4 and all(g[0] == w[0] and g[1] == w[1] and (w[2] is None or g[2] == w[2]) for g, w in zip(got, want))
    uncond = all(not cn.guards(n) for s, o, a, n in ops)
    if good and uncond:
        chk.ok("LOCK", A.site(f), "reduce: both stacks lose the r = r_elements topmost entries of the reduced rule and gain one")
    else:
        chk.violation("LOCK", A.site(f), "LOCK:reduce",
                      "reduce must erase [end - r_elements, end) from both stacks and push one entry on each; found %s" %
                      [(s, o, [x.replace("gi.rule_infos[$2]", "ri") for x in a][:2]) for s, o, a in got])
    # pop_stacks
    c08.lockp(chk, fx)
    # initial offset: one state pushed before the loop, no value
    g = [x for x in fx.need(P + "context_parse") if len(x.o["params"]) == 4][0]
    cg = Canon(g)
    pre = []
    for st in g.body.get("c") or []:
        if st.get("k") == "WhileStmt":
            break
        pre += _stack_ops({"body": st} and type("X", (), {"body": st})(), cg) if False else []
    ops = []
    for st in g.body.get("c") or []:
        if st.get("k") == "WhileStmt":
            break
        for n in walk(st):
            if n.get("k") == "CXXMemberCallExpr" and (n.get("callee") or {}).get("n") in ("push_back", "emplace_back"):
                names = A.field_names(A.access_path(A.call_object(n)))
                if "cursor_stack" in names or "value_stack" in names:
                    ops.append(("cursor" if "cursor_stack" in names else "value", cg.c(A.call_args(n)[0])))
    if ops == [("cursor", "0")]:
        chk.ok("LOCK", A.site(g), "a parse starts with state 0 on the cursor stack and an empty value stack")
    else:
        chk.violation("LOCK", A.site(g), "LOCK:initial", "before the driver loop the stacks receive %s" % ops)
    # nobody else touches the stacks
    others = []
    for q in set(fx.qnames()):
        if not q.startswith(P) or q.split("::")[-1] in ("shift", "shift_recovery_token", "reduce", "pop_stacks", "context_parse"):
            continue
        for h in fx.fns(q)[:1]:
            for s, o, a, n in _stack_ops(h, Canon(h)):
                others.append((h, n, s, o))
    for h, n, s, o in others[:3]:
        chk.violation("LOCK", A.site(h, n), "LOCK:%s:%s" % (h.o["n"], o), "%s mutates the %s stack (%s)" % (h.o["n"], s, o))


def once(chk, fx):
    chk.rule("ONCE", "reduce: invocation, erase and push in order", 4)
    f = fx.need(P + "reduce")[0]
    flow.assert_structured(f)
    cn = Canon(f)
    R = "gi.rule_infos[$2]"
    order = []
    for ev, term_ in flow.paths(f.body):
        seq = []
        for e in ev:
            if e[0] != "stmt":
                continue
            for eff in AI.effects(e[1]):
                if eff[0] == "call":
                    c = eff[2].get("callee") or {}
                    if c.get("n") == "invoke":
                        seq.append(("invoke", cn.c(eff[2])))
                    elif eff[2].get("k") == "CXXMemberCallExpr" and c.get("n") in ("erase", "push_back", "emplace_back"):
                        names = A.field_names(A.access_path(A.call_object(eff[2])))
                        st = "cursor" if "cursor_stack" in names else ("value" if "value_stack" in names else None)
                        if st:
                            seq.append(("%s-%s" % (st, c["n"]), cn.c(eff[2])))
        order.append(tuple(k for k, t in seq))
        texts = dict(seq)
    if len(set(order)) != 1:
        chk.violation("ONCE", A.site(f), "ONCE:paths-differ", "the stack/functor actions differ between paths: %s" % set(order))
        return
    o = order[0]
    want = ("cursor-erase", "cursor-push_back", "invoke", "value-erase", "value-emplace_back")
    if o == want:
        chk.ok("ONCE", A.site(f), "on every path: uncover the state, goto, invoke once, erase the consumed values, push the result")
    else:
        chk.violation("ONCE", A.site(f), "ONCE:order", "actions of a reduction: %s; required: %s" % (list(o), list(want)))
    inv = texts.get("invoke", "")
    want_inv = "$1.reductors.invoke(forward($0), %s.r_idx, (($1.value_stack.data() + $1.value_stack.size()) - %s.r_elements))" % (R, R)
    if inv == want_inv:
        chk.ok("ONCE", A.site(f), "the functor of rule r_idx is invoked on the r_elements topmost values (data() + size() - r)")
    else:
        chk.violation("ONCE", A.site(f), "ONCE:invoke-args",
                      "invoke is called as %s" % inv.replace(R, "ri")[:200])
    push = texts.get("cursor-push_back", "")
    if push == "$1.cursor_stack.push_back(parse_table[$1.cursor_stack.back()][%s.l_idx].arg)" % R:
        chk.ok("ONCE", A.site(f), "goto = parse_table[uncovered state][left side of the rule].arg")
    else:
        chk.violation("ONCE", A.site(f), "ONCE:goto", "the state pushed after a reduction is %s" % push.replace(R, "ri")[:160])
    vp = texts.get("value-emplace_back", "")
    if re.fullmatch(r"\$1\.value_stack\.emplace_back\(move\(\?(\w+)\)\)", vp) or "invoke(" in vp:
        chk.ok("ONCE", A.site(f), "the functor's result is what is pushed on the value stack")
    else:
        chk.violation("ONCE", A.site(f), "ONCE:result-push", "the value pushed after a reduction is %s" % vp[:120])
    # rr_conflict and the driver call reduce exactly once per reduce entry: from the DRV relation (log has one 'reduce')
    # value_reductors::invoke uses its index argument
    g = fx.need(VR + "invoke")[0]
    cg = Canon(g)
    rets = [cg.c(n["value"]) for n in walk(g.body) if n.get("k") == "ReturnStmt"]
    if rets == ["reductors[$1](forward($0), rule_tuple, $2)"]:
        chk.ok("ONCE", A.site(g), "invoke(i) calls reductors[i] with the context, the rules and the value slice")
    else:
        chk.violation("ONCE", A.site(g), "ONCE:value_reductors::invoke", "invoke returns %s" % rets)


def args(chk, fx):
    chk.rule("ARGS", "arms of reduce_value_impl (nullptr / context / plain)", 3)
    arms = {}
    for f in fx.need(VR + "reduce_value_impl"):
        targs = (f.o.get("targs") or "").split(" | ")
        requires_ctx = targs[0].strip() == "true"
        is_null = targs[1].strip() in ("std::nullptr_t", "nullptr_t")
        arm = "nullptr" if is_null else ("context" if requires_ctx else "plain")
        cn = Canon(f)
        rets = [n for n in walk(f.body) if n.get("k") == "ReturnStmt"]
        if len(rets) != 1:
            chk.violation("ARGS", A.site(f), "ARGS:%s:returns" % arm, "%d return statements in the instantiated arm" % len(rets))
            continue
        txt = cn.c(rets[0]["value"])
        # the values taken from the stack: get<T>(move(*($2 + k)))
        # either spelling of the k-th slot: *(start + k) or start[k]
        offs = [int(a or b) for a, b in re.findall(r"get\(move\((?:\*\(\$2 \+ (\d+)\)|\$2\[(\d+)\])\)\)", txt)]
        n_vals = len(offs)
        extra = re.findall(r"get\(move\(\*\$2\)\)", txt)
        if extra:
            offs = [0] * len(extra) + offs
        pack = targs[-1] if targs else ""
        n_expected = len(re.findall(r"\d+", pack)) if "<" in pack else None
        calls_f = len(re.findall(r"\$1\(", txt))
        site = A.site(f, rets[0])
        problems = []
        if offs != list(range(len(offs))):
            problems.append("values are taken from offsets %s, not 0..n-1 in order" % offs)
        if n_expected is not None and len(offs) != n_expected:
            problems.append("%d values taken for a rule with %d right-side elements" % (len(offs), n_expected))
        if arm == "nullptr":
            if calls_f:
                problems.append("the default arm calls a functor")
        else:
            if calls_f != 1:
                problems.append("the functor is called %d times" % calls_f)
            has_ctx = "$1(forward($0)" in txt
            if arm == "context" and not has_ctx:
                problems.append("the context is not the first argument of a contextual functor")
            if arm == "plain" and ("$0" in txt):
                problems.append("the context is used in a non-contextual arm")
        if "move(" not in txt and offs:
            problems.append("values are not moved from the stack")
        if problems:
            chk.violation("ARGS", site, "ARGS:%s" % arm, "; ".join(problems) + " (%s)" % txt[:120])
        else:
            arms.setdefault(arm, 0)
            arms[arm] += 1
            if arms[arm] == 1:
                chk.ok("ARGS", site, "%s arm: functor %s on get<T_k>(move(*(start + k))), k = 0..n-1" % (
                    arm, "not called (value constructed)" if arm == "nullptr" else "called once"))
    # the documented construction is LValueType(values...): parentheses, not braces (braces select initializer_list
    # constructors: nterm<std::vector<int>> built from (3, 7) would become {3, 7})
    pats = fx.fns(VR + "reduce_value_impl", patterns=True, insts=False)
    if pats:
        for n in walk(pats[0].body):
            if n.get("k") == "ReturnStmt":
                v = strip(n.get("value"))
                if v is not None and v.get("k") == "CXXUnresolvedConstructExpr" and v.get("listinit"):
                    chk.violation("ARGS", A.site(pats[0], n), "ARGS:list-initialisation",
                                  "the left-side value is list-initialised (LValueType{...}); the documented construction is "
                                  "LValueType(...): types with an initializer_list constructor get a different value")
                elif v is not None and v.get("k") == "InitListExpr":
                    chk.violation("ARGS", A.site(pats[0], n), "ARGS:list-initialisation", "the left-side value is list-initialised")
    missing = {"nullptr", "context", "plain"} - set(arms)
    if missing and not chk.violations:
        chk.incomplete("reduce_value_impl arms not witnessed: %s" % sorted(missing))
    # reduce_value hands the rule's own functor
    for f in fx.need(VR + "reduce_value")[:40]:
        targs = (f.o.get("targs") or "").split(" | ")
        want_idx = tix._num(targs[0])
        gets = [n for n in walk(f.body) if A.is_call(n) and n["callee"]["n"] == "get" and n["callee"]["q"].startswith("std::")]
        got = tix._get_index(f, gets[0]) if gets else None
        if got is not None and want_idx is not None and got != want_idx:
            chk.violation("ARGS", A.site(f), "ARGS:reduce_value:functor-of-other-rule",
                          "reduce_value<%d> uses the functor of rule %d" % (want_idx, got))
            break


def termv(chk, fx):
    chk.rule("TERMV", "value of a shifted term", 2)
    f = fx.need(P + "shift")[0]
    cn = Canon(f)
    pushes = [cn.c(n) for n in walk(f.body) if n.get("k") == "CXXMemberCallExpr" and (n.get("callee") or {}).get("n") == "emplace_back"]
    if pushes == ["$0.value_stack.emplace_back(term_ftors[$2](term_tuple, $1, $0.current_sp))"]:
        chk.ok("TERMV", A.site(f), "shift pushes term_ftors[term](term_tuple, lexeme, current_sp)")
    else:
        chk.violation("TERMV", A.site(f), "TERMV:shift", "shift pushes %s" % pushes)
    g = fx.need(P + "shift_recovery_token")[0]
    cg = Canon(g)
    pushes = [cg.c(n) for n in walk(g.body) if n.get("k") == "CXXMemberCallExpr" and (n.get("callee") or {}).get("n") == "emplace_back"]
    if len(pushes) == 1 and "no_type{}" in pushes[0] and "$0.current_sp" in pushes[0]:
        chk.ok("TERMV", A.site(g), "the error token's value is a no_type term value at the current position")
    else:
        chk.violation("TERMV", A.site(g), "TERMV:shift_recovery_token", "pushes %s" % pushes)
    # driver passes t_idx and entry.arg
    h = [x for x in fx.need(P + "context_parse") if len(x.o["params"]) == 4][0]
    ch = Canon(h)
    for n in walk(h.body):
        if A.is_call(n, q=P + "shift"):
            a = [ch.c(x) for x in A.call_args(n)]
            if re.fullmatch(r"get_current_term\(\?\w+\)", a[2]) and a[3].endswith(".arg") and "parse_table[" in a[3]:
                chk.ok("TERMV", A.site(h, n), "the driver shifts the looked-up term into the looked-up cell's target state")
            else:
                chk.violation("TERMV", A.site(h, n), "TERMV:driver-shift", "shift is called with term %s and state %s" % (a[2][:60], a[3][:80]))


def result(chk, fx):
    chk.rule("RESULT", "value returned on success", 1)
    f = fx.need(P + "success")[0]
    cn = Canon(f)
    rets = [cn.c(n["value"]) for n in walk(f.body) if n.get("k") == "ReturnStmt"]
    if rets == ["get($0.value_stack.front())"]:
        chk.ok("RESULT", A.site(f), "success returns the root value at the bottom of the value stack")
    else:
        chk.violation("RESULT", A.site(f), "RESULT:success", "success returns %s" % rets)


def pre(chk):
    from . import c19
    c19.hlp_t(chk, ("clang++",))
    from .. import tlw
    tlw.run(chk, "RULE-T", "w_ruletype.cpp")
