"""C05 — shift/reduce conflicts are resolved by the documented precedence rules.

 PREC      finite-domain interpretation of solve_conflict over {r_p<t_p, =, >} x {no_assoc, ltor, rtol}:
           reduce iff '>' or ('=' and ltor), else shift (readme "Precedence and associativity")
 CALC      calculate_rule_precedence: explicit != 0 -> explicit; else last term's; else 0
           calculate_rule_associativity: last term's, else no_assoc; calculate_rule_last_term: the LAST term
 ORDER     analyze_rule computes last term before precedence/associativity, after the right side is stored
 PRECPASS  precedence/associativity written by the user reach the tables: term constructors pass
           (precedence, a) to term(...), typed_term forwards the getters, rule::operator[] / >= / >>= carry the
           precedence, analyze_term stores the getters' results
 CONF      exact finite-state fixpoint of the conflict detection loop in transitions(): which entry kind / flag
           results from which mix of root / reduce / shift items (see DESIGN.md 5/C05)
 PRECFLOW  the precedence tables are read only by calculate_* and solve_conflict
 IDX       rule_precedences[RULE], term_precedences[TERM], call sites pass (RINFO of the reduce item, TERM)
"""
from .. import astq as A
from .. import flow
from .. import absint as AI
from .. import fdi
from .. import idxrule
from ..facts import walk, strip

P = "ctpg::parser::"
SA = P + "state_analyzer::"
GI = P + "grammar_info::"


def check(chk, fx):
    chk.explanation = (
        "solve_conflict and the calculate_* helpers only compare precedences and associativities, so their behaviour "
        "is a finite table over orderings; it is extracted by abstract interpretation of every structured path and "
        "compared with the readme. The conflict-detection loop is explored as a finite-state system over (flags, "
        "entry kind) x item class. Index-space typing shows the right table cells are read; a who-reads rule shows "
        "no other table cell can depend on precedence declarations. Not decided: that expressions group accordingly "
        "for every input (LR theory + C01).")
    enums = _enum_values(fx)
    prec(chk, fx, enums)
    calc(chk, fx, enums)
    order(chk, fx)
    precpass(chk, fx)
    conf(chk, fx, enums)
    precflow(chk, fx)
    from .. import width
    width.check(chk, fx, classes=("PREC",), minimum=12)      # precedences are signed ints end to end
    from .. import termrules
    termrules.termapi(chk, fx)
    termrules.defarg(chk, fx)
    from .. import primrules
    primrules.prims(chk, fx, "GAPI2")         # precedence / associativity travel through these constructors and operators
    idxrule.report(chk, fx, lambda q: q.startswith(SA + "solve_conflict") or q.startswith(SA + "transitions") or
                   q.startswith(P + "calculate_rule") or q.startswith(P + "analyze_rule") or
                   q.startswith(P + "analyze_term"), "precedence tables and conflict solver", 5)


def _enum_values(fx):
    vals = {}
    for n, v in fx.enum("ctpg::associativity").items():
        vals["ctpg::associativity::" + n] = v
    for n, v in fx.enum(P + "parse_table_entry_kind").items():
        vals[P + "parse_table_entry_kind::" + n] = v
    return vals


def raise_incomplete(msg):
    from ..facts import AnalysisIncomplete
    raise AnalysisIncomplete(msg)


def _reads_field_array(t, field):
    """term t is (an element of) this.gi.<field>[...]"""
    return t[0] == "path" and any(c[0] == "field" and c[1] == GI + field for c in t[2])


def _index_of(t, field):
    for i, c in enumerate(t[2]):
        if c[0] == "field" and c[1] == GI + field and i + 1 < len(t[2]) and t[2][i + 1][0] == "index":
            return AI.term(t[2][i + 1][1])
    return None


# ------------------------------------------------------------------------------------------------- PREC
class PrecHooks(fdi.Hooks):
    def __init__(self, origin, case):
        self.origin = origin      # var id -> "RP" | "TP" | "ASSOC"
        self.case = case          # (ord, assoc)

    def cls(self, t):
        if t[0] == "const":
            return ("const", t[1])
        if t[0] == "path":
            if len(t[2]) == 1 and t[2][0][0] == "var" and t[2][0][1] in self.origin:
                return (self.origin[t[2][0][1]],)
            if _reads_field_array(t, "rule_precedences"):
                return ("RP",)
            if _reads_field_array(t, "term_precedences"):
                return ("TP",)
            if _reads_field_array(t, "rule_associativities"):
                return ("ASSOC",)
            if _reads_field_array(t, "term_associativities"):
                return ("TASSOC",)
        return ("?",)

    def oracle(self, rel, st):
        if rel[0] != "cmp":
            return None
        a, b = self.cls(rel[2]), self.cls(rel[3])
        op = rel[1]
        o, assoc = self.case
        if {a[0], b[0]} == {"RP", "TP"}:
            if a[0] == "TP":
                op = AI.SWAP[op]
            x = {"<": -1, "=": 0, ">": 1}[o]
            return {"==": x == 0, "!=": x != 0, "<": x < 0, ">": x > 0, "<=": x <= 0, ">=": x >= 0}[op]
        if a[0] == "ASSOC" and b[0] == "const":
            return {"==": assoc == b[1], "!=": assoc != b[1]}.get(op)
        if b[0] == "ASSOC" and a[0] == "const":
            return {"==": assoc == a[1], "!=": assoc != a[1]}.get(op)
        return None


def prec(chk, fx, enums):
    chk.rule("PREC", "abstract cases of solve_conflict (3 orderings x 3 associativities)", 9)
    fns = fx.need(SA + "solve_conflict")
    ltor = enums["ctpg::associativity::ltor"]
    reduce_v = enums[P + "parse_table_entry_kind::reduce"]
    shift_v = enums[P + "parse_table_entry_kind::shift"]
    assocs = sorted(v for q, v in enums.items() if q.startswith("ctpg::associativity::"))
    seen = set()
    for f in fns:
        flow.assert_structured(f)
        origin = {}
        idx_terms = {}
        for n in walk(f.body):
            if n.get("k") == "Var" and n.get("init") is not None:
                t = AI.term(n["init"])
                for field, role in (("rule_precedences", "RP"), ("term_precedences", "TP"),
                                    ("rule_associativities", "ASSOC")):
                    if _reads_field_array(t, field):
                        origin[n["id"]] = role
                        idx_terms[role] = _index_of(t, field)
        for n in walk(f.body):
            t = AI.term(n) if n.get("k") == "ArraySubscriptExpr" else None
            if t and t[0] == "path":
                for field, role in (("rule_precedences", "RP"), ("term_precedences", "TP"),
                                    ("rule_associativities", "ASSOC"), ("term_associativities", "TASSOC")):
                    if _reads_field_array(t, field) and role not in idx_terms:
                        idx_terms[role] = _index_of(t, field)
        if "TASSOC" in idx_terms:
            chk.violation("PREC", A.site(f), "PREC:solve_conflict:term-associativity",
                          "solve_conflict reads the associativity of the term; the documented rule uses the rule's "
                          "(its last term's) associativity")
        if "RP" not in idx_terms or "TP" not in idx_terms:
            chk.incomplete("solve_conflict does not read rule_precedences / term_precedences in a recognised way")
        # the rule whose precedence is compared is the rule whose associativity decides ties
        if "ASSOC" in idx_terms and idx_terms["ASSOC"] is not None and idx_terms["RP"] is not None and \
                not AI.same(idx_terms["ASSOC"], idx_terms["RP"]):
            chk.violation("PREC", A.site(f), "PREC:solve_conflict:assoc-of-other-rule",
                          "associativity is read for %s but precedence for %s" % (
                              AI.tstr(idx_terms["ASSOC"]), AI.tstr(idx_terms["RP"])))
        # the term whose precedence is compared is the second parameter
        tp = idx_terms["TP"]
        if tp is None or tp[0] != "path" or len(tp[2]) != 1 or tp[2][0][1] != f.o["params"][1]["id"]:
            chk.violation("PREC", A.site(f), "PREC:solve_conflict:term-index",
                          "term precedence is not read at the conflicting term (2nd parameter) but at %s" %
                          (AI.tstr(tp) if tp else "?"))
        allp = flow.paths(f.body)
        for o in ("<", "=", ">"):
            for a in assocs:
                hooks = PrecHooks(origin, (o, a))
                results = set()
                for ev, term_ in allp:
                    sts = fdi.exec_events(ev, {}, hooks)
                    if not sts:
                        continue
                    if term_ != "return":
                        results.add("no-return")
                        continue
                    rv = AI.const_of(ev[-1][1].get("value"))
                    results.add(rv)
                want = reduce_v if (o == ">" or (o == "=" and a == ltor)) else shift_v
                name = {reduce_v: "reduce", shift_v: "shift"}
                s = A.site(f)
                case = "r_p %s t_p, associativity %d" % (o, a)
                if results == {want}:
                    k = (o, a)
                    if k not in seen:
                        seen.add(k)
                        chk.ok("PREC", s, "%s -> %s" % (case, name[want]))
                else:
                    chk.violation("PREC", s, "PREC:solve_conflict:%s:%d" % (o, a),
                                  "%s must give %s, the code gives %s" % (
                                      case, name[want], sorted(name.get(r, str(r)) for r in results)))


# ------------------------------------------------------------------------------------------------- CALC
class CalcHooks(fdi.Hooks):
    def __init__(self, case, last_ids, p0):
        self.case = case
        self.last_ids = last_ids
        self.p0 = p0

    def is_last(self, t):
        if t[0] == "path":
            if len(t[2]) == 1 and t[2][0][0] == "var" and t[2][0][1] in self.last_ids:
                return True
            if _reads_field_array(t, "rule_last_terms"):
                return True
        return False

    def oracle(self, rel, st):
        if rel[0] != "cmp" or rel[1] not in ("==", "!="):
            return None
        a, b = rel[2], rel[3]
        if b[0] != "const":
            a, b = b, a
        if b[0] != "const":
            return None
        eq = rel[1] == "=="
        if a[0] == "path" and len(a[2]) == 1 and a[2][0][0] == "var" and a[2][0][1] == self.p0 and b[1] == 0:
            return (self.case["explicit"] == 0) == eq
        if self.is_last(a) and b[1] in (65535, 0xffffffff, 2 ** 64 - 1):
            return (not self.case["has_last"]) == eq
        return None


def calc(chk, fx, enums):
    chk.rule("CALC", "abstract cases of calculate_rule_precedence / associativity / last_term", 6)
    no_assoc = enums["ctpg::associativity::no_assoc"]
    seen = set()

    def last_vars(f):
        ids = set()
        for n in walk(f.body):
            if n.get("k") == "Var" and n.get("init") is not None and \
                    _reads_field_array(AI.term(n["init"]), "rule_last_terms"):
                ids.add(n["id"])
        return ids

    # ---- precedence
    for f in fx.need(P + "calculate_rule_precedence"):
        flow.assert_structured(f)
        p0 = f.o["params"][0]["id"]
        lv = last_vars(f)
        allp = flow.paths(f.body)
        for explicit in (0, 1):
            for has_last in (False, True):
                case = {"explicit": explicit, "has_last": has_last}
                hooks = CalcHooks(case, lv, p0)
                res = set()
                for ev, term_ in allp:
                    if not fdi.exec_events(ev, {}, hooks):
                        continue
                    if term_ != "return":
                        res.add("no-return")
                        continue
                    t = AI.term(ev[-1][1].get("value"))
                    if t[0] == "path" and len(t[2]) == 1 and t[2][0][1] == p0:
                        res.add("explicit")
                    elif _reads_field_array(t, "term_precedences"):
                        it = _index_of(t, "term_precedences")
                        res.add("last-term" if it is not None and hooks.is_last(it) else "other-term")
                    elif t[0] == "const" and t[1] == 0:
                        res.add("zero")
                    else:
                        res.add(AI.tstr(t))
                want = "explicit" if explicit else ("last-term" if has_last else "zero")
                desc = "explicit [n] %s, rule %s a term" % ("given" if explicit else "absent",
                                                            "contains" if has_last else "has no")
                if res == {want}:
                    if ("p", explicit, has_last) not in seen:
                        seen.add(("p", explicit, has_last))
                        chk.ok("CALC", A.site(f), "%s -> %s" % (desc, want))
                else:
                    chk.violation("CALC", A.site(f), "CALC:calculate_rule_precedence:%d:%d" % (explicit, has_last),
                                  "%s must give %s, the code gives %s" % (desc, want, sorted(res)))
        # the last term read is the rule's own
        _check_last_index(chk, f, 1)
    # ---- associativity
    for f in fx.need(P + "calculate_rule_associativity"):
        flow.assert_structured(f)
        lv = last_vars(f)
        allp = flow.paths(f.body)
        for has_last in (False, True):
            hooks = CalcHooks({"explicit": 0, "has_last": has_last}, lv, -1)
            res = set()
            for ev, term_ in allp:
                if not fdi.exec_events(ev, {}, hooks):
                    continue
                if term_ != "return":
                    res.add("no-return")
                    continue
                t = AI.term(ev[-1][1].get("value"))
                if _reads_field_array(t, "term_associativities"):
                    it = _index_of(t, "term_associativities")
                    res.add("last-term" if it is not None and hooks.is_last(it) else "other-term")
                elif t[0] == "const":
                    res.add("const:%d" % t[1])
                else:
                    res.add(AI.tstr(t))
            want = "last-term" if has_last else "const:%d" % no_assoc
            if res == {want}:
                if ("a", has_last) not in seen:
                    seen.add(("a", has_last))
                    chk.ok("CALC", A.site(f), "rule %s a term -> %s" % ("contains" if has_last else "has no",
                                                                         "its last term's associativity" if has_last
                                                                         else "no_assoc"))
            else:
                chk.violation("CALC", A.site(f), "CALC:calculate_rule_associativity:%d" % has_last,
                              "must give %s, the code gives %s" % (want, sorted(res)))
        _check_last_index(chk, f, 0)
    # ---- last term: one of the two recognised scan idioms
    for f in fx.need(P + "calculate_rule_last_term"):
        flow.assert_structured(f)
        verdict = _last_term_idiom(f)
        if verdict is True:
            if "lt" not in seen:
                seen.add("lt")
                chk.ok("CALC", A.site(f), "scans the right side from the end and returns the first term met "
                                          "(= the last term), sentinel when there is none")
        elif verdict is None:
            chk.incomplete("calculate_rule_last_term: unrecognised scan idiom")
        else:
            chk.violation("CALC", A.site(f), "CALC:calculate_rule_last_term:" + verdict.split(":")[0], verdict)


def _check_last_index(chk, f, pidx):
    pid = f.o["params"][pidx]["id"]
    for n in walk(f.body):
        if n.get("k") == "ArraySubscriptExpr":
            t = AI.term(n)
            if _reads_field_array(t, "rule_last_terms") and t[2][-1][0] == "index":
                it = _index_of(t, "rule_last_terms")
                if not (it and it[0] == "path" and len(it[2]) == 1 and it[2][0][1] == pid):
                    chk.violation("CALC", A.site(f, n), "CALC:%s:last-term-of-other-rule" % f.o["n"],
                                  "rule_last_terms is read at %s, not at the rule being analysed" % AI.tstr(it))


def _last_term_idiom(f):
    """True = recognised and correct; str = recognised shape with a wrong operand (reason); None = not recognised."""
    from ..canon import Canon
    from .. import pathsig as PS
    from ..lr import _drop_noise
    cn = Canon(f)
    body = f.body.get("c") or []
    loops = [s for s in body if s.get("k") == "ForStmt"]
    if len(loops) != 1:
        return None
    loop = loops[0]
    # (a) which positions does a descending scan visit at all? counter initialised with rule_size - 1 (or rule_size with
    #     the element read at counter - 1), a conjunct `counter > K` / `counter >= K` in the loop condition, step -1
    try:
        d = (loop.get("init") or {}).get("decls", [None])[0]
        inc = AI.effects(loop["inc"]) if loop.get("inc") else []
        if d is not None and d.get("init") is not None and inc and inc[0][0] == "inc" and inc[0][2] == -1:
            start = cn.c(d["init"])
            lowk = None
            for alt in flow.cond_atoms(loop["cond"], True)[:1]:
                for _k, atom, outcome in alt:
                    a = strip(atom, casts=True)
                    if outcome and a is not None and a.get("k") == "BinaryOperator" and a.get("op") in (">", ">=") and \
                            A.declref_id(strip(a["c"][0], casts=True)) == d["id"]:
                        k = AI.const_of(a["c"][1])
                        if k is not None:
                            lowk = k + (1 if a["op"] == ">" else 0)
            reads = [cn.c(x["c"][1]) for x in walk(loop["body"]) if x.get("k") == "ArraySubscriptExpr" and
                     "right_sides" in cn.c(x["c"][0])]
            reads = [r for r in reads if "@i{" in r]          # the element subscript, not the rule subscript
            if lowk is not None and reads and start in ("($1 - 1)", "$1"):
                off = 0
                if all(r.startswith("(@i{") and r.endswith(" - 1)") for r in reads):
                    off = -1
                low = lowk + off
                first = (-1 if start == "($1 - 1)" else 0) + off        # relative to rule_size
                if low > 0:
                    return "range: the scan stops at position %d, so a term at position 0 of the right side is never taken " \
                           "as the rule's last term (a prefix-operator rule gets precedence 0)" % low
                if first != -1:
                    return "range: the scan starts at rule_size%+d instead of the last element" % first
    except (KeyError, IndexError, TypeError):
        pass
    conds, nodes = PS.event_conditions(cn, loop["body"], unroll=1, drop=_drop_noise)
    rets = [(t, c) for (k, t), c in conds.items() if k == "return"]
    if len(rets) != 1 or any(k in ("break", "continue") for k, t in conds):
        return None
    text, cond = rets[0]
    # the loop variable's canonical form tells direction and range: @i{init..bound}
    import re as _re
    m = _re.fullmatch(r"gi\.right_sides\[\$0\]\[(.+)\]\.idx", text)
    if not m:
        if text.endswith(".idx") and "right_sides" in text:
            return "source: the symbol returned is %s, not an element of right_sides[rule]" % text[:80]
        return None
    pos = m.group(1)
    sym = "gi.right_sides[$0][%s]" % pos
    if not PS.equivalent(cond, PS.dnf([("%s.term" % sym, True)])):
        return "test: the element is returned when %s instead of when it is a term" % PS.show(cond)[:120]
    # which elements are visited, in which order
    inc = AI.effects(loop["inc"]) if loop.get("inc") else []
    step = inc[0][2] if inc and inc[0][0] == "inc" else None
    fwd_forms = {"@i{0..$1}"}
    # descending scans: lowest position visited from the loop's bound
    low = None
    m1 = _re.fullmatch(r"@i\{\(\$1 - 1\)\.\.(>=|>)(-?\d+)\}", pos)
    m2 = _re.fullmatch(r"\(@i\{\$1\.\.(>=|>)(-?\d+)\} - 1\)", pos)
    if m1:
        low = int(m1.group(2)) + (1 if m1.group(1) == ">" else 0)
    elif m2:
        low = int(m2.group(2)) + (1 if m2.group(1) == ">" else 0) - 1
    if low is not None and step == -1:
        if low > 0:
            return "range: the scan stops at position %d, so a term at position %s of the right side is never taken " \
                   "as the rule's last term (a prefix-operator rule gets precedence 0)" % (low, "0" if low == 1 else "< %d" % low)
        if low < 0:
            return "range: the scan runs down to position %d, below the first element" % low
    elif pos in fwd_forms and step == 1:
        return "direction: the right side is scanned from the front and the FIRST term met is returned; the rule's " \
               "precedence comes from its LAST term"
    else:
        return None
    tail = body[body.index(loop) + 1:]
    if len(tail) != 1 or tail[0].get("k") != "ReturnStmt" or AI.const_of(tail[0].get("value")) not in (65535,):
        return "fallthrough: a rule without terms does not yield the 'no last term' sentinel"
    return True


# ------------------------------------------------------------------------------------------------- ORDER
def order(chk, fx):
    chk.rule("ORDER", "analyze_rule: right side stored, then last term, then precedence / associativity", 1)
    seen = False
    for f in fx.need(P + "analyze_rule"):
        pos = {}
        for i, st in enumerate(f.body.get("c") or []):
            for eff in AI.effects(st):
                if eff[0] in ("assign", "set"):
                    for fld in ("right_sides", "rule_last_terms", "rule_precedences", "rule_associativities"):
                        if any(c[0] == "field" and c[1] == GI + fld for c in eff[3] if isinstance(c, tuple)):
                            pos.setdefault(fld, i)
                if eff[0] == "call" and eff[1] in (P + "calculate_rule_last_term", P + "calculate_rule_precedence",
                                                   P + "calculate_rule_associativity"):
                    pos.setdefault("call:" + eff[1].split("::")[-1], i)
        need = ["rule_last_terms", "rule_precedences", "rule_associativities", "call:calculate_rule_last_term",
                "call:calculate_rule_precedence", "call:calculate_rule_associativity"]
        if any(k not in pos for k in need):
            chk.incomplete("analyze_rule: assignment of %s not found" % [k for k in need if k not in pos])
        rs = pos.get("right_sides", -1)       # absent for rules with an empty right side
        ok = rs < pos["call:calculate_rule_last_term"] <= pos["rule_last_terms"] and \
            pos["rule_last_terms"] < pos["call:calculate_rule_precedence"] and \
            pos["rule_last_terms"] < pos["call:calculate_rule_associativity"]
        if ok:
            if not seen:
                seen = True
                chk.ok("ORDER", A.site(f), "right_sides -> rule_last_terms -> rule_precedences/associativities")
        else:
            chk.violation("ORDER", A.site(f), "ORDER:analyze_rule",
                          "precedence/associativity are computed before the data they read is stored (%s)" % pos)


# ------------------------------------------------------------------------------------------------- PRECPASS
TERM_CTORS = ["ctpg::char_term::char_term", "ctpg::string_term::string_term", "ctpg::custom_term::custom_term",
              "ctpg::regex_term::regex_term"]


def _role_params(f):
    """{"precedence": id, "a": id}: the constructor parameters by type (int -> precedence, associativity -> a), whatever
    they are called and however they are passed (value, const value, const reference)."""
    out = {}
    for p in f.o["params"]:
        t = f.facts.TC(p["t"]).replace("const ", "").replace("&", "").replace("enum ", "").strip()
        if t == "int" and "precedence" not in out:
            out["precedence"] = p["id"]
        elif t == "ctpg::associativity" and "a" not in out:
            out["a"] = p["id"]
    return out


def precpass(chk, fx):
    chk.rule("PRECPASS", "user-written precedence / associativity reach the tables unchanged", 12)
    seen = set()

    def ok(key, site, msg):
        if key not in seen:
            seen.add(key)
            chk.ok("PRECPASS", site, msg)

    # term base: ctor stores, getters return
    for f in fx.need("ctpg::term::term"):
        if f.o.get("implicit") or f.o.get("defaulted") or len(f.o["params"]) != 2:
            continue
        inits = {i.get("member"): AI.term(i.get("init")) for i in f.o.get("inits", ())}
        ps = _role_params(f)
        for member, pname in (("precedence", "precedence"), ("ass", "a")):
            t = inits.get(member)
            if t and t[0] == "path" and len(t[2]) == 1 and pname in ps and t[2][0][1] == ps[pname]:
                ok(("term", member), A.site(f), "term::%s initialised from parameter %s" % (member, pname))
            else:
                chk.violation("PRECPASS", A.site(f), "PRECPASS:term::term:%s" % member,
                              "term::%s is not initialised from the constructor argument (%s)" % (
                                  member, AI.tstr(t) if t else "missing"))
    for q, field in (("ctpg::term::get_precedence", "ctpg::term::precedence"),
                     ("ctpg::term::get_associativity", "ctpg::term::ass")):
        for f in fx.need(q):
            r = [n for n in walk(f.body) if n.get("k") == "ReturnStmt"]
            t = AI.term(r[0].get("value")) if len(r) == 1 else None
            if t and t[0] == "path" and t[2][-1][0] == "field" and t[2][-1][1] == field:
                ok(q, A.site(f), "returns %s" % field.split("::")[-1])
            else:
                chk.violation("PRECPASS", A.site(f), "PRECPASS:" + q, "does not return %s" % field)
    # derived term constructors hand (precedence, a) to term(...)
    for q in TERM_CTORS:
        for f in fx.need(q):
            ps = _role_params(f)
            if "precedence" not in ps and "a" not in ps:
                continue
            base = [i for i in f.o.get("inits", ()) if i.get("base") or i.get("delegating")]
            if not base:
                chk.violation("PRECPASS", A.site(f), "PRECPASS:%s:no-base-init" % q,
                              "constructor with precedence/associativity parameters does not initialise term(...)")
                continue
            ctor = strip(base[0].get("init"), casts=False)
            args = [AI.term(a) for a in (ctor.get("c") or [])]
            names = []
            for a in args:
                nm = None
                if a[0] == "path" and len(a[2]) == 1:
                    nm = {v: k for k, v in ps.items()}.get(a[2][0][1])
                names.append(nm)
            cq = (ctor.get("ctor") or {}).get("q", "")
            if base[0].get("delegating"):
                # regex_term(a) / regex_term(precedence, a) delegate to the 3-argument constructor
                tail = names[-2:] if len(names) >= 2 else names
                expect = [n for n in ("precedence", "a") if n in ps]
                got = [n for n in tail if n in ("precedence", "a")]
                if got == expect:
                    ok((q, f.o["l"]), A.site(f), "delegates %s unchanged" % expect)
                else:
                    chk.violation("PRECPASS", A.site(f), "PRECPASS:%s:delegation" % q,
                                  "delegating constructor passes %s instead of %s" % (names, expect))
                continue
            if cq.endswith("term::term") and names[:2] == ["precedence", "a"]:
                ok((q, f.o["l"]), A.site(f), "passes (precedence, a) to term(...)")
            else:
                chk.violation("PRECPASS", A.site(f), "PRECPASS:%s:base-args" % q,
                              "term(...) is initialised with %s instead of (precedence, a)" % names)
    # typed_term forwards
    for q, inner in (("ctpg::typed_term::get_precedence", "get_precedence"),
                     ("ctpg::typed_term::get_associativity", "get_associativity")):
        if not fx.fns(q):
            # not instantiated although the witness grammars have typed terms with precedences: whoever fills the tables
            # does not ask a typed term (reported below where the tables are filled); no verdict from this clause
            chk.defer_incomplete("anchor function %s is not instantiated" % q)
        for f in fx.fns(q):
            r = [n for n in walk(f.body) if n.get("k") == "ReturnStmt"]
            v = strip(r[0].get("value"), casts=True) if len(r) == 1 else None
            good = v is not None and v.get("k") == "CXXMemberCallExpr" and (v.get("callee") or {}).get("n") == inner \
                and A.field_names(A.access_path(A.call_object(v))) == ["term"]
            if good:
                ok(q, A.site(f), "forwards to term.%s()" % inner)
            else:
                chk.violation("PRECPASS", A.site(f), "PRECPASS:" + q, "does not forward to the wrapped term's %s()" % inner)
    # rule operators carry the precedence
    for name, src in (("operator[]", "param"), ("operator>=", "member"), ("operator>>=", "member")):
        fns = fx.need("ctpg::detail::rule::" + name)
        for f in fns:
            ctors = [n for n in walk(f.body) if n.get("k") in ("CXXConstructExpr", "CXXTemporaryObjectExpr") and
                     (n.get("ctor") or {}).get("q") == "ctpg::detail::rule::rule" and
                     not (n["ctor"].get("copy") or n["ctor"].get("move"))]
            if len(ctors) != 1:
                chk.incomplete("rule::%s: expected one construction of a rule, found %d" % (name, len(ctors)))
            args = ctors[0].get("c") or []
            if len(args) != 4:
                chk.violation("PRECPASS", A.site(f, ctors[0]), "PRECPASS:rule::%s:precedence-dropped" % name,
                              "the rule is rebuilt with %d constructor arguments: the precedence is reset to 0" % len(args))
                continue
            t = AI.term(args[3])
            if src == "param":
                good = t[0] == "path" and len(t[2]) == 1 and t[2][0][1] == f.o["params"][0]["id"]
            else:
                good = t[0] == "path" and t[2][-1][0] == "field" and t[2][-1][1] == "ctpg::detail::rule::precedence"
            if good:
                ok(("rule", name), A.site(f, ctors[0]), "passes the precedence on (%s)" % AI.tstr(t))
            else:
                chk.violation("PRECPASS", A.site(f, ctors[0]), "PRECPASS:rule::%s:precedence" % name,
                              "4th constructor argument is %s" % AI.tstr(t))
    for f in fx.need("ctpg::detail::rule::rule"):
        if len(f.o["params"]) != 4:
            continue
        inits = {i.get("member"): AI.term(i.get("init")) for i in f.o.get("inits", ())}
        t = inits.get("precedence")
        if t and t[0] == "path" and len(t[2]) == 1 and t[2][0][1] == f.o["params"][3]["id"]:
            ok("rule::rule", A.site(f), "rule::precedence initialised from the 4th argument")
        else:
            chk.violation("PRECPASS", A.site(f), "PRECPASS:rule::rule:precedence",
                          "rule::precedence is initialised with %s" % (AI.tstr(t) if t else "nothing"))
    for f in fx.need("ctpg::detail::rule::get_precedence"):
        r = [n for n in walk(f.body) if n.get("k") == "ReturnStmt"]
        t = AI.term(r[0].get("value")) if len(r) == 1 else None
        if t and t[0] == "path" and t[2][-1][1] == "ctpg::detail::rule::precedence":
            ok("rule::get_precedence", A.site(f), "returns rule::precedence")
        else:
            chk.violation("PRECPASS", A.site(f), "PRECPASS:rule::get_precedence", "does not return rule::precedence")
    # analyze_term / analyze_rule store the getters' results
    for f in fx.need(P + "analyze_term"):
        got = {}
        for st in f.body.get("c") or []:
            for eff in AI.effects(st):
                if eff[0] == "assign":
                    for fld in ("term_precedences", "term_associativities"):
                        if any(isinstance(c, tuple) and c[0] == "field" and c[1] == GI + fld for c in eff[3]):
                            v = strip(eff[2], casts=True)
                            got[fld] = (v.get("callee") or {}).get("n") if v is not None else None
        for fld, getter in (("term_precedences", "get_precedence"), ("term_associativities", "get_associativity")):
            if got.get(fld) == getter:
                ok(("analyze_term", fld), A.site(f), "%s[TermIdx] = t.%s()" % (fld, getter))
            else:
                chk.violation("PRECPASS", A.site(f), "PRECPASS:analyze_term:" + fld,
                              "%s is filled from %s" % (fld, got.get(fld)))
    for f in fx.need(P + "analyze_rule"):
        found = False
        for n in walk(f.body):
            if A.is_call(n, q=P + "calculate_rule_precedence"):
                a0 = strip(A.call_args(n)[0], casts=True)
                found = True
                if a0 is not None and a0.get("k") == "CXXMemberCallExpr" and (a0.get("callee") or {}).get("q") == \
                        "ctpg::detail::rule::get_precedence":
                    ok("analyze_rule:prec", A.site(f, n), "explicit precedence taken from r.get_precedence()")
                else:
                    chk.violation("PRECPASS", A.site(f, n), "PRECPASS:analyze_rule:explicit",
                                  "explicit precedence argument is not r.get_precedence()")
        chk.require(found, "analyze_rule: call of calculate_rule_precedence not found")


# ------------------------------------------------------------------------------------------------- CONF
class ConfHooks(fdi.Hooks):
    """Item class decides the two data-dependent tests of the loop; solve_conflict forks into {shift, reduce}."""

    _T = None

    def __init__(self, item, shift_v, reduce_v, track):
        self.item = item
        self.shift_v, self.reduce_v = shift_v, reduce_v
        self.track = track

    def untracked(self, key):
        return key not in self.track and key[0] == "f"

    def oracle(self, rel, st):
        def is_field(t, q):
            return t[0] == "path" and t[2][-1][0] == "field" and t[2][-1][1] == q
        if rel[0] == "cmp":
            a, b = rel[2], rel[3]
            # info.after >= ri.r_elements : completed item
            if is_field(a, P + "situation_info::after") and is_field(b, P + "rule_info::r_elements"):
                done = self.item in ("root", "reduce")
                return {">=": done, "<": not done, "==": None}.get(rel[1])
            if is_field(b, P + "situation_info::after") and is_field(a, P + "rule_info::r_elements"):
                done = self.item in ("root", "reduce")
                return {"<=": done, ">": not done}.get(rel[1])
            # ri.r_idx == root_rule_idx
            for x, y in ((a, b), (b, a)):
                if is_field(x, P + "rule_info::r_idx") and (y[0] == "const" or
                                                           (y[0] == "path" and "root_rule_idx" in y[1])):
                    return {"==": self.item == "root", "!=": self.item != "root"}.get(rel[1])
        return None

    def call_value(self, q, node, st):
        if q == SA + "solve_conflict":
            return [self.shift_v, self.reduce_v]
        return None

    def aggregate_assign(self, rhs, st):
        """entry = parse_table_entry{kind, arg[, flag]}: every field is (re)initialised, absent ones to their defaults."""
        r = strip(rhs, casts=True)
        il = None
        for m in walk(r):
            if m.get("k") == "InitListExpr":
                il = m
                break
        if il is None or not self.facts_T(il).endswith("parse_table_entry"):
            return None
        vals = il.get("c") or []
        s2 = dict(st)
        keys = [("f", P + "parse_table_entry::kind"), ("f", P + "parse_table_entry::arg"),
                ("f", P + "parse_table_entry::has_sr_conflict")]
        defaults = [0, 65535, 0]
        for i, k in enumerate(keys):
            if i < len(vals) and vals[i] is not None and vals[i].get("k") not in ("CXXDefaultInitExpr", "ImplicitValueInitExpr"):
                s2[k] = fdi.evaluate(AI.term(vals[i]), st, self)
            else:
                s2[k] = defaults[i]
        return s2

    def facts_T(self, node):
        return self._T(node.get("t")) if self._T else ""


def conf(chk, fx, enums):
    chk.rule("CONF", "abstract (state, item-history) outcomes of the conflict detection in transitions()", 6)
    K = P + "parse_table_entry_kind::"
    kinds = {enums[q]: q.split("::")[-1] for q in enums if q.startswith(K)}
    need_k = ("error", "success", "shift", "reduce", "rr_conflict", "shift_error_recovery_token")
    kv = {}
    for v, n in kinds.items():
        kv[n] = v
    # enum constants not referenced in any body (error = default initialiser) come from the record's field init
    if "error" not in kv:
        kv["error"] = 0
    for n in need_k:
        if n not in kv:
            chk.incomplete("parse_table_entry_kind::%s is never referenced" % n)
    KIND, FLAG, ARG = ("f", P + "parse_table_entry::kind"), ("f", P + "parse_table_entry::has_sr_conflict"), \
        ("f", P + "parse_table_entry::arg")
    seen = set()
    for f in fx.need(SA + "transitions"):
        flow.assert_structured(f)
        body = f.body.get("c") or []
        loops = [s for s in body if s.get("k") == "CXXForRangeStmt" and
                 A.declref_id(s.get("range")) == f.o["params"][2]["id"]]
        if len(loops) != 1:
            chk.incomplete("transitions: the loop over the symbol's items was not found")
        loop = loops[0]
        li = body.index(loop)
        pre, post = body[:li], body[li + 1:]
        track = {KIND, FLAG, ARG}
        ConfHooks._T = staticmethod(f.facts.T)
        hooks0 = ConfHooks("shift", kv["shift"], kv["reduce"], track)
        # initial state: default member initialisers of the entry + the declarations before the loop
        init = {KIND: kv["error"], FLAG: 0, ARG: 65535}
        sts = [init]
        for st in pre:
            if st.get("k") == "IfStmt":
                continue            # the early return for an empty item list
            nxt = []
            for s in sts:
                nxt += fdi.exec_stmt(st, s, hooks0)
            sts = nxt
        body_paths = flow.paths(loop["body"], unroll=0)
        post_paths = flow.paths({"k": "CompoundStmt", "c": post}, unroll=1)
        # explore: (state, ghost) with ghost = (reduce items seen capped 2, shift items seen capped 1, root seen)
        start = [(fdi.freeze(s), s, (0, 0, 0)) for s in sts]
        work = list(start)
        visited = set()
        finals = []            # (state, ghost) at loop exit
        while work:
            fz, s, ghost = work.pop()
            if (fz, ghost) in visited:
                continue
            visited.add((fz, ghost))
            if ghost != (0, 0, 0):
                finals.append((s, ghost))          # the item list may end here
            for item in ("root", "reduce", "shift"):
                hooks = ConfHooks(item, kv["shift"], kv["reduce"], track)
                g2 = (min(2, ghost[0] + (item == "reduce")), min(1, ghost[1] + (item == "shift")),
                      1 if item == "root" else ghost[2])
                n_feasible = 0
                for ev, term_ in body_paths:
                    outs = fdi.exec_events(ev, s, hooks)
                    for o in outs:
                        n_feasible += 1
                        o = {k: v for k, v in o.items() if k[0] == "f" or _is_small(v)}
                        if term_ in ("fall", "continue"):
                            work.append((fdi.freeze(o), o, g2))
                        elif term_ == "break":
                            finals.append((o, g2 + ("break",)))
                        else:
                            chk.violation("CONF", A.site(f, loop), "CONF:transitions:loop-exit-%s" % term_,
                                          "the item loop is left by %s" % term_)
                if n_feasible == 0:
                    chk.incomplete("transitions: no feasible path for item class %s" % item)
        # post-loop processing and verdicts
        outcomes = {}
        for s, ghost in finals:
            for ev, term_ in post_paths:
                if term_ == "throw":
                    continue
                for o in fdi.exec_events(ev, s, hooks0):
                    g = ghost[:3]
                    outcomes.setdefault(g, set()).add((o.get(KIND), o.get(FLAG), _argsrc(o.get(ARG))))
        name = {v: k for k, v in kv.items()}

        def show(res):
            return sorted((name.get(k, str(k)), fl, a) for k, fl, a in res)
        for g, res in sorted(outcomes.items()):
            r, sh, root = g
            ks = {k for k, fl, a in res}
            fls = {fl for k, fl, a in res}
            site = A.site(f, loop)
            desc = "%s reduce item(s), %s shift item(s)%s" % ({0: "no", 1: "one", 2: "two or more"}[r],
                                                            {0: "no", 1: "one or more"}[sh],
                                                            ", root item" if root else "")
            bad = None
            if root:
                if ks != {kv["success"]}:
                    bad = "must be success"
            elif r >= 2:
                if ks != {kv["rr_conflict"]}:
                    bad = "must be rr_conflict"
            elif r == 1 and sh == 0:
                if ks != {kv["reduce"]} or fls != {0}:
                    bad = "must be reduce without the conflict flag"
                elif any(a != "rule_info_idx" for k, fl, a in res):
                    bad = "reduce entry must carry the rule of the completed item"
            elif r == 0 and sh == 1:
                if not ks <= {kv["shift"], kv["shift_error_recovery_token"]} or fls != {0}:
                    bad = "must be shift without the conflict flag"
            elif r == 1 and sh == 1:
                if not ks <= {kv["shift"], kv["shift_error_recovery_token"], kv["reduce"]} or \
                        kv["reduce"] not in ks or not (ks & {kv["shift"], kv["shift_error_recovery_token"]}):
                    bad = "must be the solver's choice (shift or reduce)"
                elif fls != {1}:
                    bad = "must carry the S/R conflict flag whatever the order of the items and the solver's choice"
                elif any(k == kv["reduce"] and a != "rule_info_idx" for k, fl, a in res):
                    bad = "a preferred reduce must carry the rule of the completed item"
            if bad:
                chk.violation("CONF", site, "CONF:transitions:r%d-s%d-root%d" % (r, sh, root),
                              "%s: entry %s; found %s" % (desc, bad, show(res)))
            elif (g,) not in seen:
                seen.add((g,))
                chk.ok("CONF", site, "%s -> %s" % (desc, show(res)))
        # error-token column rewriting (needed by C08): every shift for that column becomes shift_error_recovery_token
        chk.note("CONF explored %d abstract (state, history) pairs, %d loop exits" % (len(visited), len(finals)))


def _is_small(v):
    return isinstance(v, int) or (isinstance(v, tuple) and v[0] == "opaque")


def _argsrc(v):
    if isinstance(v, int):
        return "sentinel" if v == 65535 else str(v)
    s = str(v)
    if "rule_info_idx" in s:
        return "rule_info_idx"
    if "new_state_idx" in s or "state_count" in s:
        return "state"
    return s[:40]


# ------------------------------------------------------------------------------------------------- PRECFLOW
PREC_FIELDS = ("term_precedences", "term_associativities", "rule_precedences", "rule_associativities",
               "rule_last_terms")
ALLOWED_READERS = {"solve_conflict", "calculate_rule_precedence", "calculate_rule_associativity"}
ALLOWED_WRITERS = {"analyze_term", "analyze_rule", "analyze_eof", "analyze_error_recovery_token"}


def precflow(chk, fx):
    chk.rule("PRECFLOW", "accesses of the precedence tables", 10)
    seen = set()
    for fn in fx.all_fns():
        if fn.is_pattern:
            continue
        for n in walk(fn.body):
            if n.get("k") == "MemberExpr" and n["m"]["q"].startswith(GI) and n["m"]["n"] in PREC_FIELDS:
                name = fn.o["n"]
                key = (name, n["m"]["n"], n.get("l"))
                if name in ALLOWED_READERS or name in ALLOWED_WRITERS:
                    if key not in seen:
                        seen.add(key)
                        chk.ok("PRECFLOW", A.site(fn, n), "%s accessed by %s" % (n["m"]["n"], name))
                else:
                    chk.violation("PRECFLOW", A.site(fn, n), "PRECFLOW:%s:%s" % (fn.o["q"], n["m"]["n"]),
                                  "%s is read outside the conflict solver: another table cell may depend on "
                                  "precedence declarations" % n["m"]["n"])
