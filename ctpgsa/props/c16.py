"""C16 — verbosity and stream choice never change the outcome; the trace is truthful.

Non-interference by effect analysis on the resolved bodies of every function reachable from the parse and match
entry points (DESIGN.md 5/C16):
 EFF-V1  every stream write on the parse path is under a test of a `verbose` flag (or in a function that is only
         ever called under one), except the documented unconditional messages (syntax_error, unexpected_char,
         regex::expr::match)
 EFF-V2  both arms of every `if` whose condition mentions `verbose` contain only stream writes and calls of
         functions whose only effect is stream writes
 EFF-V3  `verbose` is read only by such tests and by the propagation set_verbose(options.verbose)
 EFF-V4  a stream object is only ever the left operand of <<, or passed on by reference
 EFF-V5  operands printed by << are effect-free
 TRACE   the operand printed after "Shift to"/"Go to"/"Reduced using rule"/"Recovering to state" is the very
         variable the action pushes / invokes / uncovers
"""
from .. import astq as A
from .. import graph as G
from ..facts import walk, strip, kids

PARSER = "ctpg::parser"
VERBOSE_FIELDS = {"ctpg::parse_options::verbose", "ctpg::match_options::verbose"}
UNCONDITIONAL = {  # function -> number of unguarded message statements allowed (documented failure reports)
    "ctpg::parser::syntax_error": 1,
    "ctpg::parser::unexpected_char": 1,
    "ctpg::regex::expr::match": 2,
}
# read-only accessors that may appear in printed operands although they are non-const overloads
READONLY_NAMES = {"back", "front", "size", "empty", "data", "begin", "end", "cbegin", "cend", "name", "get_name",
                  "operator[]", "operator*", "c_str", "length", "top", "get_view", "get_id"}
SETTERS = {"ctpg::parse_options::set_verbose", "ctpg::match_options::set_verbose"}


def is_stream_write(n):
    n = strip(n)
    return n is not None and n.get("k") == "CXXOperatorCallExpr" and n.get("op") == "<<"


def chain(n):
    """(root expression, [printed operands]) of a << chain."""
    ops = []
    n = strip(n)
    while is_stream_write(n):
        c = n["c"]
        ops.append(c[2])
        n = strip(c[1])
    ops.reverse()
    return n, ops


def mentions_verbose(e):
    for n in walk(e):
        if n.get("k") == "MemberExpr" and n["m"]["q"] in VERBOSE_FIELDS:
            return True
    return False


def is_pure_verbose_test(cond):
    """cond is exactly `x.verbose` (possibly parenthesised / implicitly converted)."""
    s = strip(cond)
    return s is not None and s.get("k") == "MemberExpr" and s["m"]["q"] in VERBOSE_FIELDS


class Effects:
    """Effect summaries of header functions: does a function do anything besides writing to a stream?"""

    def __init__(self, fx):
        self.fx = fx
        self.memo = {}

    def key(self, fn):
        return (id(fn.facts), fn.o["id"])

    def local_ids(self, fn):
        ids = set()
        for n in walk(fn.body):
            if n.get("k") == "Var":
                if not n.get("ref") and not n.get("staticlocal"):
                    ids.add(n["id"])
        for p in fn.o["params"]:
            if not p.get("ref"):
                ids.add(p["id"])
        return ids

    def impure_reasons(self, fn, depth=0):
        """List of reasons why calling fn may change state other than a stream; [] = stream-only/pure."""
        k = self.key(fn)
        if k in self.memo:
            return self.memo[k]
        self.memo[k] = []          # optimistic for recursion
        reasons = []
        loc = self.local_ids(fn)
        reasons += expr_effects(fn, fn.body, loc, self, depth)
        self.memo[k] = reasons
        return reasons


def expr_effects(fn, tree, local_ids, eff, depth=0):
    """Reasons why evaluating `tree` has an effect other than writing to a stream."""
    reasons = []
    for n, target, op in A.writes(tree):
        p = A.access_path(target)
        root = p[0] if p else None
        if root and root[0] == "var" and root[1] in local_ids and not any(c[0] == "deref" for c in p):
            continue
        reasons.append("%s to %s at %s" % (op, A.path_names(p), n.get("l")))
    for n in walk(tree):
        k = n.get("k")
        if k in ("CXXNewExpr", "CXXDeleteExpr"):
            reasons.append("%s at %s" % (k, n.get("l")))
        if k not in G.CALL_KINDS:
            continue
        if k == "CXXOperatorCallExpr" and n.get("op") == "<<":
            continue                      # the stream write itself; operands are walked separately
        c = n.get("callee") or n.get("ctor")
        if c is None:
            reasons.append("indirect call at %s" % n.get("l"))
            continue
        g = fn.facts.by_id.get(c["id"])
        if g is not None and depth < 6:
            sub = eff.impure_reasons(g, depth + 1)
            if sub:
                reasons.append("call of %s at %s which has effects (%s)" % (c["q"], n.get("l"), sub[0]))
            continue
        if k in ("CXXConstructExpr", "CXXTemporaryObjectExpr"):
            continue                      # constructing a temporary / local
        if c["q"] in SETTERS:
            obj = A.call_object(n)
            p = A.access_path(obj) if obj is not None else ()
            if p and p[0][0] == "var" and p[0][1] in local_ids:
                continue
        if c.get("const") or c.get("static"):
            continue
        if c["k"] == "CXXMethod":
            if c["n"] in READONLY_NAMES:
                continue
            obj = A.call_object(n)
            p = A.access_path(obj) if obj is not None else ()
            if p and p[0][0] == "var" and p[0][1] in local_ids:
                continue
            reasons.append("non-const member call %s on %s at %s" % (c["q"], A.path_names(p), n.get("l")))
            continue
        # free function / operator: effect-free when it cannot reach its arguments mutably
        t = fn.facts.T(c["t"])
        if _has_mutable_ref_param(t):
            reasons.append("call of %s with a mutable reference parameter at %s" % (c["q"], n.get("l")))
    return reasons


def _has_mutable_ref_param(fn_type):
    i = fn_type.find("(")
    j = fn_type.rfind(")")
    if i < 0 or j < 0:
        return False
    depth = 0
    cur = ""
    params = []
    for ch in fn_type[i + 1:j]:
        if ch in "<([":
            depth += 1
        if ch in ">)]":
            depth -= 1
        if ch == "," and depth == 0:
            params.append(cur)
            cur = ""
        else:
            cur += ch
    if cur.strip():
        params.append(cur)
    for p in params:
        p = p.strip()
        if (p.endswith("&") and not p.endswith("&&") or p.endswith("*")) and not p.startswith("const "):
            if "basic_ostream" in p or "ostream" in p or "no_stream" in p or "stringstream" in p:
                continue
            return True
    return False


def check(chk, fx):
    chk.explanation = (
        "Effect/taint analysis over the resolved bodies of every function reachable from context_parse, "
        "regex::expr::match and the lexers: stream writes are confined to verbose-guarded branches (or the three "
        "documented unconditional reports), verbose-guarded branches and printed operands have no other effect, the "
        "verbose flag and the stream object flow nowhere else. Hence neither flag nor stream type can influence any "
        "state or result (non-interference). TRACE ties each printed action operand to the operand the action uses. "
        "Not decided: completeness of the trace as a transcript of a reference LR run.")
    chk.assumptions += ["the user's operator<< for custom value types and the stream object do not touch the parser",
                        "functions of the standard library that are const or take only values/const references are "
                        "effect-free"]
    eff = Effects(fx)

    roots = [f for f in fx.need(PARSER + "::context_parse") if len(f.o["params"]) == 4]
    roots += [f for f in fx.need("ctpg::regex::expr::match") if len(f.o["params"]) == 3]
    reach = G.reachable(roots)
    reach = [f for f in reach if not f.is_pattern]
    chk.note("functions reachable from the entry points: %d instantiations" % len(reach))

    # which functions are only ever called under a verbose guard (trace helpers)?
    guarded_calls = {}   # (q,l) -> [bool guarded]
    for f in reach:
        for st, guards in G.guarded_statements(f.body):
            if st.get("k") in ("IfStmt", "WhileStmt", "ForStmt", "CXXForRangeStmt"):
                sub = [st.get("cond"), st.get("init"), st.get("inc"), st.get("range")]
            else:
                sub = [st]
            g = any(gk == "if" and mentions_verbose(gn["cond"]) for gk, gn, arm in guards)
            for s in sub:
                for n in walk(s):
                    if n.get("k") in G.CALL_KINDS:
                        c = n.get("callee") or n.get("ctor")
                        if c is None:
                            continue
                        callee = f.facts.by_id.get(c["id"])
                        if callee is not None:
                            guarded_calls.setdefault((callee.o["q"], callee.o["l"]), []).append(g)
    root_keys = {(f.o["q"], f.o["l"]) for f in roots}

    def trace_only(f):
        k = (f.o["q"], f.o["l"])
        if k in root_keys:
            return False
        gs = guarded_calls.get(k)
        return bool(gs) and all(gs)

    chk.rule("EFF-V1", "stream-write statements on the parse/match path", 20)
    chk.rule("EFF-V2", "branches of verbose tests", 15)
    chk.rule("EFF-V3", "reads of a verbose flag", 15)
    chk.rule("EFF-V4", "uses of a stream object", 20)
    chk.rule("EFF-V5", "operands printed by <<", 40)
    seen = set()

    def once(rule, fn, n):
        k = (rule, fn.o["q"], (n or {}).get("l"))
        if k in seen:
            return False
        seen.add(k)
        return True

    for f in reach:
        q = f.o["q"]
        if q.startswith("ctpg::utils::no_stream"):
            continue
        t_only = trace_only(f)
        unguarded = 0
        loc = eff.local_ids(f)
        for st, guards in G.guarded_statements(f.body):
            vguards = [(gn, arm) for gk, gn, arm in guards if gk == "if" and mentions_verbose(gn["cond"])]
            # ---- V2 / V3: an if whose condition mentions verbose
            if st.get("k") == "IfStmt" and mentions_verbose(st["cond"]):
                if not is_pure_verbose_test(st["cond"]):
                    chk.violation("EFF-V3", A.site(f, st), "EFF-V3:%s:compound-verbose-test" % q,
                                  "condition combines the verbose flag with other state")
                for arm in ("then", "else"):
                    body = st.get(arm)
                    if body is None:
                        continue
                    bad = _non_trace_statements(f, body, eff, loc)
                    if bad:
                        for b in bad:
                            chk.violation("EFF-V2", A.site(f, st), "EFF-V2:%s:%s" % (q, b.split(" at ")[0][:60]),
                                          "the %s-branch of a verbose test does more than write to the stream: %s" %
                                          (arm, b))
                    elif once("EFF-V2", f, body):
                        chk.ok("EFF-V2", A.site(f, st), "%s-branch of the verbose test only writes to the stream" % arm)
                if once("EFF-V3", f, st["cond"]):
                    chk.ok("EFF-V3", A.site(f, st["cond"]), "verbose read as the condition of a trace-only if")
                continue
            # ---- V1: stream write statements
            if is_stream_write(st):
                root, ops = chain(st)
                if vguards:
                    if all(arm == "then" for gn, arm in vguards):
                        if once("EFF-V1", f, st):
                            chk.ok("EFF-V1", A.site(f, st), "stream write guarded by a verbose test")
                    else:
                        chk.violation("EFF-V1", A.site(f, st), "EFF-V1:%s:write-under-negated-verbose" % q,
                                      "stream write in the else-branch of a verbose test: output depends on verbose "
                                      "being off")
                elif t_only or q.startswith("ctpg::operator<<") or _is_diag(q):
                    if once("EFF-V1", f, st):
                        chk.ok("EFF-V1", A.site(f, st), "stream write in a function only called under a verbose guard"
                               if t_only else "stream write in a diagnostic/printing helper")
                elif q in UNCONDITIONAL:
                    unguarded += 1
                    if once("EFF-V1", f, st):
                        chk.ok("EFF-V1", A.site(f, st), "documented unconditional failure report")
                else:
                    chk.violation("EFF-V1", A.site(f, st), "EFF-V1:%s:unguarded-write" % q,
                                  "stream write on the parse path that is not guarded by a verbose test")
                # ---- V5 operands
                for o in ops:
                    r = expr_effects(f, o, loc, eff)
                    mt = _manipulator(f, o)
                    if mt:
                        chk.violation("EFF-V5", A.site(f, o), "EFF-V5:%s:manipulator" % q,
                                      "a stream manipulator (%s) is inserted: it changes the formatting state of the "
                                      "caller's stream for everything printed afterwards, so the ordinary messages no "
                                      "longer appear unchanged in the verbose output" % mt)
                    elif r:
                        chk.violation("EFF-V5", A.site(f, o), "EFF-V5:%s:%s" % (q, r[0].split(" at ")[0][:60]),
                                      "printed operand has a side effect: " + r[0])
                    elif once("EFF-V5", f, o):
                        chk.ok("EFF-V5", A.site(f, o), "printed operand is effect-free")
        if q in UNCONDITIONAL and unguarded > UNCONDITIONAL[q]:
            chk.violation("EFF-V1", A.site(f), "EFF-V1:%s:extra-unconditional-message" % q,
                          "%d unconditional messages, %d documented" % (unguarded, UNCONDITIONAL[q]))

        # ---- V3: any other read of verbose
        pm = None
        for n in walk(f.body):
            if n.get("k") == "MemberExpr" and n["m"]["q"] in VERBOSE_FIELDS:
                if pm is None:
                    pm = _parents(f.body)
                ctx = _context_of(n, pm)
                if ctx in ("if-cond", "set_verbose-arg", "setter-body"):
                    if ctx != "if-cond" and once("EFF-V3", f, n):
                        chk.ok("EFF-V3", A.site(f, n), "verbose only propagated (%s)" % ctx)
                else:
                    chk.violation("EFF-V3", A.site(f, n), "EFF-V3:%s:verbose-used-as-%s" % (q, ctx),
                                  "the verbose flag flows into %s: it can influence more than the trace" % ctx)
        # ---- V4: uses of stream objects
        if pm is None:
            pm = _parents(f.body)
        for n in walk(f.body):
            if _is_stream_root(f, n):
                ctx = _stream_context(n, pm)
                if ctx in ("lhs-of-<<", "call-argument", "ctor-argument", "returned"):
                    if once("EFF-V4", f, n):
                        chk.ok("EFF-V4", A.site(f, n), "stream used as " + ctx)
                else:
                    chk.violation("EFF-V4", A.site(f, n), "EFF-V4:%s:stream-%s" % (q, ctx),
                                  "stream object used as %s: its state can influence the parse" % ctx)

    # ---------------------------------------------------------------- TRACE
    chk.rule("TRACE", "trace labels whose printed operand must be the action's operand", 4)
    _trace(chk, fx)
    _trace_recognized(chk, fx)
    # "with any error-stream type or none": the stream-less and option-less overloads hand everything else on unchanged
    from .. import primrules
    primrules.prims(chk, fx, "OVL")
    # every name the trace prints comes out of term_names / nterm_names: how they are filled
    from .. import primrules
    primrules.prims(chk, fx, "NAMEFILL")
    # the characters named in the trace ("Current char", "Unexpected character") come out of a 256-entry name table:
    # a byte must reach it as an unsigned index or the trace names something that was never read
    from .. import lexrules
    lexrules.charidx(chk, fx)


def _is_diag(q):
    n = q.split("::")[-1]
    return n.startswith("write_") and n.endswith("diag_str") or n in ("write_regex_parser_diag_msg", "debug_parse") \
        or "(lambda@" in q and "write_dfa_state_diag_str" in q


def _non_trace_statements(f, body, eff, loc):
    """Reasons why a branch does more than write to the stream."""
    bad = []
    for st, guards in G.guarded_statements(body):
        k = st.get("k")
        if k in ("IfStmt", "WhileStmt", "ForStmt", "CXXForRangeStmt"):
            for part in ("cond", "init", "inc", "range"):
                if st.get(part):
                    bad += expr_effects(f, st[part], loc, eff)
            continue
        if k in ("ReturnStmt", "BreakStmt", "ContinueStmt", "CXXThrowExpr"):
            bad.append("%s at %s (control flow depends on verbose)" % (k, st.get("l")))
            continue
        if k == "DeclStmt":
            for d in st.get("decls", ()):
                if d.get("init"):
                    bad += expr_effects(f, d["init"], loc, eff)
            continue
        if k == "NullStmt":
            continue
        bad += expr_effects(f, st, loc, eff)
    return bad


def _parents(body):
    pm = {}
    stack = [body]
    while stack:
        x = stack.pop()
        if x is None:
            continue
        for c in kids(x):
            pm[id(c)] = x
            stack.append(c)
    return pm


def _context_of(n, pm):
    """How a read of verbose is used."""
    cur = n
    while True:
        par = pm.get(id(cur))
        if par is None:
            return "value"
        k = par.get("k")
        if k in ("ImplicitCastExpr", "ParenExpr"):
            cur = par
            continue
        if k == "IfStmt" and par.get("cond") is cur:
            return "if-cond"
        if k == "UnaryOperator" and par.get("op") == "!":
            cur = par
            continue
        if k == "CXXMemberCallExpr" and (par.get("callee") or {}).get("q") in SETTERS:
            return "set_verbose-arg"
        if k in ("WhileStmt", "ForStmt") and par.get("cond") is cur:
            return "loop-condition"
        if k == "ConditionalOperator":
            return "conditional-operator"
        if k in ("BinaryOperator", "CompoundAssignOperator"):
            if par.get("op") == "=" and strip(par["c"][0]) is n:
                return "setter-body"      # verbose = val (inside set_verbose)
            return "operand-of-" + par.get("op", "?")
        if k in ("CallExpr", "CXXMemberCallExpr", "CXXConstructExpr", "CXXOperatorCallExpr"):
            return "argument-of-" + ((par.get("callee") or par.get("ctor") or {}).get("n") or "call")
        if k == "Var":
            return "initialiser-of-" + par.get("n", "?")
        if k == "ReturnStmt":
            return "return-value"
        return k


STATEFUL_MANIP_TYPES = ("std::_Setw", "std::_Setfill", "std::_Setprecision", "std::_Setbase", "std::_Setiosflags",
                        "std::_Resetiosflags")
STATELESS_MANIPS = ("endl", "flush", "ends")


def _manipulator(f, o):
    """Name of the stateful stream manipulator an inserted operand is (std::hex, std::setw(...), ...), else None."""
    s = strip(o, casts=True)
    if s is None:
        return None
    t = f.facts.TC(s.get("t"))
    if s.get("k") == "DeclRefExpr" and s["d"]["k"] == "Function" and s["d"].get("f") != "ctpg":
        if s["d"]["n"] in STATELESS_MANIPS:
            return None
        if "ios_base &" in t or "basic_ios<" in t or "basic_ostream<" in t:
            return "std::" + s["d"]["n"]
    for m in STATEFUL_MANIP_TYPES:
        if t.replace("const ", "").startswith(m):
            return m.replace("_S", "s").replace("_R", "r") + "(...)"
    return None


def _is_stream_root(f, n):
    if n.get("k") == "MemberExpr" and n["m"]["q"] == "ctpg::detail::parse_state::error_stream":
        return True
    if n.get("k") == "DeclRefExpr" and n["d"]["k"] == "ParmVar":
        t = f.facts.T(n["d"]["t"])
        if t.endswith("&") and _is_stream_type(t):
            return True
    return False


STREAM_TYPES = ("ctpg::utils::no_stream", "std::basic_ostream<", "std::basic_stringstream<", "std::ostream",
                "std::stringstream", "std::basic_ostringstream<", "std::ostringstream", "std::basic_iostream<")


def _is_stream_type(t):
    base = t.rstrip("& ").strip()
    if base.startswith("const "):
        base = base[6:]
    return base.startswith(STREAM_TYPES)


def _stream_context(n, pm):
    cur = n
    while True:
        par = pm.get(id(cur))
        if par is None:
            return "statement"
        k = par.get("k")
        if k in ("ImplicitCastExpr", "ParenExpr", "MaterializeTemporaryExpr"):
            cur = par
            continue
        if k == "CXXOperatorCallExpr" and par.get("op") == "<<":
            c = par.get("c") or []
            if len(c) > 1 and c[1] is cur:
                return "lhs-of-<<"
            return "printed-operand"
        if k in ("CallExpr", "CXXMemberCallExpr", "CXXOperatorCallExpr"):
            cal = par.get("c") or []
            if cal and cal[0] is cur:
                return "callee"
            return "call-argument"
        if k in ("CXXConstructExpr", "CXXTemporaryObjectExpr", "InitListExpr"):
            return "ctor-argument"
        if k == "ReturnStmt":
            return "returned"
        if k == "MemberExpr":
            return "object-of-member-" + par["m"]["n"]
        if k == "IfStmt":
            return "condition"
        return k


LABELS = {
    "Shift to ": "push",
    "Go to ": "push",
    "Reduced using rule ": "invoke",
    "Recovering to state ": "top-after-pop",
}


def _string_of(n):
    n = strip(n)
    if n is not None and n.get("k") == "StringLiteral" and "bytes" in n:
        return bytes(n["bytes"]).decode("latin1")
    return None


def _same_path(a, b):
    pa, pb = A.access_path(a), A.access_path(b)
    if len(pa) != len(pb) or not pa:
        return False
    for x, y in zip(pa, pb):
        if x[0] != y[0]:
            return False
        if x[0] in ("var", "field") and x[1] != y[1]:
            return False
        if x[0] in ("other", "call"):
            if x[0] == "call" and x[1] == y[1]:
                continue
            return False
    return True


def _trace(chk, fx):
    seen = set()
    for name in ("shift", "shift_recovery_token", "reduce", "pop_stacks"):
        fns = fx.need(PARSER + "::" + name)
        for f in fns:
            pushes = []
            invokes = []
            pops = []
            order = []
            for n in walk(f.body):
                if n.get("k") == "CXXMemberCallExpr":
                    c = n.get("callee") or {}
                    obj = A.call_object(n)
                    names = A.field_names(A.access_path(obj)) if obj is not None else []
                    if c.get("n") == "push_back" and "cursor_stack" in names:
                        pushes.append(A.call_args(n)[0])
                    if c.get("n") == "pop_back" and "cursor_stack" in names:
                        pops.append(n)
                    if c.get("n") == "invoke":
                        invokes.append(A.call_args(n)[1])
            for st, guards in G.guarded_statements(f.body):
                if not is_stream_write(st):
                    continue
                root, ops = chain(st)
                for i, o in enumerate(ops):
                    s = _string_of(o)
                    if s is None:
                        continue
                    for lab, kind in LABELS.items():
                        if not s.endswith(lab):
                            continue
                        if i + 1 >= len(ops):
                            chk.violation("TRACE", A.site(f, st), "TRACE:%s:%s:no-operand" % (name, lab.strip()),
                                          "label '%s' is not followed by a value" % lab)
                            continue
                        val = ops[i + 1]
                        key = (name, lab, st.get("l"))
                        okmsg = None
                        if kind == "push":
                            if len(pushes) != 1:
                                chk.incomplete("%s: expected one cursor_stack.push_back, found %d" % (name, len(pushes)))
                            if _same_path(val, pushes[0]):
                                okmsg = "prints %s, which is what is pushed on the cursor stack" % \
                                        A.path_names(A.access_path(val))
                            else:
                                chk.violation("TRACE", A.site(f, val), "TRACE:%s:%s" % (name, lab.strip()),
                                              "trace prints %s but the state pushed is %s" % (
                                                  A.path_names(A.access_path(val)),
                                                  A.path_names(A.access_path(pushes[0]))))
                        elif kind == "invoke":
                            if len(invokes) != 1:
                                chk.incomplete("%s: expected one reductors.invoke, found %d" % (name, len(invokes)))
                            if _same_path(val, invokes[0]):
                                okmsg = "prints %s, the rule number handed to invoke" % A.path_names(A.access_path(val))
                            else:
                                chk.violation("TRACE", A.site(f, val), "TRACE:%s:%s" % (name, lab.strip()),
                                              "trace prints %s but the rule invoked is %s" % (
                                                  A.path_names(A.access_path(val)),
                                                  A.path_names(A.access_path(invokes[0]))))
                        else:
                            s2 = strip(val)
                            p = A.access_path(s2)
                            is_back = s2 is not None and s2.get("k") == "CXXMemberCallExpr" and \
                                (s2.get("callee") or {}).get("n") == "back" and \
                                "cursor_stack" in A.field_names(A.access_path(A.call_object(s2)))
                            after_pop = bool(pops) and _loc_lt(pops[0].get("l"), st.get("l"))
                            if is_back and after_pop:
                                okmsg = "prints cursor_stack.back() after the pop"
                            else:
                                chk.violation("TRACE", A.site(f, val), "TRACE:%s:%s" % (name, lab.strip()),
                                              "trace does not print the state uncovered by the pop (%s)" %
                                              A.path_names(p))
                        if okmsg and key not in seen:
                            seen.add(key)
                            chk.ok("TRACE", A.site(f, val), okmsg)


def _loc_lt(a, b):
    try:
        la, ca = [int(x) for x in a.split(":")[-2:]]
        lb, cb = [int(x) for x in b.split(":")[-2:]]
        return (la, ca) < (lb, cb)
    except Exception:
        return False


def _trace_recognized(chk, fx):
    """TRACE-R: every term the parser gets to see is announced. On every structured path of get_current_term that gets
    as far as the end-of-input test (i.e. looks for a new term) and does not report a lexer failure, the pending term
    is set and trace_recognized_term is called exactly once, after the term was set. (The trace helper itself is
    verbose-guarded: EFF-V1.)"""
    from .. import flow
    from ..canon import Canon
    chk.rule("TRACE-R", "paths of get_current_term that produce a new term announce it", 2)
    seen = set()
    for f in fx.need(PARSER + "::get_current_term")[:4]:
        cn = Canon(f)
        flow.assert_structured(f)
        n_new = 0
        for ev, term_ in flow.paths(f.body, unroll=1):
            eof_test = False
            assigned = None
            traced = []
            failed = False
            for i, e in enumerate(ev):
                if e[0] == "cond" and "buffer_end" in cn.c(e[1]):
                    eof_test = True
                if e[0] in ("stmt", "cond", "return"):
                    node = e[1] if e[0] != "return" else e[1].get("value")
                    for n in walk(node):
                        if A.is_call(n):
                            nm = n["callee"]["n"]
                            if nm == "trace_recognized_term":
                                traced.append(i)
                            elif nm == "unexpected_char":
                                failed = True
                    if e[0] == "stmt":
                        for n2, target, op in A.writes(e[1]):
                            p = A.access_path(target)
                            if p and p[-1][0] == "field" and p[-1][2] == "current_term_idx" and assigned is None:
                                assigned = i
            if not eof_test or failed:
                continue
            n_new += 1
            key = (f.o.get("l"), tuple(id(e[1]) for e in ev if e[0] == "cond"), tuple(e[2] for e in ev if e[0] == "cond"))
            if key in seen:
                continue
            seen.add(key)
            site = A.site(f)
            if assigned is None:
                chk.violation("TRACE-R", site, "TRACE-R:get_current_term:term-not-set",
                              "a path that looks for a new term and does not fail returns without setting the pending term")
            elif len(traced) != 1:
                chk.violation("TRACE-R", site, "TRACE-R:get_current_term:not-announced",
                              "a path that produces a new term calls trace_recognized_term %d time(s): with verbose on "
                              "the trace omits (or repeats) a term the parser acts on" % len(traced))
            elif traced[0] < assigned:
                chk.violation("TRACE-R", site, "TRACE-R:get_current_term:announced-before-set",
                              "the term is announced before it is stored: the trace names the previous term")
            else:
                chk.ok("TRACE-R", site, "new term set, then announced once")
        if n_new == 0:
            chk.incomplete("TRACE-R: no path of get_current_term reaches the end-of-input test")


def manip_scan(chk, fx, rule):
    """No stateful stream manipulator (std::hex, std::setw(...), ...) is inserted anywhere in the header: the stream is the
    caller's object, shared by every call that is given it; formatting state left behind by one call changes what the next
    one prints."""
    chk.rule(rule, "stream insertions of the header without a stateful manipulator", 20)
    seen = set()
    for f in fx.all_fns():
        if f.is_pattern or f.body is None or not f.o["q"].startswith("ctpg::"):
            continue
        key = (f.o["q"], f.o.get("l"))
        if key in seen:
            continue
        seen.add(key)
        n_writes = 0
        bad = False
        for st, guards in G.guarded_statements(f.body):
            if not is_stream_write(st):
                continue
            n_writes += 1
            root, ops = chain(st)
            for o in ops:
                mt = _manipulator(f, o)
                if mt:
                    bad = True
                    chk.violation(rule, A.site(f, o), "%s:%s:manipulator" % (rule, f.o["q"]),
                                  "a stream manipulator (%s) is inserted into the caller's stream and never undone: the "
                                  "formatting state it leaves behind is shared by every later call given the same stream" % mt)
        if n_writes and not bad:
            chk.ok(rule, A.site(f), "%d insertion(s), none of them a stateful manipulator" % n_writes)
