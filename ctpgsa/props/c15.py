"""C15 — a parser object is immutable: parses are independent and thread-safe.

Decided completely from declarations and resolved bodies (DESIGN.md 5/C15):
 IMM-1 entry points are const members          IMM-2 no `mutable` field anywhere in the header
 IMM-3 no const_cast / reinterpret_cast / const-removing C-style cast
 IMM-4 namespace-scope variables are const      IMM-5 no static / thread_local local
 IMM-6 static data members are const            IMM-7 parse state and custom lexer are automatic locals
 IMM-8 no write through `this` in const members IMM-9 no pointer/reference-to-mutable member in parser
With 1-3 and 9 the C++ type rules forbid any write to the parser object from the entry points; 4-7 rule
out hidden shared state, so concurrent calls share only read-only data.
"""
from .. import astq as A
from ..facts import walk, strip

PARSER = "ctpg::parser"
ENTRY = {"parse", "context_parse", "write_diag_str"}
EXPR = "ctpg::regex::expr"
EXPR_ENTRY = {"match", "write_diag_str"}


def check(chk, fx):
    chk.explanation = (
        "Immutability is decided from declarations and resolved bodies of the current ctpg.hpp: const-ness of "
        "every public entry point, absence of mutable fields / const-removing casts / non-const globals / static "
        "locals / non-const static members, automatic storage of all parse state, and (second opinion) absence of "
        "writes through `this` in const members. These are the only ways C++ lets a const call modify the object or "
        "shared state, so the conjunction is a proof for all interleavings, given thread-safe user functors, lexers "
        "and streams and the standard library.")
    chk.assumptions += ["user-supplied functors, custom lexers, contexts and streams do not share mutable state",
                        "standard library functions called by the header (std::get, std::move, string_view, vector) "
                        "are re-entrant"]

    # ---------------------------------------------------------------- IMM-1 entry points const
    chk.rule("IMM-1", "public entry points of parser and regex::expr are const members", 7 + 5)
    seen = set()
    for rq, entry in ((PARSER, ENTRY), (EXPR, EXPR_ENTRY)):
        recs = [(u, r) for u, r in fx.records(rq) if r["fields"]]
        chk.require(recs, "record %s not found" % rq)
        for u, r in recs:
            for m in r["members"]:
                if m["k"] not in ("method", "method_template"):
                    continue
                if m.get("access") != "public" or m.get("static") or m.get("dk") != "CXXMethod":
                    continue
                key = (rq, m["n"], m["l"])
                if m["n"] in entry:
                    if key in seen:
                        continue
                    seen.add(key)
                    s = "include/ctpg/ctpg.hpp:%s %s::%s" % (m["l"], rq, m["n"])
                    if m.get("const"):
                        chk.ok("IMM-1", s, "declared const")
                    else:
                        chk.violation("IMM-1", s, "IMM-1:%s::%s:non-const" % (rq, m["n"]),
                                      "entry point is not a const member: a call may modify the shared object")
                else:
                    # any other public non-static method must not be able to mutate either
                    if key in seen:
                        continue
                    seen.add(key)
                    s = "include/ctpg/ctpg.hpp:%s %s::%s" % (m["l"], rq, m["n"])
                    if m.get("const"):
                        chk.ok("IMM-1", s, "public method (not a documented entry point) declared const")
                    else:
                        chk.violation("IMM-1", s, "IMM-1:%s::%s:non-const-public" % (rq, m["n"]),
                                      "public non-const method on the parser type: the object is no longer "
                                      "read-only after construction")

    # ---------------------------------------------------------------- IMM-2 no mutable fields
    chk.rule("IMM-2", "records of the header without a mutable field", 60)
    seen = set()
    for u, r in fx.records():
        if r.get("lambda"):
            continue
        key = (r["q"], r["l"])
        for f in r["fields"]:
            if f.get("mutable"):
                chk.violation("IMM-2", "include/ctpg/ctpg.hpp:%s %s::%s" % (f["l"], r["q"], f["n"]),
                              "IMM-2:%s::%s:mutable" % (r["q"], f["n"]),
                              "mutable field: can be written through a const parser / in a const call")
        if key in seen:
            continue
        seen.add(key)
        if not any(f.get("mutable") for f in r["fields"]):
            chk.ok("IMM-2", "include/ctpg/ctpg.hpp:%s %s" % (r["l"], r["q"]),
                   "%d field(s), none mutable" % len(r["fields"]))

    # ---------------------------------------------------------------- IMM-3 casts
    chk.rule("IMM-3", "function bodies scanned for const-removing casts", 200)
    seen = set()
    for fn in fx.all_fns():
        key = (fn.o["q"], fn.o["l"])
        bad = False
        for n in walk(fn.body):
            k = n.get("k")
            if k in ("CXXConstCastExpr", "CXXReinterpretCastExpr"):
                bad = True
                chk.violation("IMM-3", A.site(fn, n), "IMM-3:%s:%s" % (fn.o["q"], k),
                              "%s in the header: constness of shared data can be removed" % k)
            elif k in ("CStyleCastExpr", "CXXFunctionalCastExpr") and not fn.is_pattern:
                src = (n.get("c") or [None])[0]
                dt = fn.facts.T(n.get("t"))
                st = fn.facts.T(src.get("t")) if src else ""
                if _removes_const(st, dt, n.get("ck")):
                    bad = True
                    chk.violation("IMM-3", A.site(fn, n), "IMM-3:%s:cstyle-const-removal" % fn.o["q"],
                                  "C-style cast from '%s' to '%s' removes const" % (st[:80], dt[:80]))
        for i in fn.o.get("inits", ()):
            for n in walk(i.get("init")):
                if n.get("k") in ("CXXConstCastExpr", "CXXReinterpretCastExpr"):
                    bad = True
                    chk.violation("IMM-3", A.site(fn, n), "IMM-3:%s:%s" % (fn.o["q"], n["k"]),
                                  "%s in a constructor initialiser" % n["k"])
        if key not in seen and not bad:
            seen.add(key)
            chk.ok("IMM-3", A.site(fn), "no const_cast / reinterpret_cast / const-removing cast")

    # ---------------------------------------------------------------- IMM-4 / IMM-6 variables
    chk.rule("IMM-4", "namespace-scope variables of the header are const/constexpr", 25)
    chk.rule("IMM-6", "static data members are const/constexpr", 20)
    seen = set()
    for u, v in fx.vars():
        key = (v["q"], v["l"])
        if key in seen:
            continue
        seen.add(key)
        s = "include/ctpg/ctpg.hpp:%s %s" % (v["l"], v["q"])
        rule = "IMM-6" if v["staticmember"] else "IMM-4"
        if v.get("tls"):
            chk.violation(rule, s, "%s:%s:thread_local" % (rule, v["q"]), "thread_local variable: hidden per-thread state")
        elif v["cx"] or v["const"]:
            chk.ok(rule, s, "constexpr" if v["cx"] else "const")
        elif v.get("dependent") and not v["const"] and not v["cx"]:
            chk.violation(rule, s, "%s:%s:non-const" % (rule, v["q"]), "non-const variable with static storage")
        else:
            chk.violation(rule, s, "%s:%s:non-const" % (rule, v["q"]),
                          "non-const variable with static storage: shared mutable state between parses")

    # ---------------------------------------------------------------- IMM-5 static locals
    chk.rule("IMM-5", "function bodies scanned for static / thread_local locals", 200)
    seen = set()
    for fn in fx.all_fns():
        key = (fn.o["q"], fn.o["l"])
        bad = False
        for n in walk(fn.body):
            if n.get("k") == "Var" and (n.get("staticlocal") or n.get("tls")):
                if n.get("cx") or n.get("const"):
                    continue  # a static constexpr / const table is read-only
                bad = True
                chk.violation("IMM-5", A.site(fn, n), "IMM-5:%s:%s" % (fn.o["q"], n["n"]),
                              "local '%s' has static/thread storage: state shared between calls" % n["n"])
        if key not in seen and not bad:
            seen.add(key)
            chk.ok("IMM-5", A.site(fn), "all locals automatic (or static const)")

    # ---------------------------------------------------------------- IMM-7 parse state is local
    chk.rule("IMM-7", "parse state / lexer objects are automatic locals", 2)
    cps = [f for f in fx.need(PARSER + "::context_parse") if len(f.o["params"]) == 4]
    chk.require(cps, "4-parameter context_parse instantiation not found")
    seen = set()
    for fn in cps:
        locs = {}
        for n in walk(fn.body):
            if n.get("k") == "Var":
                locs[n["id"]] = n
        # the parse_state object and everything it refers to
        ps = [v for v in locs.values() if "parse_state" in fn.facts.T(v["t"])]
        if len(ps) != 1:
            chk.incomplete("context_parse: expected exactly one parse_state local, found %d" % len(ps))
        ps = ps[0]
        ctor = strip(ps.get("init"))
        if ctor is None or ctor.get("k") != "CXXConstructExpr":
            chk.incomplete("context_parse: parse_state is not directly constructed")
        args = ctor.get("c") or []
        problems = []
        if ps.get("staticlocal") or ps.get("ref"):
            problems.append("parse_state object '%s' is not an automatic local" % ps["n"])
        nlocal = 0
        for a in args:
            for d in walk(a):
                if d.get("k") == "DeclRefExpr" and d["d"]["k"] == "Var":
                    v = locs.get(d["d"]["id"])
                    if v is None:
                        problems.append("parse_state constructed from non-local variable '%s'" % d["d"]["n"])
                    elif v.get("staticlocal"):
                        problems.append("parse_state constructed from static local '%s'" % v["n"])
                    else:
                        nlocal += 1
                if d.get("k") == "MemberExpr" and d["m"]["k"] == "Field" and not _ctor_arg_is_const(fn, a):
                    problems.append("parse_state refers to member '%s' through a non-const path" % d["m"]["n"])
        key = ("cp", fn.o["l"])
        if problems:
            for p in problems:
                chk.violation("IMM-7", A.site(fn, ps), "IMM-7:context_parse:" + p.split("'")[0].strip(), p)
        elif key not in seen:
            seen.add(key)
            chk.ok("IMM-7", A.site(fn, ps), "parse_state and the %d stack/reductor objects it refers to are automatic "
                                            "locals of context_parse" % nlocal)
    # custom lexer object
    gcts = fx.need(PARSER + "::get_current_term")
    n_lexer = 0
    for fn0 in gcts:
        for fn in A.with_helpers(fn0):
            for n in walk(fn.body):
                if A.is_call(n, name="match") and n.get("k") == "CXXMemberCallExpr":
                    obj = A.call_object(n)
                    d = A.declref(obj)
                    if d is None or d["k"] != "Var":
                        chk.violation("IMM-7", A.site(fn, n), "IMM-7:get_current_term:lexer-not-local",
                                      "custom lexer's match() is called on '%s', not on a local object" %
                                      A.path_names(A.access_path(obj)))
                        continue
                    v = [x for x in walk(fn.body) if x.get("k") == "Var" and x["id"] == d["id"]]
                    if not v or v[0].get("staticlocal") or v[0].get("ref"):
                        chk.violation("IMM-7", A.site(fn, n), "IMM-7:get_current_term:lexer-not-automatic",
                                      "custom lexer object '%s' is not an automatic local" % d["n"])
                        continue
                    n_lexer += 1
                    if ("lex", n["l"]) not in seen:
                        seen.add(("lex", n["l"]))
                        chk.ok("IMM-7", A.site(fn, n), "custom lexer '%s' is an automatic local of get_current_term" % d["n"])
    chk.require(n_lexer >= 1, "no custom-lexer instantiation of get_current_term in the witness matrix")

    # ---------------------------------------------------------------- IMM-8 writes through this in const members
    chk.rule("IMM-8", "const member functions of parser / regex::expr without a write rooted at this", 20)
    seen = set()
    for fn in fx.all_fns():
        if fn.is_pattern or not fn.o.get("const"):
            continue
        par = fn.o.get("parent", "")
        if par not in (PARSER, EXPR):
            continue
        bad = False
        for n, target, op in A.writes(fn.body):
            p = A.access_path(target)
            if p and p[0][0] == "this":
                bad = True
                chk.violation("IMM-8", A.site(fn, n), "IMM-8:%s:%s" % (fn.o["q"], A.path_names(p)),
                              "write (%s) to %s inside a const member function" % (op, A.path_names(p)))
        for n in walk(fn.body):
            if n.get("k") == "CXXMemberCallExpr":
                c = n.get("callee")
                obj = A.call_object(n)
                p = A.access_path(obj) if obj is not None else ()
                if c and not c.get("const") and not c.get("static") and p and p[0][0] == "this" \
                        and c.get("f") == "ctpg":
                    bad = True
                    chk.violation("IMM-8", A.site(fn, n), "IMM-8:%s:nonconst-call:%s" % (fn.o["q"], c["n"]),
                                  "non-const member %s called on %s inside a const member function" %
                                  (c["q"], A.path_names(p)))
        key = (fn.o["q"], fn.o["l"])
        if key not in seen and not bad:
            seen.add(key)
            chk.ok("IMM-8", A.site(fn), "no assignment/++/--/non-const call rooted at this")

    # ---------------------------------------------------------------- IMM-9 no pointer/ref to mutable in parser
    chk.rule("IMM-9", "data members of parser / regex::expr hold no pointer or reference to mutable data", 12)
    seen = set()
    for rq in (PARSER, EXPR):
        for u, r in fx.records(rq):
            if r["tmpl"] == "pattern":
                continue
            for f in r["fields"]:
                t = u.T(f["t"])
                key = (rq, f["n"])
                if key in seen:
                    continue
                seen.add(key)
                s = "include/ctpg/ctpg.hpp:%s %s::%s" % (f["l"], rq, f["n"])
                if _points_to_mutable(t):
                    chk.violation("IMM-9", s, "IMM-9:%s::%s" % (rq, f["n"]),
                                  "member of type '%s' lets a const call write to the pointee" % t[:100])
                else:
                    chk.ok("IMM-9", s, "type '%s' owns its data or points to const" % t[:60])


    # ---------------------------------------------------------------- library functors leave lvalues alone
    # a context or value that the caller still owns reaches the helper functors (_e1.., val, create, ...) as an lvalue:
    # the helpers may move only from rvalues, or one call empties what the next call (or the caller) relies on
    from . import c19
    c19.hlp_t(chk, ("clang++",))

    # the caller's stream is shared between calls: nothing may leave formatting state behind in it
    from . import c16
    c16.manip_scan(chk, fx, "IMM-11")

    # ---------------------------------------------------------------- IMM-10 grammar objects own their members
    owners = ("ctpg::detail::rule", "ctpg::term", "ctpg::char_term", "ctpg::string_term", "ctpg::regex_term",
              "ctpg::custom_term", "ctpg::typed_term", "ctpg::nterm")
    chk.rule("IMM-10", "members of the grammar objects stored in a parser (rules, terms, nterms): owned, never references", 12)
    seen = set()
    lvalue_witness = False
    for rq in owners:
        for u, r in fx.records(rq):
            if r["tmpl"] == "pattern":
                continue
            for f in r["fields"]:
                t = u.TC(f["t"])
                key = (rq, f["n"], t)
                if key in seen:
                    continue
                seen.add(key)
                if rq == "ctpg::detail::rule" and f["n"] == "f" and "join_functor" in t:
                    lvalue_witness = True
                s = "include/ctpg/ctpg.hpp:%s %s::%s" % (f["l"], rq, f["n"])
                if t.rstrip().endswith("&"):
                    chk.violation("IMM-10", s, "IMM-10:%s::%s:reference" % (rq, f["n"]),
                                  "in an instantiation this member has the reference type '%s': the parser refers to an "
                                  "object of the caller instead of owning a copy (later changes to it change what the "
                                  "parser does; a non-const reference lets parse() modify it)" % t[:120])
                elif _points_to_mutable(t):
                    chk.violation("IMM-10", s, "IMM-10:%s::%s:pointer" % (rq, f["n"]),
                                  "member of type '%s' points to mutable data outside the object" % t[:120])
                else:
                    chk.ok("IMM-10", s, "type '%s' is owned" % t[:70])
    if not lvalue_witness:
        chk.incomplete("IMM-10: the witness rule built from a named (lvalue) functor object was not found")


def _ctor_arg_is_const(fn, a):
    t = fn.facts.T(a.get("t"))
    return t.startswith("const ")


def _removes_const(src, dst, ck):
    if not (dst.endswith("*") or dst.endswith("&")):
        return False
    s = src.replace(" ", "")
    d = dst.replace(" ", "")
    # crude but sound for the header's types: a pointer/reference cast whose source pointee is const and
    # whose destination pointee is not
    return ("const" in s) and ("const" not in d)


def _points_to_mutable(t):
    t = t.strip()
    if "(*)" in t or "(*const)" in t:   # function pointer (arrays of them included)
        return False
    core = t
    while core.endswith("]"):
        core = core[:core.rfind("[")].strip()
    if core.endswith("&") or core.endswith("*") or core.endswith("*const"):
        pointee = core.rstrip("&*").replace("*const", "").strip()
        return not (pointee.startswith("const ") or pointee.endswith(" const"))
    return False


def pre(chk):
    from . import c19
    c19.hlp_t(chk, ("clang++",))
    from .. import tlw
    tlw.run(chk, "RULE-T", "w_ruletype.cpp")
