"""C01 — a conflict-free grammar's parser accepts exactly the grammar's language.

Decides necessary conditions of a correct canonical-LR(1) construction (DESIGN.md 5/C01), not language equality:
memo purity and publication (MEMO-K/P), key injectivity and sibling agreement (INJ), whole-space scans (SCAN),
role templates for closure / FIRST / nullable / goto / item filing / root item (CLOSURE, FIRSTSFX, NULLSFX,
FIXPOINT, GOTO, ADDSIT, ROOT), index-space typing of everything under state_analyzer and the rule analysis (IDX),
template-index agreement of the rule/term analysis (TIX).
"""
from .. import lr, idxrule, tix

P = "ctpg::parser::"


def check(chk, fx):
    chk.explanation = (
        "Language equality itself is a semantic property of an algorithm and is not decided. What is decided, on the "
        "resolved AST of every function that builds the table: memo tables depend on their key only and are not "
        "published early on a recursive path; linearised keys are injective and fit; scans cover their index space; "
        "the items produced by closure/goto, the sets produced by the FIRST/nullable computations, the column an "
        "item is filed under and the root item match the canonical LR(1) definitions role by role (canonical forms "
        "insensitive to local names and temporaries); rule numbers, sorted rule positions, states, terms, "
        "nonterminals and columns are never confused. Each is a necessary condition: violating it loses or invents "
        "items or lookaheads for some grammar the test-suite does not contain.")
    lr.all_table_rules(chk, fx)
    from .. import primrules
    primrules.prims(chk, fx, "GAPI2")         # the grammar the table is built from is the grammar the user wrote
    primrules.prims(chk, fx, "NAMEFILL")
    from .. import termrules
    termrules.termapi(chk, fx)
    # a rule's symbols are resolved by name / id: a wrong resolution builds the table for another grammar
    from . import c17
    c17.symbol_lookup(chk, fx)
    tix.report(chk, fx)
    from .. import stdexrules
    stdexrules.bitset(chk, fx)       # character classes / item and FIRST sets live in cbitset
    idxrule.report(chk, fx, lambda q: q.startswith(P + "state_analyzer") or q.startswith(P + "analyze_") or
                   q.startswith(P + "make_symbol") or q.startswith(P + "make_nterm_rule_slices") or
                   q.startswith(P + "make_situation") or q.startswith(P + "symbol"),
                   "table construction and rule analysis", 15)
