"""C17 — malformed patterns and grammars are rejected at construction.

 REJ-1  every function that parses a pattern at construction (analyze_dfa_size, add_term_data_to_dfa for regex
        terms, regex::expr's constructor) throws when the parse yields no value, and reads .value() only where
        has_value() was seen true; both dfa_size members are in-class initialisers (constant-evaluated), so a
        throwing parse is a compile error; debug_parse is the one documented exception
 REJ-2  find_str cannot return without having found the string: after the full scan it throws; every symbol index
        of a rule (right-side symbols by id, left side by name) is the result of find_str; term ids are unique per
        pattern (regex ids embed the pattern)
 REJ-3  nterm rejects an empty name
 REJ-4  all four uses of the pattern parser use the pattern lexer and switch white-space skipping off
 REJ-5  regex_lexer accepts a raw (non-escaped) pattern character only after is_printable() said yes or after it was
        compared equal with a literal syntax character, on every path (match_primary, match_range_item)
Not decided: which strings the fixed pattern grammar + regex_lexer accept beyond that (C01 on one grammar,
hand-written scanning); that regex_lexer never reads past the end of a malformed pattern (see C06, not decided).
"""
import re

from .. import astq as A
from .. import absint as AI
from .. import flow
from ..canon import Canon
from ..facts import walk, strip

P = "ctpg::parser::"
R = "ctpg::regex::"


def check(chk, fx):
    chk.explanation = (
        "Rejection is a control-flow fact: on every structured path of the functions that consume a pattern-parse "
        "result, an absent value leads to a throw before any use; symbol lookup throws when the name is not declared "
        "and is the only producer of symbol indices; the pattern parser is always run with its own lexer and without "
        "white-space skipping; raw pattern bytes are accepted only after a printable test. Since the automaton sizes "
        "are in-class constant initialisers, a throwing parse is a compile-time error for constexpr terms.")
    rej1(chk, fx)
    rej2(chk, fx)
    rej3(chk, fx)
    rej4(chk, fx)
    rej5(chk, fx)
    from .. import golden, goldenreg
    golden.group(chk, fx, "REGEXFE", "reference summaries of the regex front end (what the pattern lexer accepts, how "
                                     "characters are decoded)", goldenreg.GROUPS["REGEXFE"])
    from .. import termrules
    termrules.termapi(chk, fx)        # ids / names / data the parser and the lexer builder read
    from .. import primrules
    primrules.prims(chk, fx, "UTIL")
    primrules.prims(chk, fx, "GAPI2")
    primrules.prims(chk, fx, "NAMEFILL")
    from .. import gramrules
    gramrules.check(chk, fx)          # the pattern grammar: which patterns parse at all


def _optional_paths(chk, f, rule, name):
    """On every path: .value() only after has_value() true; has_value() false ends in throw."""
    flow.assert_structured(f)
    n_val = 0
    ok = True
    for ev, term_ in flow.paths(f.body):
        has = None
        for e in ev:
            if e[0] == "cond":
                t = AI.atom(e[1])
                txt = AI.tstr(t[1]) if t[0] == "truth" else ""
                if "has_value" in txt:
                    has = e[2]
            nodes = [e[1]] if e[0] in ("stmt", "cond", "return") else []
            for nd in nodes:
                for m in walk(nd):
                    if m.get("k") == "CXXMemberCallExpr" and (m.get("callee") or {}).get("n") in ("value", "operator*", "operator->") \
                            and "optional" in (m.get("callee") or {}).get("q", ""):
                        n_val += 1
                        if has is not True:
                            ok = False
                            chk.violation(rule, A.site(f, m), "%s:%s:value-without-test" % (rule, name),
                                          "%s reads the pattern-parse result without has_value() having been seen true" % name)
        if has is False and term_ != "throw":
            ok = False
            chk.violation(rule, A.site(f), "%s:%s:no-throw" % (rule, name),
                          "%s continues (%s) although the pattern did not parse: a matcher with an arbitrary meaning "
                          "would be produced" % (name, term_))
        if has is None and term_ != "throw":
            ok = False
            chk.violation(rule, A.site(f), "%s:%s:untested" % (rule, name), "%s has a path that never tests has_value()" % name)
    if n_val == 0 and ok:
        chk.incomplete("%s: no use of the parse result found" % name)
    return ok


def rej1(chk, fx):
    chk.rule("REJ-1", "pattern-parsing constructors reject a failed parse", 4)
    targets = [(R + "analyze_dfa_size", None), (R + "expr::expr", None)]
    for f in fx.need(R + "add_term_data_to_dfa"):
        if "regex_pattern_data" in f.facts.T(f.o["params"][0]["t"]):
            targets.append((None, f))
            break
    else:
        chk.incomplete("regex overload of add_term_data_to_dfa not instantiated")
    for q, f in targets:
        if f is None:
            f = fx.need(q)[0]
        name = f.o["n"] if f.o["n"] != "expr" else "regex::expr::expr"
        if _optional_paths(chk, f, "REJ-1", name):
            chk.ok("REJ-1", A.site(f), "%s: no value => throw; value used only after has_value()" % name)
    # dfa_size members are in-class constant initialisers calling analyze_dfa_size
    n = 0
    for rq in ("ctpg::regex_term", R + "expr"):
        for u, r in fx.records(rq):
            for m in r["members"]:
                if m["k"] == "staticvar" and m["n"] == "dfa_size" and m.get("init") is not None:
                    calls = [x for x in walk(m["init"]) if x.get("k") in ("UnresolvedLookupExpr", "DeclRefExpr") and
                             ((x.get("name") or (x.get("d") or {}).get("n")) == "analyze_dfa_size")]
                    if calls and m.get("const"):
                        n += 1
                        chk.ok("REJ-1", "include/ctpg/ctpg.hpp:%s %s::dfa_size" % (m["l"], rq),
                               "static const dfa_size = analyze_dfa_size(Pattern): evaluated at compile time")
                    else:
                        chk.violation("REJ-1", "include/ctpg/ctpg.hpp:%s %s::dfa_size" % (m["l"], rq), "REJ-1:%s::dfa_size" % rq,
                                      "dfa_size is not a constant initialised by analyze_dfa_size(Pattern)")
                    break
            else:
                continue
            break
    if n < 2 and not chk.violations:
        chk.incomplete("dfa_size initialisers of regex_term / regex::expr not found")


def rej2(chk, fx):
    chk.rule("REJ-2", "symbol lookup", 5)
    symbol_lookup(chk, fx)


def symbol_lookup(chk, fx):
    chk.rule("REJ-2", "symbol lookup", 5)
    from .. import pathsig as PS
    from ..lr import _drop_noise
    f = fx.need("ctpg::utils::find_str")[0]
    flow.assert_structured(f)
    cn = Canon(f)
    conds, nodes = PS.event_conditions(cn, f.body, unroll=1, drop=_drop_noise)
    rets = {k: v for k, v in conds.items() if k[0] == "return"}
    throws = [k for k in conds if k[0] == "throw"]
    breaks = [k for k in conds if k[0] == "break"]
    problems = []
    found_ret = False
    for (k, t), c in rets.items():
        if t in ("uninitialized", "uninitialized16", "uninitialized32"):
            # only in the (infeasible) branch where the full scan did not count all N entries
            if not all(any(re.fullmatch(r"\((\?\w+|@i\{[^}]*\}) == (\d+|N)\)|\((\d+|N) == (\?\w+|@i\{[^}]*\})\)", a) and not pol for a, pol in conj) for conj in c):
                problems.append("returns the 'not found' sentinel (%s) instead of throwing" % PS.show(c)[:100])
            continue
        if not all(any("str_equal(" in a and "$1" in a and pol for a, pol in conj) for conj in c):
            problems.append("returns %s without str_equal(entry, str) having held (%s)" % (t, PS.show(c)[:100]))
        else:
            found_ret = True
            # the value returned is the position of the entry compared
            if not (re.fullmatch(r"\?\w+", t) or t.startswith("@i{")):
                problems.append("returns %s, not the position of the matching entry" % t)
    if not throws:
        problems.append("never throws")
    if breaks:
        problems.append("the scan can be left by break before all entries were compared")
    if not found_ret:
        problems.append("no return of the matching position")
    # the comparison is between a table entry and the looked-up string
    se = sorted({a for c in conds.values() for conj in c for a, p in conj if "str_equal(" in a})
    if se and not all(re.fullmatch(r"str_equal\((@each\{\$0\}|\$0\[[^\]]+\]), \$1\)", a) for a in se):
        problems.append("entries are compared as %s" % se)
    if problems:
        chk.violation("REJ-2", A.site(f), "REJ-2:find_str",
                      "find_str can yield an index for a string that is not in the table: %s — an undeclared symbol would "
                      "get an arbitrary index" % "; ".join(problems))
    else:
        chk.ok("REJ-2", A.site(f), "find_str returns only the position of an entry equal to the string and throws after a "
                                   "complete scan")
    # str_equal: equal iff both strings end together; a difference at any position (including one string ending) is
    # 'not equal'
    g = fx.need("ctpg::utils::str_equal")[0]
    flow.assert_structured(g)
    cg = Canon(g)
    gc, gn = PS.event_conditions(cg, g.body, unroll=1, drop=_drop_noise)
    rt = gc.get(("return", "true"))
    # `return <bool expression>;` returns true exactly where the path condition and the expression hold
    for (k, t), c in list(gc.items()):
        if k != "return" or t in ("true", "false"):
            continue
        val = (gn[(k, t)].get("value") if gn.get((k, t)) is not None else None)
        if val is None:
            chk.incomplete("str_equal: return of %s cannot be read as a condition" % t)
            continue
        extra = PS.signed_atoms(cg, val, True)
        more = set()
        for conj in c:
            for x in extra:
                cj = frozenset(set(conj) | {(a, pol) for a, pol in x if not _drop_noise(a)})
                if PS._consistent(cj):
                    more.add(cj)
        if more:
            rt = (rt or set()) | more
    EQ = "(*$0 == *$1)"
    if rt is None:
        chk.violation("REJ-2", A.site(g), "REJ-2:str_equal:never-true", "str_equal never returns true")
    else:
        # every way of returning true has compared the current characters equal and seen the terminator of one of them
        # (or has seen the terminator of both, which is the same thing)
        ok_true = all((any(a == EQ and pol for a, pol in conj) and
                       any(re.fullmatch(r"\(\*\$[01] == 0\)", a) and pol for a, pol in conj)) or
                      (("(*$0 == 0)", True) in conj and ("(*$1 == 0)", True) in conj) for conj in rt)
        if ok_true:
            chk.ok("REJ-2", A.site(g), "str_equal says 'equal' only where both strings have the same character and that "
                                       "character is the terminator")
        else:
            chk.violation("REJ-2", A.site(g), "REJ-2:str_equal:prefix",
                          "str_equal returns true when %s: a string that merely starts with a table entry (or the reverse) "
                          "compares equal, so an undeclared name resolves to a declared one" % PS.show(rt)[:200])
    # producers of symbol indices
    want = {
        "term": "symbol{true, find_str(term_ids, $0.get_id())}",
        "nterm": "symbol{false, find_str(nterm_names, $0.get_name())}",
    }
    seen = set()
    for g in fx.need(P + "make_symbol"):
        cg = Canon(g)
        rets = [cg.c(n["value"]) for n in walk(g.body) if n.get("k") == "ReturnStmt"]
        kind = "nterm" if "nterm<" in g.facts.T(g.o["params"][0]["t"]) else "term"
        # static get_id()/get_name() of the built-in symbols print without an object
        if rets == [want[kind]] or rets == [want[kind].replace("$0.", "")]:
            if kind not in seen:
                seen.add(kind)
                chk.ok("REJ-2", A.site(g), "make_symbol(%s) = %s" % (kind, want[kind]))
        else:
            chk.violation("REJ-2", A.site(g), "REJ-2:make_symbol:%s" % kind,
                          "a right-side %s is resolved by %s; documented: by its unique %s through find_str (throws when "
                          "undeclared)" % (kind, rets, "id in term_ids" if kind == "term" else "name in nterm_names"))
            break
    for g in fx.need(P + "analyze_rule")[:20]:
        cg = Canon(g)
        lv = [cg.c(n["init"]) for n in walk(g.body) if n.get("k") == "Var" and n["n"] == "l_idx" and n.get("init") is not None]
        infos = [cg.c(n) for n in walk(g.body) if n.get("k") in ("BinaryOperator", "CXXOperatorCallExpr") and n.get("op") == "=" and
                 "gi.rule_infos[" in cg.c(n)]
        good = any("find_str(nterm_names, $0.get_l().get_name())" in x or "find_str(nterm_names, get_name())" in x
                   for x in lv + infos)
        if good:
            if "lhs" not in seen:
                seen.add("lhs")
                chk.ok("REJ-2", A.site(g), "a rule's left side is resolved by find_str(nterm_names, name)")
        else:
            chk.violation("REJ-2", A.site(g), "REJ-2:analyze_rule:l_idx", "the left side index is %s" % (lv + infos)[:2])
            break
    # ids: regex terms embed the pattern, names are separate
    g = fx.need("ctpg::regex_term::regex_term")
    for f2 in g:
        if len(f2.o["params"]) == 3 and not f2.o.get("implicit"):
            c2 = Canon(f2)
            copies = [c2.c(n) for n in walk(f2.body) if A.is_call(n) and n["callee"]["n"] == "copy_array"]
            if any("id[2]" in c and "Pattern" in f2.full or "copy_array(&id[2]" in c.replace(" ", "") or "id[2]" in c for c in copies):
                chk.ok("REJ-2", A.site(f2), "a regex term's id is 'r_' + its pattern (distinct patterns, distinct ids)")
            else:
                chk.violation("REJ-2", A.site(f2), "REJ-2:regex_term:id", "regex_term's id is built by %s" % copies)
            break
    for f2 in fx.need(P + "analyze_term")[:1]:
        c2 = Canon(f2)
        a = [c2.c(n) for n in walk(f2.body) if n.get("k") in ("BinaryOperator",) and n.get("op") == "=" and "term_ids[" in c2.c(n)]
        if a and a[0].endswith("= $0.get_id())"):
            chk.ok("REJ-2", A.site(f2), "term_ids[TermIdx] = t.get_id()")
        else:
            chk.violation("REJ-2", A.site(f2), "REJ-2:analyze_term:ids", "term_ids is filled by %s" % a)


def rej3(chk, fx):
    chk.rule("REJ-3", "nterm name", 1)
    for f in fx.need("ctpg::nterm::nterm"):
        if f.o.get("implicit") or f.o.get("defaulted") or len(f.o["params"]) != 1:
            continue
        cn = Canon(f)
        thr = [cn.guards(n) for n in walk(f.body) if n.get("k") == "CXXThrowExpr"]
        if thr and any(g in ("($0[0] == 0)", "(*$0 == 0)", "!$0[0]") for g in thr[0]):
            chk.ok("REJ-3", A.site(f), "nterm(name) throws for an empty name")
        else:
            chk.violation("REJ-3", A.site(f), "REJ-3:nterm", "nterm's constructor does not reject an empty name (%s)" % thr)
        return
    chk.incomplete("nterm constructor not found")


def _options_local_no_skip(fn, arg, call):
    """The options argument is a local parse_options object on which set_skip_whitespace(false) was called (as a
    statement or in its initialiser) before the call, and nothing was called on it afterwards that could switch it back."""
    a = strip(arg, casts=True)
    if a is None or a.get("k") != "DeclRefExpr" or a["d"]["k"] != "Var":
        return False
    vid = a["d"]["id"]
    state = None
    for n in walk(fn.body):
        if n is call:
            break
        if n.get("k") == "Var" and n["id"] == vid and n.get("init") is not None:
            txt = Canon(fn).c(n["init"])
            state = False if ".set_skip_whitespace(false)" in txt else None
            if state is None and "set_skip_whitespace" not in txt:
                state = True            # default options skip white space
        if n.get("k") == "CXXMemberCallExpr" and (n.get("callee") or {}).get("n") == "set_skip_whitespace":
            obj = A.call_object(n)
            if A.declref_id(strip(obj, casts=True)) == vid:
                v = AI.const_of(A.call_args(n)[0]) if A.call_args(n) else None
                state = None if v is None else bool(v)
    return state is False


def rej4(chk, fx):
    chk.rule("REJ-4", "uses of the pattern parser", 5)
    n = 0
    for fn in fx.all_fns():
        if fn.is_pattern or not fn.o["q"].startswith(R):
            continue
        cn = None
        for m in walk(fn.body):
            if m.get("k") == "CXXMemberCallExpr" and (m.get("callee") or {}).get("n") == "context_parse":
                if cn is None:
                    cn = Canon(fn)
                txt = cn.c(m)
                if not txt.startswith("regex_parser_object.context_parse("):
                    continue
                key = (fn.o["q"], m.get("l"))
                opts = cn.c(A.call_args(m)[1])
                n += 1
                if ".set_skip_whitespace(false)" in opts or _options_local_no_skip(fn, A.call_args(m)[1], m):
                    chk.ok("REJ-4", A.site(fn, m), "pattern parsed with set_skip_whitespace(false)") if n <= 8 else None
                else:
                    chk.violation("REJ-4", A.site(fn, m), "REJ-4:%s:whitespace" % fn.o["n"],
                                  "%s parses the pattern with options %s: blanks in a pattern would be skipped" % (fn.o["n"], opts[:80]))
    if n < 4:
        chk.incomplete("only %d uses of regex_parser_object.context_parse found" % n)
    # the pattern parser object uses the pattern lexer
    for u, v in fx.vars():
        if v["q"] == R + "regex_parser::regex_parser_object":
            t = u.T(v["t"])
            if "use_lexer<ctpg::regex::regex_lexer>" in t or "use_lexer<regex_lexer>" in t or "regex_lexer" in t:
                chk.ok("REJ-4", "include/ctpg/ctpg.hpp:%s %s" % (v["l"], v["q"]), "the pattern parser is built with use_lexer<regex_lexer>")
            else:
                chk.violation("REJ-4", "include/ctpg/ctpg.hpp:%s %s" % (v["l"], v["q"]), "REJ-4:lexer", "the pattern parser's lexer is %s" % t[-120:])
            return
    chk.incomplete("regex_parser_object not found")


def rej5(chk, fx):
    chk.rule("REJ-5", "raw pattern bytes accepted only when printable", 2)
    for name in ("match_primary", "match_range_item"):
        f = fx.need(R + "regex_lexer::" + name)[0]
        flow.assert_structured(f)
        start_id = f.o["params"][0]["id"]
        len_id = f.o["params"][2]["id"]
        bad = None
        n_acc = 0
        # length-like variables: the out-parameter and locals whose value is added to it
        len_like = {len_id}
        for n0, target, op in A.writes(f.body):
            if op == "+=" and A.declref_id(target) == len_id:
                src = A.declref_id(n0["c"][1] if n0.get("k") != "CXXOperatorCallExpr" else n0["c"][2])
                if src is not None:
                    len_like.add(src)
        for ev, term_ in flow.paths(f.body):
            known = False          # the byte under `start` is known printable / a known syntax character
            flagvar = {}           # var id -> True when it holds is_printable(*start)
            for e in ev:
                if e[0] == "stmt":
                    for eff in AI.effects(e[1]):
                        if eff[0] in ("assign", "decl"):
                            tgt = eff[-1][0][1] if eff[0] == "assign" and len(eff[-1]) == 1 and eff[-1][0][0] == "var" else \
                                (eff[1]["id"] if eff[0] == "decl" else None)
                            src = eff[2] if eff[0] == "assign" else eff[1].get("init")
                            s = strip(src, casts=True) if src is not None else None
                            if tgt is not None:
                                flagvar[tgt] = bool(s is not None and s.get("k") == "CallExpr" and
                                                    (s.get("callee") or {}).get("n") == "is_printable" and
                                                    _derefs(A.call_args(s)[0], start_id))
                        if eff[0] in ("inc", "op") and len(eff[-1]) == 1 and eff[-1][0][0] == "var" and eff[-1][0][1] == start_id:
                            known = False
                            flagvar = {k: False for k in flagvar}
                        # raw acceptance: len = 1 / len += 1 / len++ / ++len
                        is_len = len(eff[-1]) >= 1 and eff[-1][0][0] == "var" and eff[-1][0][1] in len_like if eff[0] in ("inc", "set", "op", "assign") else False
                        cond_one = False
                        if eff[0] == "op" and eff[1] == "+=":
                            r_ = strip(eff[3], casts=True)
                            if r_ is not None and r_.get("k") == "ConditionalOperator":
                                cond_one = any(AI.const_of(x) == 1 for x in r_["c"][1:])
                        if is_len and ((eff[0] == "inc" and eff[2] == 1) or (eff[0] == "set" and eff[2] == 1) or cond_one or
                                       (eff[0] == "op" and eff[1] == "+=" and AI.const_of(eff[3]) == 1)):
                            n_acc += 1
                            if not known:
                                bad = e[1]
                elif e[0] == "cond":
                    a = AI.atom_with_outcome(e[1], e[2])
                    if a[0] == "truth":
                        t = a[1]
                        if t[0] == "path" and len(t[2]) == 1 and flagvar.get(t[2][0][1]):
                            known = True
                        if t[0] == "call" and (t[1] or "").endswith("is_printable"):
                            known = True
                    if a[0] == "cmp" and a[1] == "==" and ((a[2][0] == "deref" and a[3][0] == "const") or
                                                           (a[3][0] == "deref" and a[2][0] == "const")):
                        known = True
        if n_acc == 0:
            chk.incomplete("regex_lexer::%s: no acceptance of a raw byte recognised" % name)
        if bad is not None:
            chk.violation("REJ-5", A.site(f, bad), "REJ-5:%s" % name,
                          "%s accepts a raw pattern byte on a path where it was neither tested printable nor compared "
                          "with a literal syntax character: raw non-printable bytes are accepted in patterns" % name)
        else:
            chk.ok("REJ-5", A.site(f), "%s: every raw byte accepted was tested with is_printable (or is a literal syntax "
                                       "character)" % name)


def _derefs(n, var_id):
    s = strip(n, casts=True)
    if s is None:
        return False
    if s.get("k") == "CXXOperatorCallExpr" and s.get("op") == "*" and len(s["c"]) == 2:
        return A.declref_id(s["c"][1]) == var_id
    if s.get("k") == "UnaryOperator" and s.get("op") == "*":
        return A.declref_id(s["c"][0]) == var_id
    return False


def pre(chk):
    """Type-level facts about what the rule operators build (stored functor type, contextual flag, right-side items):
    decided before the witness grammars are extracted."""
    from .. import tlw
    tlw.run(chk, "RULE-T", "w_ruletype.cpp")
