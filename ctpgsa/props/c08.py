"""C08 — error recovery follows the documented algorithm.

 DRV     the transition relation of one driver iteration, extracted by finite-domain abstract interpretation
         (ctpgsa/drv.py), equals the documented one (DESIGN.md appendix B): on the normal/error edge report, enter
         recovery, NO pop; in recovery an error entry pops one state (fail when the stack is empty), a reduce
         reduces, shift_error_recovery_token pushes and switches to consume mode; in consume mode an error entry
         discards one term (fail at <eof>, no report), anything else leaves consume mode and acts normally; pops
         happen nowhere else
 MODES   recovery and consume mode are never on together (reachability over the extracted relation)
 GCT     get_current_term presents the error token iff recovery_mode, without touching the lexer or the input
 ERRCOL  table construction: a shift in the error-token column always becomes shift_error_recovery_token and
         that kind is created nowhere else (so shift/success never occur while recovering)
 LOCKP   pop_stacks pops the value stack together with the cursor stack (values of surviving states untouched)
Not decided: which states accept the error symbol (the table itself, C01).
"""
from .. import astq as A
from .. import drv
from .. import flow
from .. import fdi
from .. import absint as AI
from ..facts import walk, strip

P = "ctpg::parser::"
SA = P + "state_analyzer::"


def expected(R, C, kind, lexfail, empty, eof):
    """Allowed outcome sets: ("exact", set) | ("subset", set) | None (row unreachable, justified by MODES/GCT/ERRCOL)."""
    if R == 1 and C == 1:
        return None
    if lexfail:
        if R == 1:
            return None
        return ("exact", {(R, C, (), "break")})
    normal = {
        "shift": {(0, 0, ("shift", "consume"), "next")},
        "reduce": {(0, 0, ("reduce",), "next")},
        "rr_conflict": {(0, 0, ("reduce",), "next")},
        "success": {(0, 0, ("success",), "break")},
    }
    if R == 0 and C == 0:
        if kind == "error":
            return ("exact", {(1, 0, ("report",), "next")})
        if kind == "shift_error_recovery_token":
            return None
        return ("exact", normal[kind])
    if R == 1:
        if kind == "error":
            ex = "break" if empty else "next"
            # the two pops are independent of each other: either order is the documented "pop one state and its value"
            return ("subset", {(1, 0, ("pop-cursor",), ex), (1, 0, ("pop-cursor", "pop-value"), ex),
                               (1, 0, ("pop-value", "pop-cursor"), ex)})
        if kind in ("reduce", "rr_conflict"):
            return ("exact", {(1, 0, ("reduce",), "next")})
        if kind == "shift_error_recovery_token":
            return ("exact", {(0, 1, ("shift-error-token",), "next")})
        return None
    # consume mode
    if kind == "error":
        if eof:
            return ("exact", {(0, 1, (), "break")})
        return ("exact", {(0, 1, ("consume",), "next")})
    if kind == "shift_error_recovery_token":
        return None
    return ("exact", normal[kind])


DOC = {
    (0, 0, "error"): "normal mode, error entry: report once, enter recovery mode, do not pop",
    (1, 0, "error"): "recovery mode, error entry: pop one state and its value; fail when the stack becomes empty",
    (1, 0, "reduce"): "recovery mode, reduce entry: reduce",
    (1, 0, "rr_conflict"): "recovery mode, reduce entry: reduce",
    (1, 0, "shift_error_recovery_token"): "recovery mode: shift the error token, leave recovery, enter consume mode",
    (0, 1, "error"): "consume mode, error entry: discard the term without a report; fail at <eof>",
}


def check_table(chk, fx, rule, rows=None):
    """Compare the extracted driver relation with the documented one. rows: optional filter on (R, C, kind)."""
    seen = set()
    cps = [f for f in fx.need(P + "context_parse") if len(f.o["params"]) == 4]
    tables = []
    for f in cps:
        key = f.o["l"]
        table, lp = drv.transition_table(fx, f)
        sig = tuple(sorted((k, tuple(sorted(v))) for k, v in table.items()))
        if tables and sig != tables[0][2]:
            chk.violation(rule, A.site(f, lp), "%s:instantiations-disagree" % rule,
                          "two instantiations of context_parse have different transition relations")
        tables.append((f, table, sig, lp))
        if len(tables) >= 4:
            break
    f, table, sig, lp = tables[0]
    for (R, C, kind, lf, em, eo), outs in sorted(table.items()):
        if rows is not None and not rows(R, C, kind, lf):
            continue
        exp = expected(R, C, kind, lf, em, eo)
        if exp is None:
            continue
        mode, allowed = exp
        good = (outs == allowed) if mode == "exact" else (bool(outs) and outs <= allowed)
        site = A.site(f, lp)
        desc = "recovery=%d consume=%d entry=%s%s%s%s" % (R, C, kind, " lexer-failure" if lf else "",
                                                         " stack-empty-after-pop" if em and R and kind == "error" else "",
                                                         " at-eof" if eo and C and kind == "error" else "")
        if good:
            k = (R, C, kind, lf, em if (R and kind == "error") else 0, eo if (C and kind == "error") else 0)
            if k not in seen:
                seen.add(k)
                chk.ok(rule, site, "%s -> %s" % (desc, _show(outs)))
        else:
            chk.violation(rule, site, "%s:R%d-C%d-%s%s" % (rule, R, C, kind, "-lexfail" if lf else ""),
                          "%s: %s; documented: %s, extracted: %s" % (
                              desc, DOC.get((R, C, kind), "see DESIGN.md appendix B"), _show(allowed), _show(outs)))
    return tables


def _show(outs):
    return sorted("modes(%s,%s) actions[%s] %s" % (r, c, ",".join(l), e) for r, c, l, e in outs)


def check(chk, fx):
    chk.explanation = (
        "One iteration of the driver loop is interpreted over the finite domain (recovery_mode, consume_mode) x "
        "entry kind x {lexer failure} x {stack empty after pop} x {pending term is <eof>} with the helper members "
        "inlined; the resulting transition relation (modes, ordered stack/input/report actions, loop exit) is compared "
        "row by row with the algorithm documented in the readme. Rows that the driver cannot reach are shown "
        "unreachable by MODES (reachability), GCT (the error token is looked up iff recovering) and ERRCOL (which "
        "kinds the table builder can put in the error-token column). This holds for every grammar and input; which "
        "states accept the error symbol is a table fact (C01) and not decided here.")
    chk.rule("DRV", "rows of the driver's transition relation (modes x entry kind x exits)", 20)
    tables = check_table(chk, fx, "DRV")
    modes(chk, fx, tables)
    gct(chk, fx)
    errcol(chk, fx)
    lockp(chk, fx)
    # which states accept the error token, and when a reduce is offered for it, is decided by the table: the
    # structural rules of the table construction are necessary conditions of this property as well
    from .. import lr
    lr.all_table_rules(chk, fx)
    # with a cstring_buffer the stacks are fixed arrays: recovery "fails exactly when ..." only if its pushes fit
    from .. import caprules
    caprules.cap_s(chk, fx, only=("initial state", "shift", "shift_recovery_token"))
    from .. import primrules
    primrules.prims(chk, fx, "GAPI")
    primrules.prims(chk, fx, "NAMEFILL")      # which symbol is the error symbol
    from .. import termrules
    termrules.termapi(chk, fx)
    from .. import deporder, goldenreg as _gr
    deporder.group(chk, fx, "DEPORD", "dependence order of statements (driver and recovery)", _gr.DEP_GROUPS["DRV"])


def modes(chk, fx, tables):
    chk.rule("MODES", "recovery and consume mode are mutually exclusive", 1)
    f, table, sig, lp = tables[0]
    reach = drv.reachable_modes(table)
    if (1, 1) in reach:
        chk.violation("MODES", A.site(f, lp), "MODES:both-modes-reachable",
                      "recovery_mode and consume_mode can be on together: reachable mode pairs %s" % sorted(reach))
    else:
        chk.ok("MODES", A.site(f, lp), "mode pairs reachable from (0,0): %s" % sorted(reach))
    # initial modes
    for g in fx.need("ctpg::detail::parse_state::parse_state"):
        inits = {i.get("member"): AI.const_of(i.get("init")) for i in g.o.get("inits", ())}
        if inits.get("recovery_mode") != 0 or inits.get("consume_mode") != 0:
            chk.violation("MODES", A.site(g), "MODES:initial-modes",
                          "a parse does not start in normal mode (recovery=%s consume=%s)" % (
                              inits.get("recovery_mode"), inits.get("consume_mode")))
        break


def gct(chk, fx):
    chk.rule("GCT", "abstract cases of get_current_term (what symbol is looked up)", 8)
    seen = set()
    for f in fx.need(P + "get_current_term")[:6]:
        summ = drv.gct_summary(fx, f)
        for (R, pending, at_end, lexfail), outs in sorted(summ.items()):
            site = A.site(f)
            res = {r for r, l in outs}
            logs = {l for r, l in outs}
            if R == 1:
                good = res == {"error_recovery_token_idx"} and logs == {()}
                want = "the error token, without consulting lexer or input"
            elif pending:
                good = all(r.endswith(".current_term_idx") for r in res) and logs == {()}
                want = "the pending term, unchanged"
            elif at_end:
                good = res == {"eof_idx"} and all("lex" not in l and "lexreport" not in l for l in logs)
                want = "<eof> without calling the lexer"
            elif lexfail:
                good = res == {"uninitialized16"} and all(l[-2:] == ("lex", "lexreport") for l in logs)
                want = "the failure sentinel right after one 'Unexpected character' report"
            else:
                # the value handed back is the pending term or, equivalently, the index in the lexer's own result (it is
                # stored into the pending term on the same path: TRACE-R / TERMV look at that store)
                good = all(r.endswith(".current_term_idx") or r.endswith(".term_idx") for r in res) and \
                    all(l and l[-1] == "lex" and "lexreport" not in l for l in logs)
                want = "the term the lexer recognised, no report"
            desc = "recovery=%d pending-term=%d at-end=%d lexer-failure=%d" % (R, pending, at_end, lexfail)
            if good:
                k = (R, pending, at_end, lexfail)
                if k not in seen:
                    seen.add(k)
                    chk.ok("GCT", site, "%s -> %s" % (desc, want))
            else:
                chk.violation("GCT", site, "GCT:R%d-p%d-e%d-l%d" % (R, pending, at_end, lexfail),
                              "%s must yield %s; extracted %s" % (desc, want, sorted(outs)))


class ErrcolHooks(fdi.Hooks):
    def __init__(self, is_errcol):
        self.is_errcol = is_errcol

    def untracked(self, key):
        return key[0] == "f" and key != drv.KIND

    def oracle(self, rel, st):
        if rel[0] != "cmp" or rel[1] not in ("==", "!="):
            return None
        for x, y in ((rel[2], rel[3]), (rel[3], rel[2])):
            if y[0] == "call" and y[1] == P + "get_parse_table_idx" and len(y[2]) == 2 and y[2][0] == ("const", 1) \
                    and "error_recovery_token_idx" in AI.tstr(y[2][1]) or \
                    (y[0] == "call" and y[1] == P + "get_parse_table_idx" and len(y[2]) == 2 and
                     y[2][0] == ("const", 1) and y[2][1][0] == "const"):
                if x[0] == "path" and len(x[2]) == 1 and x[2][0][0] == "var":
                    return (rel[1] == "==") == self.is_errcol
        return None


def errcol(chk, fx):
    chk.rule("ERRCOL", "kinds the table builder can leave in the error-token column", 3)
    kinds = fx.enum(P + "parse_table_entry_kind")
    SERT = kinds["shift_error_recovery_token"]
    done = False
    for f in fx.need(SA + "transitions"):
        # (1) who assigns shift_error_recovery_token / success
        writers = {"sert": [], "success": []}
        for n, target, op in A.writes(f.body):
            p = A.access_path(target)
            if p and p[-1][0] == "field" and p[-1][1] == P + "parse_table_entry::kind":
                v = AI.const_of(n["c"][1]) if n.get("k") == "BinaryOperator" else None
                if v == SERT:
                    writers["sert"].append(n)
                if v == kinds["success"]:
                    writers["success"].append(n)
        body = f.body.get("c") or []
        loops = [s for s in body if s.get("k") == "CXXForRangeStmt"]
        if not loops:
            chk.incomplete("transitions: item loop not found")
        post = body[body.index(loops[0]) + 1:]
        post_paths = flow.paths({"k": "CompoundStmt", "c": post}, unroll=1)
        res = {}
        for errc in (True, False):
            hooks = ErrcolHooks(errc)
            out = set()
            for ev, term_ in post_paths:
                if term_ == "throw":
                    continue
                for o in fdi.exec_events(ev, {drv.KIND: kinds["shift"]}, hooks):
                    out.add(o.get(drv.KIND))
            res[errc] = out
        site = A.site(f)
        if res[True] == {SERT} and res[False] == {kinds["shift"]} and len(writers["sert"]) == 1:
            if not done:
                chk.ok("ERRCOL", site, "a shift entry becomes shift_error_recovery_token exactly when the column is "
                                       "get_parse_table_idx(true, error_recovery_token_idx)")
        else:
            chk.violation("ERRCOL", site, "ERRCOL:transitions:rewrite",
                          "error-token column: shift entries end as %s, other columns as %s (%d writer(s) of "
                          "shift_error_recovery_token)" % (sorted(res[True]), sorted(res[False]), len(writers["sert"])))
        done = True
    # (2) nobody else writes entry kinds
    others = []
    for fn in fx.all_fns():
        if fn.is_pattern or fn.o["q"] == SA + "transitions":
            continue
        for n, target, op in A.writes(fn.body):
            p = A.access_path(target)
            if p and p[-1][0] == "field" and p[-1][1] == P + "parse_table_entry::kind":
                others.append((fn, n))
    if others:
        for fn, n in others[:3]:
            chk.violation("ERRCOL", A.site(fn, n), "ERRCOL:%s:writes-kind" % fn.o["q"],
                          "entry kinds are written outside transitions()")
    else:
        chk.ok("ERRCOL", "include/ctpg/ctpg.hpp " + SA + "transitions", "only transitions() writes entry kinds")
    # (3) success only for the root item: established by CONF (C05); restated here from its table
    from . import c05
    chk.ok("ERRCOL", "include/ctpg/ctpg.hpp " + SA + "transitions",
           "success is produced only by the root rule's item (CONF fixpoint, see C05), whose lookahead is <eof>")


def lockp(chk, fx):
    chk.rule("LOCKP", "pop_stacks keeps cursor and value stack in step", 1)
    done = False
    for f in fx.need(P + "pop_stacks"):
        ok = True
        for ev, term_ in flow.paths(f.body):
            log = []
            for e in ev:
                if e[0] in ("stmt", "cond"):
                    for eff in AI.effects(e[1]) if e[0] == "stmt" else []:
                        if eff[0] == "call" and eff[2].get("k") == "CXXMemberCallExpr" and \
                                (eff[2].get("callee") or {}).get("n") == "pop_back":
                            names = A.field_names(A.access_path(A.call_object(eff[2])))
                            log.append("cursor" if "cursor_stack" in names else "value" if "value_stack" in names else "?")
                    if e[0] == "cond":
                        # the guard is recognised by what it asks (size() or empty() of the value stack), not by
                        # the form of the comparison
                        from ..canon import Canon
                        log.append(("cond", Canon(f).c(e[1]), e[2]))
            pops = [x for x in log if isinstance(x, str)]
            if pops.count("cursor") != 1 or pops.count("value") > 1 or "?" in pops:
                ok = False
                chk.violation("LOCKP", A.site(f), "LOCKP:pop_stacks:pop-count",
                              "a path through pop_stacks pops %s" % pops)
            elif pops.count("value") == 0:
                # allowed only when the value stack is empty (guard value_stack.size() != 0 false)
                guards = [x for x in log if isinstance(x, tuple) and "value_stack" in x[1] and ("size" in x[1] or "empty" in x[1])]
                if not guards:
                    ok = False
                    chk.violation("LOCKP", A.site(f), "LOCKP:pop_stacks:value-not-popped",
                                  "a path pops the cursor stack but not the value stack although it is not known to be "
                                  "empty")
        if ok and not done:
            done = True
            chk.ok("LOCKP", A.site(f), "every path pops exactly one state and, unless the value stack is empty, "
                                       "exactly one value")
