"""C10 — source points are the true line and column of each term.

 POS-U  abstract interpretation of source_point::update over {'\\n', other}: newline => ++line, column = 1;
        other => ++column; the scan visits every character of [start, end) exactly once
 POS-I  initial position is 1:1 (default member initialisers and parse_state's constructor agree)
 POS-P  every advance of the parse position (assignment to parse_state::current_it) is paired with
        current_sp.update(current_it, <the assigned value>) immediately before it, on every path; nothing
        else writes current_sp on the parse path
 POS-V  the lexers take the source point by value (they cannot move the parser's position)
 POS-S  shift / shift_recovery_token hand ps.current_sp to the term value, messages print ps.current_sp
 POS-W  in get_current_term every path that computes the whitespace skip commits it (update + advance)
        before any return: the position reported for the next term or for <eof> is the position after the
        skipped whitespace
By induction over advances these make current_sp the line/column of current_it for every input.
"""
from .. import astq as A
from .. import flow
from .. import absint as AI
from .. import graph as G
from ..facts import walk, strip

PARSER = "ctpg::parser"
PS = "ctpg::detail::parse_state"


def check(chk, fx):
    chk.explanation = (
        "The position rule is decided exactly for source_point::update (finite abstract domain: newline / other), "
        "and the pairing 'every advance of current_it is preceded by current_sp.update over exactly the skipped "
        "range' is decided on every path of every function that writes current_it; lexers get the source point by "
        "value; term values and messages read ps.current_sp. Together: current_sp is the 1-based line/column of "
        "current_it at every point where it is observed, for all inputs, by induction over advances.")
    pos_u(chk, fx)
    pos_i(chk, fx)
    pos_p(chk, fx)
    pos_v(chk, fx)
    pos_s(chk, fx)
    from .. import primrules
    primrules.prims(chk, fx, "TVAL")
    from .. import width
    width.check(chk, fx, classes=("LINECOL", "LEN"), minimum=10)
    from .. import deporder
    deporder.group(chk, fx, "DEPORD", "position bookkeeping keeps its order relative to the iterator advances", ["sp_update", "dfa_match", "get_current_term", "skip_whitespace", "consume_term"])


# --------------------------------------------------------------------------------------------- POS-U
def pos_u(chk, fx):
    from .. import pathsig as PS
    from ..canon import Canon
    from ..lr import _drop_noise
    chk.rule("POS-U", "abstract cases of source_point::update", 4)
    f = fx.need("ctpg::source_point::update")[0]
    flow.assert_structured(f)
    cn = Canon(f)
    loops = [n for n in (f.body.get("c") or []) if n.get("k") in ("WhileStmt", "ForStmt")]
    if len(loops) != 1 or len(f.body.get("c") or []) != 1:
        chk.incomplete("source_point::update: expected a single scan loop as the whole body")
    loop = loops[0]
    site = A.site(f, loop)
    # the scan runs exactly while start != end
    ex = PS.signed_atoms(cn, loop["cond"], False) if loop.get("cond") is not None else []
    if not (len(ex) == 1 and [(a, p) for a, p in ex[0]] in ([("($0 == $1)", True)], [("($1 == $0)", True)])):
        chk.violation("POS-U", site, "POS-U:update:loop-exit", "the scan does not stop exactly when start == end (%s)" % ex)
        return
    conds, nodes = PS.event_conditions(cn, loop["body"], unroll=1, drop=_drop_noise)
    exits = [k for k in conds if k[0] in ("break", "return", "throw")]
    if exits:
        chk.violation("POS-U", site, "POS-U:update:early-exit", "an iteration leaves the scan early (%s)" % exits)
        return
    conds = {k: v for k, v in conds.items() if k[0] in ("inc", "assign")}
    if loop.get("k") == "ForStmt" and loop.get("inc") is not None:
        for e in PS.default_events(cn, loop["inc"]):
            conds[(e.kind, e.text)] = conds.get((e.kind, e.text), set()) | {frozenset()}
    NL = "(*$0 == 10)"
    want = {
        ("inc", "line++"): (PS.dnf([(NL, True)]), "a newline starts a new line"),
        ("assign", "(column = 1)"): (PS.dnf([(NL, True)]), "a newline resets the column to 1"),
        ("inc", "column++"): (PS.dnf([(NL, False)]), "every other byte (tab and CR included) advances the column by one"),
        ("inc", "$0++"): (PS.dnf([]), "every byte of [start, end) is visited exactly once"),
    }
    # a test on another character is a special case the property forbids
    others = sorted({a for c in conds.values() for conj in c for a, p in conj if a != NL})
    if others:
        chk.violation("POS-U", site, "POS-U:update:special-char", "the position update also depends on %s; only '\\n' ends a "
                                                                  "line and nothing else is special" % others)
        return
    PS.compare(chk, "POS-U", f, loop, conds, nodes, want)


def _is(effs, want):
    got = []
    for e in effs:
        if e[0] == "inc":
            got.append(("inc", e[2]))
        elif e[0] == "set":
            got.append(("set", e[2]))
        else:
            got.append((e[0], None))
    return got == want


def _show(effs):
    return [(e[0], e[2] if e[0] in ("inc", "set") else "?") for e in effs]


def _var_id(t):
    if t[0] == "path" and len(t[2]) == 1 and t[2][0][0] == "var":
        return t[2][0][1]
    return None


def _path_var(p):
    if len(p) == 1 and p[0][0] == "var":
        return p[0][1]
    return None


def _char_test(rel, start_id):
    """rel is ('cmp', op, a, b): returns (char value, is_equal) if it compares *start with a constant."""
    if rel[0] != "cmp" or rel[1] not in ("==", "!="):
        return None
    a, b = rel[2], rel[3]
    if b[0] != "const":
        a, b = b, a
    if b[0] != "const" or a[0] != "deref" or _var_id(a[1]) != start_id:
        return None
    return b[1], rel[1] == "=="


# --------------------------------------------------------------------------------------------- POS-I
def pos_i(chk, fx):
    chk.rule("POS-I", "initial position 1:1", 3)
    recs = list(fx.records("ctpg::source_point"))
    chk.require(recs, "record source_point not found")
    u, r = recs[0]
    for f in r["fields"]:
        if f["n"] in ("line", "column"):
            v = AI.const_of(f.get("init"))
            s = "include/ctpg/ctpg.hpp:%s ctpg::source_point::%s" % (f["l"], f["n"])
            if v == 1:
                chk.ok("POS-I", s, "default member initialiser is 1")
            else:
                chk.violation("POS-I", s, "POS-I:source_point::%s" % f["n"], "initial %s is %s, not 1" % (f["n"], v))
    done = False
    for f in fx.need(PS + "::parse_state"):
        for i in f.o.get("inits", ()):
            if i.get("member") == "current_sp":
                vals = [AI.const_of(c) for c in (strip(i["init"]).get("c") or [])]
                s = A.site(f, i["init"])
                if vals == [1, 1]:
                    if not done:
                        chk.ok("POS-I", s, "parse_state starts at {1, 1}")
                        done = True
                elif vals == [] and strip(i["init"]).get("k") in ("InitListExpr", "CXXConstructExpr"):
                    if not done:
                        chk.ok("POS-I", s, "parse_state value-initialises current_sp (defaults 1:1)")
                        done = True
                else:
                    chk.violation("POS-I", s, "POS-I:parse_state::current_sp", "parse starts at %s, not {1, 1}" % vals)
    chk.require(done or chk.violations, "parse_state constructor does not initialise current_sp explicitly")


# --------------------------------------------------------------------------------------------- POS-P / POS-W
def _is_ps_field(p, name):
    """access path is <ps>.name where ps is a parse_state object."""
    return len(p) >= 2 and p[-1][0] == "field" and p[-1][1] == PS + "::" + name


def pos_p(chk, fx):
    chk.rule("POS-P", "advances of parse_state::current_it paired with current_sp.update", 2)
    chk.rule("POS-W", "whitespace skip committed before any return of get_current_term", 1)
    roots = [f for f in fx.need(PARSER + "::context_parse") if len(f.o["params"]) == 4]
    reach = [f for f in G.reachable(roots) if not f.is_pattern]
    seen = set()
    writers_sp = set()
    n_adv = 0
    for f in reach:
        if f.o["q"].startswith("ctpg::detail::parse_state::parse_state"):
            continue
        has_adv = False
        for n, target, op in A.writes(f.body):
            p = A.access_path(target)
            if _is_ps_field(p, "current_it"):
                has_adv = True
            if any(c[0] == "field" and c[1] == PS + "::current_sp" for c in p):
                chk.violation("POS-P", A.site(f, n), "POS-P:%s:direct-write-current_sp" % f.o["q"],
                              "current_sp is written directly (%s)" % op)
        # calls of update on current_sp / other non-const uses
        for n in walk(f.body):
            if n.get("k") == "CXXMemberCallExpr":
                obj = A.call_object(n)
                p = A.access_path(obj) if obj is not None else ()
                if _is_ps_field(p, "current_sp"):
                    c = n.get("callee") or {}
                    if c.get("q") == "ctpg::source_point::update":
                        writers_sp.add(f.o["q"])
                    elif not c.get("const"):
                        chk.violation("POS-P", A.site(f, n), "POS-P:%s:%s-on-current_sp" % (f.o["q"], c.get("n")),
                                      "non-const member %s called on current_sp" % c.get("q"))
        if not has_adv and f.o["q"] not in writers_sp:
            continue
        flow.assert_structured(f)
        for ev, term_ in flow.paths(f.body):
            last_update = None      # (start term, end term) of the most recent update with nothing in between
            for e in ev:
                nodes = [e[1]] if e[0] in ("stmt", "cond", "return", "throw") else []
                for nd in nodes:
                    for eff in AI.effects(nd) if e[0] == "stmt" else []:
                        if eff[0] == "call" and eff[1] == "ctpg::source_point::update":
                            call = eff[2]
                            obj = A.call_object(call)
                            if _is_ps_field(A.access_path(obj), "current_sp"):
                                a = A.call_args(call)
                                last_update = (AI.term(a[0]), AI.term(a[1]), call)
                                if not _is_ps_field(A.access_path(strip(a[0])), "current_it"):
                                    chk.violation("POS-P", A.site(f, call), "POS-P:%s:update-from" % f.o["q"],
                                                  "current_sp.update does not start at current_it (%s)" %
                                                  AI.tstr(last_update[0]))
                            continue
                        if eff[0] in ("assign", "set", "inc", "op"):
                            p = eff[-1]
                            if _is_ps_field(p, "current_it"):
                                n_adv += 1
                                site = A.site(f, nd)
                                if eff[0] != "assign":
                                    chk.violation("POS-P", site, "POS-P:%s:advance-by-%s" % (f.o["q"], eff[0]),
                                                  "current_it is advanced by %s without a matching current_sp.update" % eff[0])
                                    last_update = None
                                    continue
                                val = AI.term(eff[2])
                                if last_update is not None and AI.same(last_update[1], val):
                                    k = ("POS-P", f.o["q"], nd.get("l"))
                                    if k not in seen:
                                        seen.add(k)
                                        chk.ok("POS-P", site, "current_it = %s directly after current_sp.update(current_it, "
                                                              "%s)" % (AI.tstr(val), AI.tstr(last_update[1])))
                                else:
                                    chk.violation("POS-P", site, "POS-P:%s:advance-without-update" % f.o["q"],
                                                  "current_it = %s is not preceded by current_sp.update(current_it, %s) "
                                                  "on a path through %s" % (AI.tstr(val), AI.tstr(val), f.o["n"]))
                                last_update = None
                            elif last_update is not None and _touches(p, last_update):
                                last_update = None
            # an update that is never followed by the advance leaves sp ahead of it
            if last_update is not None and term_ in ("return", "fall"):
                chk.violation("POS-P", A.site(f, last_update[2]), "POS-P:%s:update-without-advance" % f.o["q"],
                              "current_sp.update(...) on a path that ends without assigning current_it")
    chk.require(n_adv >= 2, "fewer than 2 advance sites of current_it found on the parse path")

    # POS-W: get_current_term commits the whitespace skip before returning
    for f in fx.need(PARSER + "::get_current_term"):
        for ev, term_ in flow.paths(f.body):
            skipped = None
            committed = False
            for e in ev:
                if e[0] in ("stmt", "cond", "return"):
                    for n in walk(e[1]):
                        if A.is_call(n, name="skip_whitespace"):
                            skipped = n
                    if e[0] == "stmt":
                        for eff in AI.effects(e[1]):
                            if eff[0] == "assign" and _is_ps_field(eff[-1], "current_it"):
                                committed = True
                    if e[0] == "cond" and skipped is not None and not committed:
                        # a decision taken between computing the skip and committing it that leads to a return
                        pass
            if skipped is not None:
                if committed:
                    k = ("POS-W", skipped.get("l"))
                    if k not in seen:
                        seen.add(k)
                        chk.ok("POS-W", A.site(f, skipped), "every return after skip_whitespace() follows the commit "
                                                            "(update + advance)")
                else:
                    chk.violation("POS-W", A.site(f, skipped), "POS-W:get_current_term:return-before-commit",
                                  "a path returns after skip_whitespace() without current_sp.update/current_it advance: "
                                  "the position reported then ignores the skipped whitespace")


def _touches(p, last_update):
    # a write to the variable holding the update's end invalidates the pairing
    t = last_update[1]
    if t[0] == "path" and p and t[2] and p[0][:2] == t[2][0][:2] and len(p) <= len(t[2]):
        return True
    return False


# --------------------------------------------------------------------------------------------- POS-V
def pos_v(chk, fx):
    chk.rule("POS-V", "lexer entry points take source_point by value", 2)
    seen = set()
    for q in ("ctpg::regex::dfa_match", "ctpg::regex::regex_lexer::match", "ctpg::regex::regex_lexer::recognized"):
        for f in fx.need(q):
            for p in f.o["params"]:
                t = f.facts.T(p["t"])
                if "source_point" in t and "parse_state" not in t:
                    k = (q, p["n"])
                    s = A.site(f)
                    if p.get("ref") and not p.get("constref"):
                        chk.violation("POS-V", s, "POS-V:%s:%s-by-reference" % (q, p["n"]),
                                      "parameter '%s' is a mutable reference to the source point: the lexer can move "
                                      "the parser's position" % p["n"])
                    elif k not in seen:
                        seen.add(k)
                        chk.ok("POS-V", s, "parameter '%s' of type %s cannot modify the caller's position" % (p["n"], t))
    # the custom-lexer call and the generated-lexer call pass ps.current_sp (checked under C18 LEXARM as well)


# --------------------------------------------------------------------------------------------- POS-S
def pos_s(chk, fx):
    chk.rule("POS-S", "positions handed to term values / printed in messages are ps.current_sp", 4)
    seen = set()
    for name in ("shift", "shift_recovery_token"):
        for f in fx.need(PARSER + "::" + name):
            found = False
            for n in walk(f.body):
                if n.get("k") == "CXXMemberCallExpr" and (n.get("callee") or {}).get("n") == "emplace_back":
                    obj = A.call_object(n)
                    if "value_stack" not in A.field_names(A.access_path(obj)):
                        continue
                    sps = [m for m in walk(n) if m.get("k") == "MemberExpr" and m["m"]["q"] == PS + "::current_sp"]
                    others = [m for m in walk(n) if m.get("k") in ("CXXConstructExpr", "InitListExpr") and
                              "source_point" in f.facts.T(m.get("t")) and not
                              any(x.get("k") == "MemberExpr" and x["m"]["q"] == PS + "::current_sp" for x in walk(m))]
                    found = True
                    if sps and not others:
                        k = (name, n.get("l"))
                        if k not in seen:
                            seen.add(k)
                            chk.ok("POS-S", A.site(f, n), "the pushed term value carries ps.current_sp")
                    else:
                        chk.violation("POS-S", A.site(f, n), "POS-S:%s:value-position" % name,
                                      "the term value pushed by %s does not carry ps.current_sp" % name)
            chk.require(found, "%s: value_stack.emplace_back not found" % name)
    for name in ("syntax_error", "unexpected_char"):
        for f in fx.need(PARSER + "::" + name):
            from .c16 import chain, is_stream_write
            for st, guards in G.guarded_statements(f.body):
                if is_stream_write(st):
                    root, ops = chain(st)
                    first = strip(ops[0]) if ops else None
                    # first printed operand may be wrapped in a copy construction
                    has = first is not None and any(m.get("k") == "MemberExpr" and m["m"]["q"] == PS + "::current_sp"
                                                    for m in walk(ops[0]))
                    if has:
                        k = (name, st.get("l"))
                        if k not in seen:
                            seen.add(k)
                            chk.ok("POS-S", A.site(f, st), "message starts with ps.current_sp")
                    else:
                        chk.violation("POS-S", A.site(f, st), "POS-S:%s:message-position" % name,
                                      "the %s message does not print ps.current_sp first" % name)
