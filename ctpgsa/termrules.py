"""Rules about the term classes' interface (char_term, string_term, regex_term, custom_term, typed_term).

 TERMAPI  reference summaries of every getter the parser reads (ctpgsa/goldenreg.py, group TERMAPI)
 DEFARG   sibling agreement of the constructors' default arguments: every term constructor that has a defaulted
          `precedence` / associativity parameter defaults them to 0 / associativity::no_assoc (readme: "Default term
          precedence is equal to 0", "not associative as the default"), so that a term behaves the same whichever
          kind of term it is written as
"""
from . import astq as A
from . import golden, goldenreg
from .canon import Canon

CTORS = ("ctpg::term::term", "ctpg::char_term::char_term", "ctpg::string_term::string_term",
         "ctpg::regex_term::regex_term", "ctpg::custom_term::custom_term")
WANT = {"int": ("0", "precedence"), "ctpg::associativity": ("no_assoc", "associativity")}


def termapi(chk, fx):
    golden.group(chk, fx, "TERMAPI", "reference summaries of the term / nterm getters the parser reads",
                 goldenreg.GROUPS["TERMAPI"])


def defarg(chk, fx):
    chk.rule("DEFARG", "defaulted precedence / associativity parameters of the term constructors", 8)
    seen = set()
    found = set()
    for q in CTORS:
        for f in fx.fns(q):
            if f.o.get("implicit") or f.o.get("defaulted"):
                continue
            cn = Canon(f)
            for p in f.o["params"]:
                if p.get("default") is None:
                    continue
                t = f.facts.TC(p["t"]).replace("enum ", "").replace("const ", "").replace("&", "").strip()
                if t not in WANT:
                    continue
                want, what = WANT[t]
                key = (q, f.o.get("l"), p["n"])
                if key in seen:
                    continue
                seen.add(key)
                found.add(q)
                got = cn.c(p["default"])
                site = "include/ctpg/ctpg.hpp:%s %s parameter '%s'" % (p.get("l"), q, p["n"])
                if got == want:
                    chk.ok("DEFARG", site, "default %s is %s" % (what, want))
                else:
                    chk.violation("DEFARG", site, "DEFARG:%s:%s" % (q, what),
                                  "default %s of this constructor is %s; the documented default, and the one of the "
                                  "sibling term kinds, is %s: the same grammar resolves conflicts differently with this "
                                  "kind of term" % (what, got, want))
    missing = [q for q in CTORS if q not in found]
    if missing:
        chk.incomplete("DEFARG: no defaulted precedence/associativity parameter found for %s" % ", ".join(missing))
