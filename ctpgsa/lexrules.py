"""Structural rules about the generated lexer's matcher and the term hand-over (shared by C02, C04, C06, C09, C18).

 MATCH   dfa_match (role template on canonical forms): length and term are snapshotted together at every accepting
         state, the counter advances exactly with the iterator, the state follows the transition only when there is
         one, the scan stops at the end of input or on a missing transition, nothing else leaves the scan
 ITER    every dereference of a moving iterator is preceded, in the same iteration, by the end test that leaves
         the loop (dfa_match, skip_whitespace, source_point::update)
 CHARIDX every subscript of a byte-indexed table goes through char_to_idx (bytes >= 0x80 would index negatively)
 SLICE   the lexeme handed to a term functor is buffer.get_view(current_it, current_end_it) and current_end_it is
         current_it + <length reported by the lexer>, set only after the failure test
 TAG     the length of a recognized_term is used only where its term index was tested valid
"""
import re

from . import astq as A
from . import absint as AI
from . import flow
from . import idxrule
from .canon import Canon
from .facts import walk, strip
from .lr import _compare, _events, _loopdep, first_inst

P = "ctpg::parser::"
PS = "ctpg::detail::parse_state::"


def match(chk, fx):
    from . import pathsig as PS
    from .lr import _drop_noise
    chk.rule("MATCH", "dfa_match: longest-match scan", 5)
    f = first_inst(fx, "ctpg::regex::dfa_match")
    flow.assert_structured(f)
    cn = Canon(f)
    loops = [n for n in (f.body.get("c") or []) if n.get("k") in ("WhileStmt", "ForStmt")]
    if len(loops) != 1:
        chk.incomplete("dfa_match: scan loop not found")
    loop = loops[0]
    # the loop condition (if any) is part of every iteration
    pre = PS.signed_atoms(cn, loop["cond"], True) if loop.get("cond") is not None and flow.cond_atoms(loop["cond"], False) else None
    actual, nodes = PS.event_conditions(cn, loop["body"], unroll=1, drop=_drop_noise, pre=pre)
    actual = {k: v for k, v in actual.items() if k[0] != "call"}
    if loop.get("cond") is not None and flow.cond_atoms(loop["cond"], False):
        # leaving through the loop condition counts as a break under the negated condition
        ex = {frozenset(a) for a in PS.signed_atoms(cn, loop["cond"], False)}
        actual[("break", "")] = actual.get(("break", ""), set()) | ex
    # roles
    rt = ln = st = None
    for (k, t) in actual:
        m = re.fullmatch(r"\(\?(\w+)\.len = \?(\w+)\)", t)
        if k == "assign" and m:
            rt, ln = m.group(1), m.group(2)
        m = re.fullmatch(r"\(\?(\w+) = \$0\[\?(\w+)\]\.transitions\[char_to_idx\(\*\$3\)\]\)", t)
        if k == "assign" and m and m.group(1) == m.group(2):
            st = m.group(1)
    whole = None
    if rt is None and st is not None:
        # the snapshot may be taken by assigning a whole result object: rt = recognized_term(rec, len)
        for (k, t) in actual:
            m = re.fullmatch(r"\(\?(\w+) = recognized_term\{(.+), \?(\w+)\}\)", t)
            if k == "assign" and m and m.group(2) == "$0[?%s].conflicted_recognition[0]" % st:
                rt, ln, whole = m.group(1), m.group(3), t
    if rt is None or ln is None or st is None:
        lens = [t for (k, t) in actual if k in ("assign", "inc") and ".len" in t]
        if lens and (rt is None or ln is None):
            chk.violation("MATCH", A.site(f, loop), "MATCH:length-snapshot",
                          "the match length is recorded as %s: it must be a snapshot (result.len = <counter>) taken at "
                          "an accepting state" % lens)
            return
        if rt is None:
            # no snapshot inside the scan loop at all: is the result written only after (outside) it?
            outside = []
            inside_ids = {id(x) for x in walk(loop)}
            for x in walk(f.body):
                if id(x) in inside_ids:
                    continue
                if x.get("k") == "MemberExpr" and x["m"]["q"] == "ctpg::recognized_term::len":
                    par = flow.parent_map(f.body).get(id(x))
                    if par is not None and par.get("k") in ("BinaryOperator", "CXXOperatorCallExpr") and par.get("op") == "=":
                        outside.append(x)
                if x.get("k") in ("CXXConstructExpr", "CXXTemporaryObjectExpr") and \
                        (x.get("ctor") or {}).get("q", "").startswith("ctpg::recognized_term::recognized_term") and \
                        len(x.get("c") or []) == 2:
                    outside.append(x)
            if outside:
                chk.violation("MATCH", A.site(f, outside[0]), "MATCH:snapshot-outside-loop",
                              "the length / winning term are recorded only after the scan loop, for the state in which the "
                              "scan stopped: an accepting state passed on the way to a longer non-match is forgotten, so the "
                              "longest-match fallback is lost")
                return
        if rt is not None and ln is not None:
            # the state variable was not recognised (another way of stepping), but the snapshot was: it must be taken
            # at EVERY accepting state, i.e. its condition may only ask whether the state accepts
            snap_c = actual.get(("assign", "(?%s.len = ?%s)" % (rt, ln)))
            if snap_c:
                fixed = None
                for conj in snap_c:
                    others = {(a, p) for a, p in conj if "conflicted_recognition[0]" not in a}
                    fixed = others if fixed is None else (fixed & others)
                if fixed:
                    chk.violation("MATCH", A.site(f, loop), "MATCH:snapshot-condition",
                                  "the length / winning term are recorded only when additionally %s: an accepting state passed "
                                  "on the way to a longer non-match is forgotten, so the longest-match fallback is lost" %
                                  PS.show({frozenset(fixed)})[:200])
                    return
        chk.incomplete("dfa_match: result/counter/state roles not recognised")
    REC = "$0[?%s].conflicted_recognition[0]" % st
    TR = "$0[?%s].transitions[char_to_idx(*$3)]" % st
    ACC = ("(%s == uninitialized16)" % REC, False)
    AT_END = "($3 == $4)"
    NO_TR = "(%s == uninitialized16)" % TR
    go = [(AT_END, False), (NO_TR, False)]
    snap = [("assign", "(?%s.len = ?%s)" % (rt, ln)), ("assign", "(?%s.term_idx = %s)" % (rt, REC))] if whole is None \
        else [("assign", whole)]
    want = {}
    for key in snap:
        want[key] = (PS.dnf([ACC]), "length and winning term (priority slot 0) are snapshotted at every accepting state")
    want.update({
        ("break", ""): (PS.dnf([(AT_END, True)], [(AT_END, False), (NO_TR, True)]),
                        "the scan stops at the end of input or where no transition exists, and only there"),
        ("assign", "(?%s = %s)" % (st, TR)): (PS.dnf(go), "the state follows the transition for the current byte"),
        ("inc", "$3++"): (PS.dnf(go), "the iterator advances by one byte per transition"),
        ("inc", "?%s++" % ln): (PS.dnf(go), "the length counter advances with the iterator"),
    })
    # snapshot events are reached through either outcome of later tests: compare on their own atoms only
    proj = {}
    for key, v in actual.items():
        if key in snap:
            proj[key] = {frozenset((a, p) for a, p in c if a == ACC[0]) for c in v}
        else:
            proj[key] = {frozenset((a, p) for a, p in c if a != ACC[0]) for c in v}
    PS.compare(chk, "MATCH", f, loop, proj, nodes, want)
    inits = {n["n"]: cn.c(n["init"]) if n.get("init") is not None else None for n in walk(f.body)
             if n.get("k") == "Var" and n["n"] in (st, ln, rt)}
    if inits.get(st) == "0" and inits.get(ln) == "0" and (inits.get(rt) or "").startswith("recognized_term{"):
        chk.ok("MATCH", A.site(f), "scan starts in state 0 with length 0 and the failure result")
    else:
        chk.violation("MATCH", A.site(f), "MATCH:initial", "initial state/length/result: %s" % inits)
    rets = [cn.c(n["value"]) for n in walk(f.body) if n.get("k") == "ReturnStmt" and n.get("value") is not None]
    if rets != ["?" + rt]:
        chk.violation("MATCH", A.site(f), "MATCH:result", "dfa_match returns %s instead of the snapshot" % rets)


def iter_rule(chk, fx):
    chk.rule("ITER", "dereferences of moving iterators guarded by the end test", 3)
    targets = [("ctpg::regex::dfa_match", 3, 4), ("ctpg::source_point::update", 0, 1)]
    for q, si, ei in targets:
        f = first_inst(fx, q)
        _iter_fn(chk, f, f.o["params"][si]["id"], ("param", f.o["params"][ei]["id"]))
    f = first_inst(fx, P + "skip_whitespace")
    # local `start` initialised from ps.current_it, compared with ps.buffer_end
    loc = [n for n in walk(f.body) if n.get("k") == "Var" and n.get("init") is not None and
           "current_it" in A.path_names(A.access_path(n["init"]))]
    if len(loc) != 1:
        chk.incomplete("skip_whitespace: moving iterator not recognised")
    _iter_fn(chk, f, loc[0]["id"], ("field", PS + "buffer_end"))


def _iter_fn(chk, f, it_id, end):
    flow.assert_structured(f)
    loops = [n for n in walk(f.body) if n.get("k") in ("WhileStmt", "ForStmt")]
    if not loops:
        chk.incomplete("%s: scan loop not found" % f.o["q"])
    loop = loops[0]

    def is_it(n):
        return A.declref_id(n) == it_id

    def is_end(n):
        if end[0] == "param":
            return A.declref_id(n) == end[1]
        p = A.access_path(n)
        return bool(p) and p[-1][0] == "field" and p[-1][1] == end[1]

    def end_test(cond, outcome):
        """True if (cond, outcome) establishes it != end."""
        a = AI.atom_with_outcome(cond, outcome)
        s = strip(cond, casts=True)
        if s is None:
            return False
        if s.get("k") == "CXXOperatorCallExpr" and s.get("op") in ("==", "!="):
            l, r = s["c"][1], s["c"][2]
        elif s.get("k") == "BinaryOperator" and s.get("op") in ("==", "!="):
            l, r = s["c"]
        else:
            return False
        if not ((is_it(l) and is_end(r)) or (is_it(r) and is_end(l))):
            return False
        ne = (s["op"] == "!=") == outcome
        return ne

    n_deref = 0
    bad = []

    def scan(events, safe):
        nonlocal n_deref
        for e in events:
            nodes = [e[1]] if e[0] in ("stmt", "cond", "return") else []
            for nd in nodes:
                for m in walk(nd):
                    is_deref = (m.get("k") == "CXXOperatorCallExpr" and m.get("op") == "*" and len(m["c"]) == 2 and
                                is_it(m["c"][1])) or (m.get("k") == "UnaryOperator" and m.get("op") == "*" and
                                                      is_it(m["c"][0]))
                    if is_deref:
                        n_deref += 1
                        if not safe:
                            bad.append(m)
                if e[0] == "stmt":
                    for eff in AI.effects(nd):
                        if eff[0] == "inc" and len(eff[3]) == 1 and eff[3][0][0] == "var" and eff[3][0][1] == it_id:
                            safe = False
            # the outcome of an end test is known only after it has been evaluated
            if e[0] == "cond" and end_test(e[1], e[2]):
                safe = True
        return safe

    if loop.get("cond") is not None:
        true_alts = flow.cond_atoms(loop["cond"], True)
        false_alts = flow.cond_atoms(loop["cond"], False)
    else:
        true_alts, false_alts = [[]], []
    for alt in false_alts:
        scan(alt, False)
    for alt in true_alts:
        for ev, term_ in flow.paths(loop["body"], unroll=0):
            s0 = scan(alt, False)
            scan(ev, s0)
    if n_deref == 0:
        chk.incomplete("%s: no dereference of the moving iterator found" % f.o["q"])
    if bad:
        chk.violation("ITER", A.site(f, bad[0]), "ITER:%s" % f.o["n"],
                      "the iterator is dereferenced on a path where it has not been compared with the end of the buffer "
                      "in this iteration: reads one element past the input")
    else:
        chk.ok("ITER", A.site(f, loop), "every dereference in %s follows the end test of the same iteration" % f.o["n"])


CHAR_TABLES = {"ctpg::regex::dfa_state::transitions", "ctpg::regex::regex_lexer::specials", "ctpg::utils::char_names::arr"}


def charidx(chk, fx):
    chk.rule("CHARIDX", "subscripts of byte-indexed tables", 8)
    seen = set()
    for fn in fx.all_fns():
        if fn.is_pattern or not fn.o["q"].startswith("ctpg::"):
            continue
        cn = None
        for n in walk(fn.body):
            if n.get("k") != "ArraySubscriptExpr":
                continue
            p = A.access_path(n["c"][0])
            if not (p and p[-1][0] == "field" and p[-1][1] in CHAR_TABLES):
                continue
            idx = n["c"][1]
            t = fn.facts.T(strip(idx).get("t")) if strip(idx) is not None else ""
            if cn is None:
                cn = Canon(fn)
            txt = cn.c(idx)
            key = (fn.o["q"], n.get("l"))
            # accepted: char_to_idx(...), an unsigned loop counter bounded by the table size, idx arithmetic on those
            ok = "char_to_idx(" in txt or re.fullmatch(r"@i\{[^}]*\}", txt) is not None or \
                re.fullmatch(r"\$\d+", txt) is not None and "char" not in fn.facts.T(strip(idx, casts=True).get("t", 0))
            raw_char = _is_char_typed(fn, idx)
            site = A.site(fn, n)
            if raw_char:
                chk.violation("CHARIDX", site, "CHARIDX:%s:%s" % (fn.o["q"], p[-1][2]),
                              "table %s is indexed with a value of type char (%s): bytes >= 0x80 are negative indices" %
                              (p[-1][2], txt[:60]))
            elif ok:
                if key not in seen:
                    seen.add(key)
                    chk.ok("CHARIDX", site, "%s[%s]" % (p[-1][2], txt[:50]))
            else:
                chk.violation("CHARIDX", site, "CHARIDX:%s:%s:unrecognised-index" % (fn.o["q"], p[-1][2]),
                              "table %s is indexed with %s, which is neither char_to_idx(...) nor a bounded counter" %
                              (p[-1][2], txt[:80]))


def _is_char_typed(fn, idx):
    """The index expression is (a promotion of) a plain char value."""
    s = idx
    while s is not None and s.get("k") in ("ImplicitCastExpr", "ParenExpr"):
        if s.get("k") == "ImplicitCastExpr" and s.get("ck") == "IntegralCast":
            inner = (s.get("c") or [None])[0]
            it = fn.facts.T(inner.get("t")) if inner is not None else ""
            if it in ("char", "const char", "signed char"):
                return True
        s = (s.get("c") or [None])[0]
    t = fn.facts.T(s.get("t")) if s is not None else ""
    return t in ("char", "const char", "signed char")


def slice_rule(chk, fx):
    chk.rule("SLICE", "lexeme handed to the term functor", 3)
    # driver: shift(ps, buffer.get_view(ps.current_it, ps.current_end_it), t_idx, entry.arg)
    f = [g for g in fx.need(P + "context_parse") if len(g.o["params"]) == 4][0]
    cn = Canon(f)
    shifts = [n for n in walk(f.body) if A.is_call(n, q=P + "shift")]
    if len(shifts) != 1:
        chk.incomplete("context_parse: expected one call of shift")
    args = [cn.c(a) for a in A.call_args(shifts[0])]
    psn = args[0]
    if args[1] == "$2.get_view(%s.current_it, %s.current_end_it)" % (psn, psn):
        chk.ok("SLICE", A.site(f, shifts[0]), "shift receives buffer.get_view(current_it, current_end_it)")
    else:
        chk.violation("SLICE", A.site(f, shifts[0]), "SLICE:driver-view",
                      "the lexeme handed to shift is %s, not the view [current_it, current_end_it) of the caller's buffer"
                      % args[1])
    # current_end_it is written only as current_it + res.len (and in the constructor)
    g = first_inst(fx, P + "get_current_term")
    cg = Canon(g)
    n_w = 0
    for q in set(fx.qnames()):
        if not q.startswith(P):
            continue
        for h in fx.fns(q)[:1]:
            ch = None
            for n, target, op in A.writes(h.body):
                p = A.access_path(target)
                if p and p[-1][0] == "field" and p[-1][1] == PS + "current_end_it":
                    if ch is None:
                        ch = Canon(h)
                    n_w += 1
                    txt = ch.c(n)
                    m = _is_it_plus_len(h, n)
                    if m:
                        chk.ok("SLICE", A.site(h, n), "current_end_it = current_it + <lexer result>.len")
                    else:
                        chk.violation("SLICE", A.site(h, n), "SLICE:%s:end" % h.o["n"],
                                      "the end of the lexeme is set by %s instead of current_it + length reported by the "
                                      "lexer" % txt[:120])
    if n_w == 0:
        chk.incomplete("no write of parse_state::current_end_it found")
    # the functor is applied to exactly that view, the value carries it
    for h in fx.need(P + "string_view_to_term_value")[:6]:
        ch = Canon(h)
        rets = [ch.c(n["value"]) for n in walk(h.body) if n.get("k") == "ReturnStmt"]
        good = len(rets) == 1 and re.search(r"get(<[^>]*>)?\(\$0\)\.get_ftor\(\)\(\$1\)", rets[0].replace(" ", "")) or \
            (len(rets) == 1 and ".get_ftor()($1)" in rets[0] and "$2" in rets[0])
        if good and "$2" in rets[0]:
            chk.ok("SLICE", A.site(h), "term value = functor(view) with the source point")
            break
        else:
            chk.violation("SLICE", A.site(h), "SLICE:term-value", "term value is built as %s" % rets)
            break


def _is_it_plus_len(h, n):
    """n is `<ps>.current_end_it = <ps>.current_it + <recognized_term object>.len` (the object may be a local or the
    value of a helper call: only its type and the field matter)."""
    k = n.get("k")
    if k == "BinaryOperator" and n.get("op") == "=":
        lhs, rhs = n["c"]
    elif k == "CXXOperatorCallExpr" and n.get("op") == "=" and len(n.get("c") or []) == 3:
        lhs, rhs = n["c"][1], n["c"][2]
    else:
        return False
    r = strip(rhs, casts=True)
    if r is None:
        return False
    if r.get("k") == "BinaryOperator" and r.get("op") == "+":
        a, b = r["c"]
    elif r.get("k") == "CXXOperatorCallExpr" and r.get("op") == "+" and len(r.get("c") or []) == 3:
        a, b = r["c"][1], r["c"][2]
    else:
        return False
    pa = A.access_path(a)
    pl = A.access_path(lhs)
    if not (pa and pa[-1][0] == "field" and pa[-1][1] == PS + "current_it"):
        return False
    if A.path_names(pa[:-1]) != A.path_names(pl[:-1]):
        return False
    sb = strip(b, casts=True)
    return sb is not None and sb.get("k") == "MemberExpr" and sb["m"]["q"] == "ctpg::recognized_term::len"


def tag(chk, fx):
    chk.rule("TAG", "uses of a lexer result's length", 2)
    sites = 0
    for q in (P + "get_current_term", "ctpg::regex::expr::match"):
        for f in fx.need(q)[:12]:
            if q.endswith("match") and len(f.o["params"]) != 3:
                continue
            flow.assert_structured(f)
            lens = [n for n in walk(f.body) if n.get("k") == "MemberExpr" and n["m"]["q"] == "ctpg::recognized_term::len"]
            if not lens:
                continue
            sites += 1
            ok = True
            # never-reassigned locals that are copies of the result's term index (const size16_t idx = res.term_idx)
            written = {A.declref_id(t) for _n, t, _o in A.writes(f.body)}
            aliases = set()
            for v in walk(f.body):
                if v.get("k") == "Var" and v.get("init") is not None and v["id"] not in written:
                    t = AI.term(v["init"])
                    if t[0] == "path" and t[2] and t[2][-1][0] == "field" and \
                            t[2][-1][1] in ("ctpg::recognized_term::term_idx", PS + "current_term_idx"):
                        aliases.add(v["id"])

            def is_idx(a, b):
                if _is_termidx(a, b):
                    return True
                for x, y in ((a, b), (b, a)):
                    if y[0] == "const" and x[0] == "path" and len(x[2]) == 1 and x[2][0][0] == "var" and x[2][0][1] in aliases:
                        return True
                return False
            for ev, term_ in flow.paths(f.body):
                tested = False
                for e in ev:
                    nodes = [e[1]] if e[0] in ("stmt", "cond", "return") else []
                    if e[0] == "cond":
                        a = AI.atom_with_outcome(e[1], e[2])
                        if a[0] == "cmp" and is_idx(a[2], a[3]):
                            v = a[3] if a[3][0] == "const" else a[2]
                            # valid when != sentinel, or == a concrete term index
                            if (a[1] == "!=" and v[1] == 65535) or (a[1] == "==" and v[1] != 65535):
                                tested = True
                    for nd in nodes:
                        for m in walk(nd):
                            if m.get("k") == "MemberExpr" and m["m"]["q"] == "ctpg::recognized_term::len" and not tested:
                                ok = False
                                chk.violation("TAG", A.site(f, m), "TAG:%s" % f.o["n"],
                                              "the length of a lexer result is used on a path where its term index has "
                                              "not been tested: on failure the length is the sentinel 65535")
            if ok:
                chk.ok("TAG", A.site(f, lens[0]), "result.len is read only after result.term_idx was tested valid")
            break
    if sites < 2:
        chk.incomplete("TAG: fewer than 2 users of recognized_term::len found")


def _is_termidx(a, b):
    for x, y in ((a, b), (b, a)):
        if y[0] == "const" and x[0] == "path":
            fl = [c[1] for c in x[2] if c[0] == "field"]
            if fl and fl[-1] in ("ctpg::recognized_term::term_idx", PS + "current_term_idx"):
                return True
    return False


WIDTH = {"ctpg::size_t": 64, "size_t": 64, "std::size_t": 64, "unsigned long": 64, "long": 64, "unsigned long long": 64,
         "ctpg::size32_t": 32, "size32_t": 32, "unsigned int": 32, "int": 32, "std::uint32_t": 32,
         "ctpg::size16_t": 16, "size16_t": 16, "unsigned short": 16, "short": 16, "std::uint16_t": 16,
         "ctpg::size8_t": 8, "size8_t": 8, "unsigned char": 8, "char": 8, "std::uint8_t": 8, "bool": 1}


def _width(t):
    t = t.replace("const ", "").strip()
    return WIDTH.get(t)


def lenw(chk, fx):
    """The match length travels from the scan counter to the lexeme end without being narrowed: a token longer than
    the narrower type would be cut (mod 2^k), and a token of exactly 2^k bytes would have length 0 (no progress)."""
    chk.rule("LENW", "width of the match length on its way to the lexeme end", 3)
    # (1) the field itself
    recs = list(fx.records("ctpg::recognized_term"))
    chk.require(recs, "record recognized_term not found")
    u, r = recs[0]
    for fl in r["fields"]:
        if fl["n"] == "len":
            w = _width(u.T(fl["t"]))
            s = "include/ctpg/ctpg.hpp:%s ctpg::recognized_term::len" % fl["l"]
            if w is None:
                chk.incomplete("recognized_term::len has an unrecognised type %s" % u.T(fl["t"]))
            if w >= 64:
                chk.ok("LENW", s, "len is %s (as wide as the iterator difference)" % u.T(fl["t"]))
            else:
                chk.violation("LENW", s, "LENW:recognized_term::len", "len is %s: lengths >= 2^%d are truncated (a token of "
                              "exactly 2^%d bytes gets length 0 and the parser makes no progress)" % (u.T(fl["t"]), w, w))
    # (2) no narrowing conversion of a length value in the functions that carry it
    carriers = ["ctpg::regex::dfa_match", "ctpg::recognized_term::recognized_term", "ctpg::regex::regex_lexer::match",
                "ctpg::regex::regex_lexer::recognized", P + "get_current_term", "ctpg::regex::expr::match"]
    seen = set()
    for q in carriers:
        for f in fx.fns(q)[:4]:
            roots = [f.body] + [i.get("init") for i in f.o.get("inits", ())]
            bad = False
            for rt in roots:
                for n in walk(rt):
                    if n.get("k") == "ImplicitCastExpr" and n.get("ck") == "IntegralCast":
                        src = (n.get("c") or [None])[0]
                        if src is None:
                            continue
                        ws, wd = _width(f.facts.T(src.get("t"))), _width(f.facts.T(n.get("t")))
                        if ws is None or wd is None or wd >= ws:
                            continue
                        names = A.path_names(A.access_path(src))
                        if "len" in names.split(".")[-1] or names.endswith("len"):
                            bad = True
                            chk.violation("LENW", A.site(f, n), "LENW:%s:narrowing" % f.o["n"],
                                          "the length '%s' (%s) is implicitly narrowed to %s" % (
                                              names, f.facts.T(src.get("t")), f.facts.T(n.get("t"))))
            if not bad and q not in seen:
                seen.add(q)
                chk.ok("LENW", A.site(f), "no narrowing conversion of a length in %s" % f.o["n"])
