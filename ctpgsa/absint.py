"""Normalisation of statements and conditions into small abstract effects, for the finite-domain rules.

effects(stmt) -> list of
   ("inc", path, +1|-1)            ++x, x++, x += 1, x -= 1, --x
   ("set", path, const)            x = <integer/char/bool/enum constant>
   ("assign", path, expr)          x = <anything else>
   ("op", op, path, expr)          x op= expr   (other compound assignments)
   ("call", qname, call-node)      any resolved call (member calls include the object in the node)
   ("decl", var-node)              declaration with initialiser
where path is the readable access path (astq.path_names) — renaming a local does not matter for the rules that use
this, they compare paths only against parameters/fields they looked up by declaration.

atom(cond) -> normalised comparison ("cmp", op, lhs, rhs) | ("truth", expr) with constants folded to ("const", v).
"""
from . import astq as A
from .facts import strip, walk


def const_of(n):
    """Integer value of a constant expression node (literal, enum constant, constexpr/static const variable,
    substituted template parameter), or None."""
    n = strip(n, casts=True)
    if n is None:
        return None
    k = n.get("k")
    if k in ("IntegerLiteral", "CharacterLiteral"):
        return int(n["v"])
    if k == "CXXBoolLiteralExpr":
        return 1 if n["v"] else 0
    if "cv" in n:
        return int(n["cv"])
    if k == "DeclRefExpr" and "cv" in n["d"]:
        return int(n["d"]["cv"])
    if k == "UnaryOperator" and n.get("op") == "-":
        v = const_of(n["c"][0])
        return -v if v is not None else None
    return None


def term(n):
    """Symbolic term for an expression: ("const", v) | ("path", names, access_path) | ("deref", term) |
    ("call", q, [terms]) | ("bin", op, a, b) | ("un", op, a) | ("expr", kind)."""
    s = strip(n, casts=True)
    if s is None:
        return ("none",)
    v = const_of(s)
    if v is not None:
        return ("const", v)
    k = s.get("k")
    if k in ("DeclRefExpr", "MemberExpr", "ArraySubscriptExpr", "CXXThisExpr"):
        p = A.access_path(s)
        return ("path", A.path_names(p), p)
    if k == "UnaryOperator" and s.get("op") == "*":
        return ("deref", term(s["c"][0]))
    if k == "CXXOperatorCallExpr" and s.get("op") == "*" and len(s["c"]) == 2:
        return ("deref", term(s["c"][1]))
    if k == "CXXOperatorCallExpr" and s.get("op") == "[]":
        p = A.access_path(s)
        return ("path", A.path_names(p), p)
    if k == "CXXOperatorCallExpr" and len(s["c"]) == 3:
        return ("bin", s["op"], term(s["c"][1]), term(s["c"][2]))
    if k == "BinaryOperator":
        return ("bin", s["op"], term(s["c"][0]), term(s["c"][1]))
    if k == "UnaryOperator":
        return ("un", s["op"], term(s["c"][0]))
    if k in ("CallExpr", "CXXMemberCallExpr"):
        c = s.get("callee")
        args = [term(a) for a in A.call_args(s)]
        obj = A.call_object(s)
        return ("call", c["q"] if c else None, ([term(obj)] if obj is not None else []) + args)
    if k == "ConditionalOperator":
        return ("cond", term(s["c"][0]), term(s["c"][1]), term(s["c"][2]))
    return ("expr", k)


def tstr(t):
    """Readable term."""
    if t[0] == "const":
        return str(t[1])
    if t[0] == "path":
        return t[1]
    if t[0] == "deref":
        return "*" + tstr(t[1])
    if t[0] == "bin":
        return "(%s %s %s)" % (tstr(t[2]), t[1], tstr(t[3]))
    if t[0] == "un":
        return "%s%s" % (t[1], tstr(t[2]))
    if t[0] == "call":
        return "%s(%s)" % ((t[1] or "?").split("::")[-1], ", ".join(tstr(a) for a in t[2]))
    if t[0] == "cond":
        return "(%s ? %s : %s)" % (tstr(t[1]), tstr(t[2]), tstr(t[3]))
    return "<%s>" % (t[1] if len(t) > 1 else t[0])


def same(t1, t2):
    """Structural equality of terms (variables by declaration id, fields by qualified name)."""
    if t1[0] != t2[0]:
        return False
    if t1[0] == "const":
        return t1[1] == t2[1]
    if t1[0] == "path":
        a, b = t1[2], t2[2]
        if len(a) != len(b):
            return False
        for x, y in zip(a, b):
            if x[0] != y[0]:
                return False
            if x[0] in ("var", "field") and x[1] != y[1]:
                return False
            if x[0] == "index":
                if not same(term(x[1]), term(y[1])):
                    return False
            if x[0] in ("call", "other", "cast"):
                if x[0] == "call":
                    if x[1] != y[1] or not same(term(x[2]), term(y[2])):
                        return False
                elif x[1:] != y[1:]:
                    return False
        return True
    if t1[0] == "deref":
        return same(t1[1], t2[1])
    if t1[0] == "bin":
        return t1[1] == t2[1] and same(t1[2], t2[2]) and same(t1[3], t2[3])
    if t1[0] == "un":
        return t1[1] == t2[1] and same(t1[2], t2[2])
    if t1[0] == "call":
        return t1[1] == t2[1] and len(t1[2]) == len(t2[2]) and all(same(a, b) for a, b in zip(t1[2], t2[2]))
    if t1[0] == "cond":
        return all(same(a, b) for a, b in zip(t1[1:], t2[1:]))
    return t1 == t2


def effects(stmt):
    """Normalised effects of one statement-level node (see module docstring), in evaluation order (approximately:
    nested calls are reported innermost first)."""
    out = []
    if stmt is None:
        return out
    if stmt.get("k") == "DeclStmt":
        for d in stmt.get("decls", ()):
            if d.get("k") == "Var":
                if d.get("init") is not None:
                    out += _expr_effects(d["init"])
                out.append(("decl", d))
        return out
    return _expr_effects(stmt)


def _expr_effects(e):
    out = []
    s = strip(e)
    if s is None:
        return out
    k = s.get("k")
    if k in ("BinaryOperator", "CompoundAssignOperator") and s.get("op") in A.ASSIGN_OPS:
        lhs, rhs = s["c"]
        out += _expr_effects(rhs)
        p = A.access_path(lhs)
        out += _index_effects(lhs)
        if s["op"] == "=":
            v = const_of(rhs)
            if v is not None:
                out.append(("set", A.path_names(p), v, p))
            else:
                out.append(("assign", A.path_names(p), rhs, p))
        elif s["op"] in ("+=", "-=") and const_of(rhs) == 1:
            out.append(("inc", A.path_names(p), 1 if s["op"] == "+=" else -1, p))
        else:
            out.append(("op", s["op"], A.path_names(p), rhs, p))
        return out
    if k == "UnaryOperator" and s.get("op") in ("++", "--"):
        p = A.access_path(s["c"][0])
        out.append(("inc", A.path_names(p), 1 if s["op"] == "++" else -1, p))
        return out
    if k == "CXXOperatorCallExpr" and s.get("op") in ("++", "--"):
        p = A.access_path(s["c"][1])
        out.append(("inc", A.path_names(p), 1 if s["op"] == "++" else -1, p))
        return out
    if k == "CXXOperatorCallExpr" and s.get("op") in A.ASSIGN_OPS:
        lhs, rhs = s["c"][1], s["c"][2]
        out += _expr_effects(rhs)
        p = A.access_path(lhs)
        if s["op"] == "=":
            out.append(("assign", A.path_names(p), rhs, p))
        else:
            out.append(("op", s["op"], A.path_names(p), rhs, p))
        return out
    if k in ("CallExpr", "CXXMemberCallExpr", "CXXOperatorCallExpr", "CXXConstructExpr", "CXXTemporaryObjectExpr"):
        for c in (s.get("c") or []):
            out += _expr_effects(c)
        c = s.get("callee") or s.get("ctor")
        out.append(("call", c["q"] if c else None, s))
        return out
    for c in (s.get("c") or []):
        if isinstance(c, dict):
            out += _expr_effects(c)
    for key in ("cond", "then", "else", "init", "value"):
        if isinstance(s.get(key), dict) and s.get("k") not in ("IfStmt", "ForStmt", "WhileStmt"):
            out += _expr_effects(s[key])
    return out


def _index_effects(lhs):
    out = []
    for n in walk(lhs):
        if n.get("k") in ("CallExpr", "CXXMemberCallExpr"):
            c = n.get("callee")
            out.append(("call", c["q"] if c else None, n))
    return out


def atom(cond):
    """Normalise an atomic condition."""
    s = strip(cond)
    if s is None:
        return ("truth", ("none",))
    k = s.get("k")
    if k == "BinaryOperator" and s.get("op") in ("==", "!=", "<", ">", "<=", ">="):
        return ("cmp", s["op"], term(s["c"][0]), term(s["c"][1]))
    if k == "CXXOperatorCallExpr" and s.get("op") in ("==", "!=", "<", ">", "<=", ">=") and len(s["c"]) == 3:
        return ("cmp", s["op"], term(s["c"][1]), term(s["c"][2]))
    return ("truth", term(s))


NEG = {"==": "!=", "!=": "==", "<": ">=", ">=": "<", ">": "<=", "<=": ">"}
SWAP = {"==": "==", "!=": "!=", "<": ">", ">": "<", "<=": ">=", ">=": "<="}


def atom_with_outcome(cond, outcome):
    """The relation that holds when `cond` evaluates to `outcome`."""
    a = atom(cond)
    if a[0] == "cmp":
        op = a[1] if outcome else NEG[a[1]]
        return ("cmp", op, a[2], a[3])
    return ("truth" if outcome else "false", a[1])
