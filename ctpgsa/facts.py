"""Fact base: runs the ctpgx clang plugin over translation units and loads the JSONL it writes.

Nothing here decides a property. Facts are cached under /verif/.cache/facts keyed by the content of
the header, the TU, the plugin and the flags, so that several property checks on one tree share one
extraction and any edit under /repo/include re-extracts.
"""
import hashlib
import json
import os
import subprocess
import sys
import time
from concurrent.futures import ThreadPoolExecutor

VERIF = os.path.dirname(os.path.dirname(os.path.abspath(__file__)))
REPO = os.environ.get("CTPG_REPO", "/repo")
HEADER = os.path.join(REPO, "include", "ctpg", "ctpg.hpp")
PLUGIN_SRC = os.path.join(VERIF, "extractor", "ctpgx.cc")
PLUGIN = os.path.join(VERIF, "build", "ctpgx.so")
CACHE = os.path.join(VERIF, ".cache", "facts")
WITNESS_DIR = os.path.join(VERIF, "witness")

WITNESS_TUS = ["w_core.cpp", "w_values.cpp", "w_lexer.cpp", "w_limits.cpp", "w_constexpr.cpp"]
# type-level witnesses: allowed not to compile (the failure is then reported by the property that owns the witness)
OPTIONAL_TUS = ["w_moveonly.cpp", "w_ctxflag.cpp"]   # w_cexeval.cpp: compile-fail witness (C07)


class AnalysisIncomplete(Exception):
    """Raised when something the analysis relies on is missing: exit 2, never a verdict."""


def sh(cmd, **kw):
    return subprocess.run(cmd, stdout=subprocess.PIPE, stderr=subprocess.STDOUT, text=True, **kw)


def build_plugin(force=False):
    if not force and os.path.exists(PLUGIN) and os.path.getmtime(PLUGIN) >= os.path.getmtime(PLUGIN_SRC):
        return
    os.makedirs(os.path.dirname(PLUGIN), exist_ok=True)
    flags = sh(["llvm-config-14", "--cxxflags"]).stdout.split()
    tmp = PLUGIN + ".tmp.%d" % os.getpid()
    r = sh(["clang++"] + flags + ["-fno-rtti", "-fPIC", "-shared", PLUGIN_SRC, "-o", tmp])
    if r.returncode != 0:
        raise AnalysisIncomplete("cannot build extractor plugin:\n" + r.stdout[-2000:])
    os.replace(tmp, PLUGIN)


def _hash_file(path):
    h = hashlib.sha256()
    with open(path, "rb") as f:
        h.update(f.read())
    return h.hexdigest()


def repo_tus():
    """Translation units the repository itself builds (tests + examples)."""
    out = []
    for sub in ("tests", "examples"):
        d = os.path.join(REPO, sub)
        if not os.path.isdir(d):
            continue
        for n in sorted(os.listdir(d)):
            if n.endswith(".cpp"):
                out.append(os.path.join(d, n))
    return out


def witness_tus():
    return [os.path.join(WITNESS_DIR, n) for n in WITNESS_TUS + OPTIONAL_TUS]


def is_optional(tu):
    return os.path.basename(tu) in OPTIONAL_TUS


def extract_one(tu, extra_flags=()):
    """Returns path of the facts file for tu (extracting if not cached)."""
    build_plugin()
    key = hashlib.sha256()
    key.update(_hash_file(HEADER).encode())
    key.update(_hash_file(tu).encode())
    key.update(_hash_file(PLUGIN_SRC).encode())
    key.update(" ".join(extra_flags).encode())
    name = os.path.basename(tu).replace(".cpp", "") + "." + key.hexdigest()[:20] + ".jsonl"
    os.makedirs(CACHE, exist_ok=True)
    out = os.path.join(CACHE, name)
    if os.path.exists(out) and os.path.getsize(out) > 0:
        try:
            os.utime(out)
        except OSError:
            pass
        return out
    tmp = out + ".tmp.%d" % os.getpid()
    cmd = ["clang++", "-std=gnu++17", "-I" + os.path.join(REPO, "include"), "-UNDEBUG", "-fsyntax-only",
           "-ferror-limit=5", "-Wno-everything",
           "-fplugin=" + PLUGIN, "-Xclang", "-plugin", "-Xclang", "ctpgx",
           "-Xclang", "-plugin-arg-ctpgx", "-Xclang", "out=" + tmp] + list(extra_flags) + [tu]
    r = sh(cmd)
    if r.returncode != 0 or not os.path.exists(tmp):
        if os.path.exists(tmp):
            os.remove(tmp)
        msg = "\n".join(l[:400] for l in r.stdout.splitlines()[:12])
        raise AnalysisIncomplete("extraction failed for %s (does the tree compile?):\n%s" % (tu, msg))
    os.replace(tmp, out)
    return out


def prune_cache(keep=120):
    try:
        files = sorted((os.path.join(CACHE, f) for f in os.listdir(CACHE)), key=os.path.getmtime)
    except FileNotFoundError:
        return
    now = time.time()
    for f in files[:-keep]:
        try:
            # a concurrently running check may be about to read a file it has just been handed: never remove
            # anything younger than half an hour
            if now - os.path.getmtime(f) < 1800:
                continue
            os.remove(f)
        except OSError:
            pass


# ---------------------------------------------------------------------------------------- nodes

TRANSPARENT = {"ParenExpr", "ImplicitCastExpr", "MaterializeTemporaryExpr", "ExprWithCleanups",
               "CXXBindTemporaryExpr", "ConstantExpr", "SubstNonTypeTemplateParmExpr", "FullExpr",
               "CXXDefaultArgExpr", "CXXDefaultInitExpr"}

NAMED_CHILDREN = ("init", "cond", "inc", "then", "else", "body", "range", "value", "pattern", "foldinit",
                  "filler")


def kids(n):
    """All direct child nodes of n in source order (named children first, then the list)."""
    out = []
    if n is None:
        return out
    for k in NAMED_CHILDREN:
        c = n.get(k)
        if isinstance(c, dict):
            out.append(c)
    lv = n.get("loopvar")
    if isinstance(lv, dict):
        out.append(lv)
    for d in n.get("decls", ()):
        if isinstance(d, dict) and d.get("k") == "Var":
            out.append(d)
    for c in n.get("c", ()):
        if isinstance(c, dict):
            out.append(c)
    return out


def walk(n):
    """Pre-order walk over a node tree."""
    stack = [n]
    while stack:
        x = stack.pop()
        if x is None:
            continue
        yield x
        ks = kids(x)
        stack.extend(reversed(ks))


def strip(n, casts=False):
    """Skip wrappers that do not change the value (parens, implicit casts, temporaries).
    With casts=True also explicit value-preserving casts (static_cast/functional/C-style)."""
    while n is not None:
        k = n.get("k")
        if k in TRANSPARENT:
            c = n.get("c") or []
            if len(c) != 1 or c[0] is None:
                return n
            n = c[0]
            continue
        if casts and k in ("CXXConstructExpr", "CXXTemporaryObjectExpr"):
            # copy / move construction of a value: the value itself
            ct = n.get("ctor") or {}
            c = n.get("c") or []
            if (ct.get("copy") or ct.get("move")) and len(c) == 1 and c[0] is not None:
                n = c[0]
                continue
        if casts and k in ("CXXFunctionalCastExpr", "CStyleCastExpr", "CXXStaticCastExpr"):
            c = n.get("c") or []
            if len(c) == 1 and c[0] is not None and n.get("ck") in ("IntegralCast", "NoOp", "LValueToRValue",
                                                                    "IntegralToBoolean"):
                n = c[0]
                continue
        return n
    return n


class Fn:
    __slots__ = ("o", "facts", "tu")

    def __init__(self, o, facts, tu):
        self.o = o
        self.facts = facts
        self.tu = tu

    def __getattr__(self, k):
        try:
            return self.o[k]
        except KeyError:
            raise AttributeError(k)

    def get(self, k, d=None):
        return self.o.get(k, d)

    @property
    def body(self):
        return self.o.get("body")

    @property
    def is_pattern(self):
        return self.o["tmpl"] == "pattern"

    @property
    def full(self):
        return self.facts.types[self.o["qf"] - 1] if self.o.get("qf") else self.o["q"]

    def where(self):
        return "ctpg.hpp:%s %s" % (self.o["l"], self.o["q"])

    def __repr__(self):
        return "<Fn %s @%s %s>" % (self.o["q"], self.o["l"], self.o["tmpl"])


class TUFacts:
    """Facts of one translation unit."""

    def __init__(self, path, tu):
        self.path = path
        self.tu = tu
        self.fns = []
        self.records = []
        self.vars = []
        self.enums = []
        self.types = []
        self.ctypes = []
        self.summary = {}
        self.by_id = {}
        with open(path) as f:
            for line in f:
                o = json.loads(line)
                r = o["rec"]
                if r == "fn":
                    fn = Fn(o, self, tu)
                    self.fns.append(fn)
                    self.by_id[o["id"]] = fn
                elif r == "record":
                    self.records.append(o)
                elif r == "var":
                    self.vars.append(o)
                elif r == "enum":
                    self.enums.append(o)
                elif r == "types":
                    self.types = o["tab"]
                    self.ctypes = o.get("ctab") or []
                elif r == "summary":
                    self.summary = o
        if not self.summary:
            raise AnalysisIncomplete("facts file %s is truncated" % path)
        from . import normal
        is_bool = lambda tid: self.TC(tid).replace("const ", "").strip() == "bool"
        for fn in self.fns:
            if fn.o.get("body") is not None:
                normal.normalise(fn.o["body"], is_bool)

    def T(self, tid):
        if not tid:
            return ""
        return self.types[tid - 1]

    def TC(self, tid):
        """Canonical spelling of a type (typedefs and member aliases resolved)."""
        if not tid:
            return ""
        c = self.ctypes[tid - 1] if tid - 1 < len(self.ctypes) else ""
        return c or self.types[tid - 1]


class Facts:
    """Union of the facts of several TUs, with the lookups the rules use."""

    def __init__(self, tus, jobs=16):
        t0 = time.time()
        self.tus = list(tus)
        self.failed = {}          # optional TU -> compiler diagnostic

        def one(tu):
            try:
                return extract_one(tu)
            except AnalysisIncomplete as e:
                if is_optional(tu):
                    self.failed[tu] = str(e)
                    return None
                raise
        with ThreadPoolExecutor(max_workers=jobs) as ex:
            paths = list(ex.map(one, self.tus))
        self.units = [TUFacts(p, tu) for p, tu in zip(paths, self.tus) if p is not None]
        self.tus = [tu for p, tu in zip(paths, self.tus) if p is not None]
        self.extract_s = time.time() - t0
        self._by_q = {}
        for u in self.units:
            for fn in u.fns:
                self._by_q.setdefault(fn.o["q"], []).append(fn)

    # ---- functions
    def all_fns(self):
        for u in self.units:
            yield from u.fns

    def fns(self, q, patterns=False, insts=True):
        """All function records with short qualified name q."""
        out = []
        for fn in self._by_q.get(q, ()):
            if fn.is_pattern and not patterns:
                continue
            if not fn.is_pattern and not insts:
                continue
            out.append(fn)
        return out

    def fns_named(self, name, patterns=False, insts=True):
        out = []
        for q, lst in self._by_q.items():
            if q.split("::")[-1] == name:
                for fn in lst:
                    if fn.is_pattern and not patterns:
                        continue
                    if not fn.is_pattern and not insts:
                        continue
                    out.append(fn)
        return out

    def need(self, q, patterns=False, insts=True, min_count=1):
        """Like fns() but a missing anchor is an analysis failure, not a verdict."""
        out = self.fns(q, patterns=patterns, insts=insts)
        if len(out) < min_count:
            raise AnalysisIncomplete("anchor function %s not found (%d < %d %s)" % (
                q, len(out), min_count, "patterns" if patterns and not insts else "instantiations"))
        return out

    def qnames(self):
        return self._by_q.keys()

    def records(self, q=None):
        for u in self.units:
            for r in u.records:
                if q is None or r["q"] == q:
                    yield u, r

    def vars(self):
        for u in self.units:
            for v in u.vars:
                yield u, v

    def enum(self, q):
        """name -> value of the enumeration with short qualified name q (first definition seen with values)."""
        for u in self.units:
            for e in u.enums:
                if e["q"] == q and e["constants"]:
                    return {c["n"]: c["v"] for c in e["constants"]}
        raise AnalysisIncomplete("enumeration %s not found" % q)

    def inventory(self):
        return {
            "tus": [os.path.relpath(t, "/") for t in self.tus],
            "functions": sum(len(u.fns) for u in self.units),
            "instantiated_functions": sum(1 for u in self.units for f in u.fns if not f.is_pattern),
            "pattern_functions": sum(1 for u in self.units for f in u.fns if f.is_pattern),
            "records": sum(len(u.records) for u in self.units),
            "vars": sum(len(u.vars) for u in self.units),
            "extract_s": round(self.extract_s, 2),
        }


def dedupe_by_loc(fns):
    """One representative per source location (instantiations of one pattern share structure)."""
    seen = {}
    for f in fns:
        seen.setdefault((f.o["q"], f.o["l"]), []).append(f)
    return seen


if __name__ == "__main__":
    build_plugin(force="--force" in sys.argv)
    print("plugin ok:", PLUGIN)
