"""Registry of the reference summaries (ctpgsa/golden.py): name -> (function, contract in words, selectors)."""
R = "ctpg::regex::"
U = "ctpg::utils::"
CV = "ctpg::stdex::cvector::"
L = R + "regex_lexer::"

REGISTRY = {
    # ---------------------------------------------------------------- regex front end (documented pattern syntax)
    "regex_char": (R + "regex_char", "decodes one pattern character: plain -> itself (1); \\x -> NUL (2); \\xH -> 0xH (3); "
                                     "\\xHH -> 0xHH (4); \\c -> c (2)", {}),
    "hex_digits_to_char": (R + "hex_digits_to_char", "value = digit(d1) * 16 + digit(d2)", {}),
    "hex_digit_lambda": (None, "digit value: A-F -> 10 + d - 'A'; a-f -> 10 + d - 'a'; else d - '0'",
                         {"enclosing": R + "hex_digits_to_char"}),
    "char_subset_add_range": (R + "char_subset::add_range", "adds every byte from r.start to r.end inclusive (as unsigned)", {}),
    "regex_lexer_match": (L + "match", "empty input -> nothing; special byte -> its term, length 1; digit -> term 0, length 1; "
                                       "otherwise a primary (escape, set, printable byte) or nothing", {}),
    "regex_lexer_match_primary": (L + "match_primary", "escape, else set, else one printable byte; anything else is refused", {}),
    "regex_lexer_match_range": (L + "match_range", "'[' ['^'] items ']' with at least the closing bracket before the end", {}),
    "regex_lexer_match_range_item": (L + "match_range_item", "escape or printable byte, optionally '-' and another escape or "
                                                             "printable byte that is not ']'", {}),
    "regex_lexer_match_escaped": (L + "match_escaped", "'\\' + printable byte (2); '\\x' + up to two hex digits (2..4); a lone "
                                                       "'\\' at the end is refused; no '\\' -> length 0", {}),
    "regex_lexer_recognized": (L + "recognized", "returns recognized_term(idx, len), trace only under verbose", {}),
    "regex_lexer_ctor": (L + "regex_lexer", "specials: '*' 2, '+' 3, '?' 4, '|' 5, '(' 6, ')' 7, '{' 8, '}' 9 (term order of the "
                                            "pattern grammar)", {"nparams": 0}),
    "is_printable": (U + "is_printable", "0x20 <= c <= 0x7e", {}),
    "is_hex_digit": (U + "is_hex_digit", "0-9, a-f, A-F", {}),
    "is_dec_digit": (U + "is_dec_digit", "0-9", {}),
    "char_to_idx": (U + "char_to_idx", "the byte as an unsigned value 0..255", {}),
    "idx_to_char": (U + "idx_to_char", "the index as a char", {}),
    # ---------------------------------------------------------------- fixed-capacity vector primitives
    "cvector_push_back": (CV + "push_back", "capacity test, then the_data[current_size++] = v", {}),
    "cvector_emplace_back": (CV + "emplace_back", "capacity test, then the_data[current_size++] = std::move(v)", {}),
    "cvector_pop_back": (CV + "pop_back", "current_size--", {}),
    "cvector_back": (CV + "back", "the_data[current_size - 1]", {}),
    "cvector_front": (CV + "front", "the_data[0]", {}),
    "cvector_size": (CV + "size", "current_size", {}),
    "cvector_clear": (CV + "clear", "current_size = 0", {}),
    "cvector_erase": (CV + "erase", "removes [first, last) clipped to [begin, end): moves the tail down and shrinks by the "
                                    "number removed; nothing when first >= last", {}),
    "cvector_check_capacity": (CV + "check_capacity", "throws when current_size >= N", {}),
    # ---------------------------------------------------------------- stable sort and rule slices
    "stdex_sort": ("ctpg::stdex::sort", "bubble sort that swaps adjacent elements only when p(c[i+1], c[i]) holds (strictly "
                                        "less): stable", {}),
    "make_nterm_rule_slices": ("ctpg::parser::make_nterm_rule_slices", "nterm_rule_slices[nt] = (first position, count) of "
                                                                       "the run of rule_infos with l_idx == nt", {}),
}

# ---------------------------------------------------------------- the term / nterm interface read by the parser
_TERM_API = {
    "ctpg::term": {"get_precedence": "the precedence given to the constructor", "get_associativity": "the associativity "
                   "given to the constructor"},
    "ctpg::char_term": {"get_id": "the character as a string", "get_name": "same as the id", "get_data": "the character"},
    "ctpg::string_term": {"get_id": "the string", "get_name": "same as the id", "get_data": "the string"},
    "ctpg::regex_term": {"get_id": "r_<pattern>", "get_name": "the custom name when given, else the id",
                         "get_data": "the pattern"},
    "ctpg::custom_term": {"get_id": "the custom name", "get_name": "the custom name", "get_ftor": "the user's functor"},
    "ctpg::typed_term": {"get_id": "the wrapped term's id", "get_name": "the wrapped term's name",
                         "get_data": "the wrapped term's data", "get_precedence": "the wrapped term's precedence",
                         "get_associativity": "the wrapped term's associativity", "get_ftor": "the user's functor"},
    "ctpg::nterm": {"get_name": "the name given to the constructor"},
}
TERMAPI = []
for _cls, _ms in _TERM_API.items():
    for _m, _what in _ms.items():
        _n = "api_%s_%s" % (_cls.split("::")[-1], _m)
        REGISTRY[_n] = (_cls + "::" + _m, "%s::%s() is %s" % (_cls.split("::")[-1], _m, _what), {})
        TERMAPI.append(_n)

REGISTRY["char_names_ctor"] = (U + "char_names::char_names", "name of byte i: the character itself for 33..126, else "
                               "\\x followed by the two hex digits d[i / 16], d[i % 16] (distinct bytes get distinct "
                               "names: they are the ids of char terms)", {"nparams": 0})
REGISTRY["char_names_name"] = (U + "char_names::name", "the table entry of the byte taken as unsigned", {})
TERMAPI += ["char_names_ctor", "char_names_name"]

_DIAG = {
    "write_rule_diag_str": "left side, ' <- ', the right side's symbols separated by blanks (nothing for an empty rule)",
    "write_situation_diag_str": "the rule with the dot at `after` and the lookahead",
    "find_reduction_rule": "the rule number (as written) of the reduce item of the state for that lookahead",
    "get_symbol_name": "term_names[idx] for a term, nterm_names[idx] for a nonterminal",
}
DIAG = []
for _m, _what in _DIAG.items():
    REGISTRY["diag_" + _m] = ("ctpg::parser::" + _m, _what, {"unroll": 1 if _m == "write_state_diag_str" else 2})
    DIAG.append("diag_" + _m)

# ---------------------------------------------------------------- automaton construction and matching
# No documented contract beyond the pattern syntax: the reference is the construction that the PRIO / CAP-D / MATCH rules
# were derived from and that the repaired tree uses. A behaviour-changing edit here (including a repair of the
# known merge defects of C03) is reported and needs a review and a re-freeze; refactorings are not.
_DFAB = {
    "merge": "folds state `from` into state `to`: union of the transitions (recursively merging where both have one), "
             "accepting flag and priority slots appended, with the merged_from memo against cycles",
    "mark_end_state": "an accepting state records the term in its own slot list",
    "mark_end_states": "marks every accepting state of the slice with the term",
    "primary_char": "two states: start --c--> accepting",
    "primary_subset": "two states: start --(every byte of the set)--> accepting",
    "star": "accepting states loop back to the start's transitions; the start accepts",
    "plus": "accepting states loop back to the start's transitions",
    "opt": "the start accepts",
    "cat": "accepting states of s1 take over s2's start (merged), s1's accepting flags cleared",
    "alt": "s2's start merged into s1's start",
}
DFAB = []
for _m, _what in _DFAB.items():
    REGISTRY["dfab_" + _m] = (R + "dfa_builder::" + _m, _what, {})
    DFAB.append("dfab_" + _m)

# ---------------------------------------------------------------- small primitives with an obvious contract
def _reg(group, name, q, what, **sel):
    REGISTRY[name] = (q, what, sel)
    group.append(name)


ITB = "ctpg::stdex::cvector::iterator_base::"
CVEC2 = []
_reg(CVEC2, "cvit_eq", ITB + "operator==", "same position", )
_reg(CVEC2, "cvit_ne", ITB + "operator!=", "different position")
_reg(CVEC2, "cvit_lt", ITB + "operator<", "before")
_reg(CVEC2, "cvit_gt", ITB + "operator>", "after")
_reg(CVEC2, "cvit_minus_n", ITB + "operator-", "the iterator `amount` positions back", ptypes={"0": "unsigned long"})
_reg(CVEC2, "cvit_minus_it", ITB + "operator-", "the distance between two iterators", ptypes={"0": "iterator"})
_reg(CVEC2, "cvit_preinc", ITB + "operator++", "advances by one, returns itself", nparams=0)
_reg(CVEC2, "cvit_deref", "ctpg::stdex::cvector::iterator::operator*", "the element at the position")
_reg(CVEC2, "cvector_subscript", CV + "operator[]", "the_data[idx]")
_reg(CVEC2, "cvector_begin", CV + "begin", "iterator to the_data")
_reg(CVEC2, "cvector_end", CV + "end", "iterator to the_data + current_size")
_reg(CVEC2, "cvector_data", CV + "data", "the_data")
_reg(CVEC2, "cbitset_eq", "ctpg::stdex::cbitset::operator==", "all words equal")

CSI = "ctpg::buffers::cstring_buffer::iterator::"
BUFIT = []
_reg(BUFIT, "csit_deref", CSI + "operator*", "the byte at the position")
_reg(BUFIT, "csit_preinc", CSI + "operator++", "advances by one, returns itself", nparams=0)
_reg(BUFIT, "csit_eq", CSI + "operator==", "same position")
_reg(BUFIT, "csit_ne", CSI + "operator!=", "different position")
_reg(BUFIT, "csit_pluseq", CSI + "operator+=", "advances by len")
_reg(BUFIT, "csit_plus", CSI + "operator+", "the iterator len positions further")
_reg(BUFIT, "csbuf_ctor", "ctpg::buffers::cstring_buffer::cstring_buffer", "copies the N1 bytes of the literal")
_reg(BUFIT, "csbuf_begin", "ctpg::buffers::cstring_buffer::begin", "iterator to data")
_reg(BUFIT, "csbuf_end", "ctpg::buffers::cstring_buffer::end", "iterator to data + N - 1 (the terminator)")
_reg(BUFIT, "csbuf_get_view", "ctpg::buffers::cstring_buffer::get_view", "string_view(start, end - start)")
_reg(BUFIT, "sbuf_get_view", "ctpg::buffers::string_buffer::get_view", "string_view(&*start, end - start)")
_reg(BUFIT, "svbuf_get_view", "ctpg::buffers::string_view_buffer::get_view", "str.substr(start - begin, end - start)")

TV = "ctpg::term_value::"
TVAL = []
_reg(TVAL, "tv_get_value", TV + "get_value", "the stored value")
_reg(TVAL, "tv_get_sp", TV + "get_sp", "the stored source point")
_reg(TVAL, "tv_get_line", TV + "get_line", "sp.line")
_reg(TVAL, "tv_get_column", TV + "get_column", "sp.column")
_reg(TVAL, "sp_print", "ctpg::operator<<", "[line:column]", ptypes={"1": "source_point"})

UTIL = []
_reg(UTIL, "u_str_len", U + "str_len", "number of bytes before the terminator")
_reg(UTIL, "u_pass_sv", U + "pass_sv", "the lexeme itself")
_reg(UTIL, "u_first_sv_char", U + "first_sv_char", "the first byte of the lexeme")
_reg(UTIL, "u_find_char", U + "find_char", "position of c in the terminated string, not counting the terminator; else 'not found'")
_reg(UTIL, "opt_set_skip_whitespace", "ctpg::parse_options::set_skip_whitespace", "stores the flag, returns the options")
_reg(UTIL, "opt_set_skip_newline", "ctpg::parse_options::set_skip_newline", "stores the flag, returns the options")
_reg(UTIL, "opt_set_verbose", "ctpg::parse_options::set_verbose", "stores the flag, returns the options")

PS_ = "ctpg::detail::parse_state::"
GAPI = []
for _m, _w in (("enter_recovery_mode", "recovery_mode = true"), ("leave_recovery_mode", "recovery_mode = false"),
               ("enter_consume_mode", "consume_mode = true"), ("leave_consume_mode", "consume_mode = false"),
               ("in_recovery_mode", "recovery_mode"), ("in_consume_mode", "consume_mode")):
    _reg(GAPI, "ps_" + _m, PS_ + _m, _w)
_reg(GAPI, "rule_get_f", "ctpg::detail::rule::get_f", "the functor")
_reg(GAPI, "rule_get_l", "ctpg::detail::rule::get_l", "the left side")
_reg(GAPI, "rule_get_r", "ctpg::detail::rule::get_r", "the right side tuple")
_reg(GAPI, "rule_get_precedence", "ctpg::detail::rule::get_precedence", "the explicit precedence")
_reg(GAPI, "dfab_transition_char", R + "dfa_builder::transition", "new state appended, from --c--> it", ptypes={"1": "char"}, nparams=2)
_reg(GAPI, "dfasz_prim", R + "dfa_size_analyzer::prim", "two states per primary")

# ---------------------------------------------------------------- how grammar objects are built (constructors, operators)
GAPI2 = []
_reg(GAPI2, "ctor_term", "ctpg::term::term", "stores precedence and associativity", nparams=2)
_reg(GAPI2, "ctor_char_term", "ctpg::char_term::char_term", "base term(precedence, a), the character, its printable name as id", nparams=3)
_reg(GAPI2, "ctor_string_term", "ctpg::string_term::string_term", "base term(precedence, a), copies the string", nparams=3)
_reg(GAPI2, "ctor_regex_term", "ctpg::regex_term::regex_term", "base term(precedence, a), custom name, id = r_ + pattern", nparams=3)
_reg(GAPI2, "ctor_custom_term", "ctpg::custom_term::custom_term", "base term(precedence, a), name and functor", nparams=4)
_reg(GAPI2, "ctor_typed_term", "ctpg::typed_term::typed_term", "wraps the term, stores the functor", nparams=2)
_reg(GAPI2, "ctor_nterm", "ctpg::nterm::nterm", "stores the name; an empty name is refused", nparams=1)
_reg(GAPI2, "nterm_call", "ctpg::nterm::operator()", "a rule without functor: this nterm on the left, the arguments as right side")
_reg(GAPI2, "make_term_char", "ctpg::detail::make_term", "char -> char_term(c)", ptypes={"0": "=char"}, nparams=1)
_reg(GAPI2, "make_term_str", "ctpg::detail::make_term", "string literal -> string_term(str)", ptypes={"0": "const char (&)"})
_reg(GAPI2, "make_rule_item_nterm", "ctpg::detail::make_rule_item", "an nterm stays", ptypes={"0": "nterm"})
_reg(GAPI2, "rule_op_ge", "ctpg::detail::rule::operator>=", "same rule with the functor, not contextual, precedence kept")
_reg(GAPI2, "rule_op_ctx", "ctpg::detail::rule::operator>>=", "same rule with the functor, contextual, precedence kept")
_reg(GAPI2, "rule_op_prec", "ctpg::detail::rule::operator[]", "same rule with the explicit precedence")
_reg(GAPI2, "ctor_rule4", "ctpg::detail::rule::rule", "functor, left, right, precedence", nparams=4)
_reg(GAPI2, "ctor_rule2", "ctpg::detail::rule::rule", "no functor, left, right, precedence 0", nparams=2)
_reg(GAPI2, "ctor_term_value", "ctpg::term_value::term_value", "moves the value in, stores the source point", nparams=2)
_reg(GAPI2, "ctor_recognized_term", "ctpg::recognized_term::recognized_term", "term index and length", nparams=2)
_reg(GAPI2, "ctor_char_range", R + "char_range::char_range", "start and end", nparams=2)
_reg(GAPI2, "ctor_parse_state", "ctpg::detail::parse_state::parse_state", "binds the stacks, stream and reductors; position at the "
     "beginning, no pending term, normal mode")
_reg(GAPI2, "ctor_value_reductors", "ctpg::detail::value_reductors::value_reductors", "binds the rule tuple, fills one reductor per rule")

# ---------------------------------------------------------------- how the name / id tables of the parser are filled
NAMEFILL = []
_reg(NAMEFILL, "analyze_eof", "ctpg::parser::analyze_eof", "<eof>: name and id from eof::get_name(), precedence 0, no associativity")
_reg(NAMEFILL, "analyze_error_token", "ctpg::parser::analyze_error_recovery_token", "error: name and id from "
     "error_recovery_token::get_name(), precedence 0, no associativity")
_reg(NAMEFILL, "analyze_term", "ctpg::parser::analyze_term", "slot TermIdx: name, id, precedence, associativity from the term's getters")
_reg(NAMEFILL, "analyze_nterm", "ctpg::parser::analyze_nterm", "slot idx: the nterm's name", nparams=2)
_reg(NAMEFILL, "analyze_nterm_root", "ctpg::parser::analyze_nterm", "the fake root's name in its slot", nparams=1)
_reg(NAMEFILL, "ert_get_name", "ctpg::error_recovery_token::get_name", "<error_recovery_token>")
_reg(NAMEFILL, "ert_get_id", "ctpg::error_recovery_token::get_id", "same as the name: cannot collide with a user term (angle brackets)")
_reg(NAMEFILL, "eof_get_name", "ctpg::detail::eof::get_name", "<eof>")
_reg(NAMEFILL, "fake_root_get_name", "ctpg::detail::fake_root::get_name", "##")
_reg(NAMEFILL, "make_symbol_term", "ctpg::parser::make_symbol", "term: index of its id in term_ids", ptypes={"0": "term"})
_reg(NAMEFILL, "make_symbol_nterm", "ctpg::parser::make_symbol", "nterm: index of its name in nterm_names", ptypes={"0": "nterm"})

# ---------------------------------------------------------------- the convenience overloads of parse / context_parse
OVL = []
_reg(OVL, "parse_1", "ctpg::parser::parse", "parse(buffer) = parse(buffer, no_stream)", nparams=1)
_reg(OVL, "parse_2", "ctpg::parser::parse", "parse(buffer, stream) = parse(parse_options{}, buffer, stream)", nparams=2)
_reg(OVL, "parse_3", "ctpg::parser::parse", "parse(options, buffer, stream) = context_parse(no_type{}, options, buffer, stream)", nparams=3)
_reg(OVL, "context_parse_2", "ctpg::parser::context_parse", "context_parse(ctx, buffer) = context_parse(forward(ctx), buffer, no_stream)", nparams=2)
_reg(OVL, "context_parse_3", "ctpg::parser::context_parse", "context_parse(ctx, buffer, stream) = context_parse(forward(ctx), "
     "parse_options{}, buffer, stream)", nparams=3)

GROUPS = {
    "OVL": OVL,
    "NAMEFILL": NAMEFILL,
    "GAPI2": GAPI2,
    "CVEC2": CVEC2, "BUFIT": BUFIT, "TVAL": TVAL, "UTIL": UTIL, "GAPI": GAPI,
    "DFAB": DFAB,
    "DIAG": DIAG,
    "TERMAPI": TERMAPI,
    "REGEXFE": ["regex_char", "hex_digits_to_char", "hex_digit_lambda", "char_subset_add_range",
                "regex_lexer_match", "regex_lexer_match_primary", "regex_lexer_match_range", "regex_lexer_match_range_item",
                "regex_lexer_match_escaped", "regex_lexer_recognized", "regex_lexer_ctor", "is_printable", "is_hex_digit",
                "is_dec_digit", "char_to_idx", "idx_to_char"],
    "CVEC": ["cvector_push_back", "cvector_emplace_back", "cvector_pop_back", "cvector_back", "cvector_front",
             "cvector_size", "cvector_clear", "cvector_erase", "cvector_check_capacity"],
    "SORTSL": ["stdex_sort", "make_nterm_rule_slices"],
}


# ---------------------------------------------------------------- dependence order (ctpgsa/deporder.py)
P_ = "ctpg::parser::"
SA_ = P_ + "state_analyzer::"
B_ = R + "dfa_builder::"
DEP = {
    # lexer construction and matching
    "dfa_match": (R + "dfa_match", None), "merge": (B_ + "merge", None),
    "star": (B_ + "star", None), "plus": (B_ + "plus", None), "cat": (B_ + "cat", None),
    "alt": (B_ + "alt", None), "rep": (B_ + "rep", None), "mark_end_states": (B_ + "mark_end_states", None),
    "expr_match": (R + "expr::match", 3),
    "add_term_data_to_dfa": (R + "add_term_data_to_dfa", None),
    "get_current_term": (P_ + "get_current_term", None), "skip_whitespace": (P_ + "skip_whitespace", None),
    "sp_update": ("ctpg::source_point::update", None),
    # driver
    "context_parse": (P_ + "context_parse", 4), "reduce": (P_ + "reduce", None), "pop_stacks": (P_ + "pop_stacks", None),
    "consume_term": (P_ + "consume_term", None),
    "cvector_erase_dep": (CV + "erase", None),
    # table construction
    "transitions": (SA_ + "transitions", None), "closure": (SA_ + "closure", None),
    "add_situation": (SA_ + "add_situation", None), "analyze_states": (SA_ + "analyze_states", None),
    "analyze_nterm_sets": (SA_ + "analyze_nterm_sets", None), "analyze_rule": (P_ + "analyze_rule", None), "make_nterm_rule_slices_dep": (P_ + "make_nterm_rule_slices", None),
    "solve_conflict": (SA_ + "solve_conflict", None),
}
DEP_GROUPS = {
    "LEX": ["dfa_match", "merge", "star", "plus", "cat", "alt", "rep",
            "mark_end_states", "expr_match", "add_term_data_to_dfa", "get_current_term",
            "skip_whitespace", "sp_update"],
    "DRV": ["context_parse", "reduce", "pop_stacks", "consume_term",
            "get_current_term", "cvector_erase_dep"],
    "TAB": ["transitions", "closure", "add_situation", "analyze_states", "analyze_nterm_sets", "analyze_rule",
            "make_nterm_rule_slices_dep", "solve_conflict"],
}
