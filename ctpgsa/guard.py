"""Unknown-helper guard.

Every rule of this analysis reads named functions of ctpg.hpp and, where it says so, looks through the helpers it
knows. A maintainer who moves part of such a function into a *new* helper (a private member function, a free function,
a local lambda) produces a tree in which the rule sees only the remainder of the function: what it then reports is a
statement about the remainder, not about the behaviour. Such a report is not a verdict.

The guard keeps a frozen inventory of the functions (by qualified name) and of the number of lambdas per function of the
reviewed tree (`golden/inventory.json`). After the rules of a check have run, a violation whose site lies in
  - a function that is not in the inventory,
  - a function that now contains more lambdas than in the inventory (or such a lambda itself),
  - a function that calls one of those directly, or through one intermediate function,
is withdrawn and recorded as "cannot analyse" (deferred incomplete): the check answers exit 2 unless another rule, at a
site the new helper cannot influence, has a violation of its own. Rules that do look through unknown helpers (reference
summaries, dependence orders) are subject to the same guard: their look-through is a best effort, not a proof.

`python3 -m ctpgsa.guard --freeze` rewrites the inventory from /repo's current tree (reviewed clean tree only).
"""
import json
import os
import re
import sys

from .facts import walk

INV = os.path.join(os.path.dirname(os.path.abspath(__file__)), "golden", "inventory.json")

CALLS = ("CallExpr", "CXXMemberCallExpr", "CXXOperatorCallExpr", "CXXConstructExpr", "CXXTemporaryObjectExpr")


def _lambda_owner(f):
    e = f.facts.by_id.get(f.o.get("enclosing_fn"))
    return e.o["q"] if e is not None else None


def _scan(fx):
    fns, lambdas = set(), {}
    for f in fx.all_fns():
        q = f.o["q"]
        if not q.startswith("ctpg::") or f.body is None:
            continue
        if f.o.get("lambda"):
            own = _lambda_owner(f)
            if own:
                lambdas.setdefault(own, set()).add(re.sub(r"^.*\(lambda@", "", q))
            continue
        fns.add(q)
    return fns, {k: len(v) for k, v in lambdas.items()}


def freeze(fx):
    fns, lambdas = _scan(fx)
    with open(INV, "w") as f:
        json.dump({"functions": sorted(fns), "lambdas": dict(sorted(lambdas.items()))}, f, indent=0)
    return len(fns), len(lambdas)


def tainted(fx):
    """{qualified name: reason} of functions whose analysis is not reliable because of helpers unknown to the inventory."""
    inv = json.load(open(INV))
    known, klam = set(inv["functions"]), inv["lambdas"]
    fns, lambdas = _scan(fx)
    new = {q: "new function %s" % q for q in fns - known}
    for own, n in lambdas.items():
        if n > klam.get(own, 0):
            new[own] = "new local lambda in %s" % own
    if not new:
        return {}
    out = dict(new)
    frontier = set(new)
    for _depth in (1, 2):
        nxt = {}
        for f in fx.all_fns():
            q = f.o["q"]
            if f.body is None or not q.startswith("ctpg::"):
                continue
            if f.o.get("lambda"):
                q = _lambda_owner(f) or q
            if q in out:
                continue
            for n in walk(f.body):
                if n.get("k") in CALLS:
                    c = n.get("callee") or n.get("ctor") or {}
                    cq = c.get("q")
                    if cq in frontier:
                        nxt[q] = "%s calls %s" % (q.split("::")[-1], out[cq] if out[cq].startswith("new") else cq)
                        break
        out.update(nxt)
        frontier = set(nxt)
        if not frontier:
            break
    return out


def apply(chk, fx):
    """Withdraw the violations whose site lies in a function touched by an unknown helper."""
    if not chk.violations and not chk.known_hits:
        return
    try:
        t = tainted(fx)
    except FileNotFoundError:
        chk.deferred.append("function inventory missing (golden/inventory.json)")
        return
    if not t:
        return
    keep = []
    for v in chk.violations:
        site = v.get("site", "")
        q = site.split(" ", 1)[1] if " " in site else ""
        q0 = re.sub(r"::\(lambda@.*$", "", q)
        why = t.get(q) or t.get(q0)
        if why is None:
            keep.append(v)
            continue
        v["verdict"] = "not-analysed"
        chk.deferred.append("%s at %s: %s, which rule %s does not know; what the rule says about the rest of the "
                            "function (%s) is not a verdict" % (v["rule"], site, why, v["rule"], v["reason"][:120]))
    chk.violations[:] = keep


if __name__ == "__main__":
    if "--freeze" in sys.argv:
        from . import facts
        fx = facts.Facts(facts.witness_tus() + facts.repo_tus())
        print("inventory: %d functions, %d functions with lambdas" % freeze(fx))
