"""Path signatures: under which conditions does a function perform an event?

For every event of interest (an exit: break / continue / return <canonical value>; a write: a canonical call or
assignment) the set of structured paths that reach it gives a condition in disjunctive normal form over *atomic*
conditions in canonical form (ctpgsa/canon.py): `&&`, `||`, `!`, nested ifs, early exits and single-definition bool
temporaries are all dissolved into signed atoms; comparisons are normalised (`!(a >= b)` is `a < b`, symmetric
operators have sorted operands). Events with the same canonical text are grouped and their conditions or-ed, so
splitting or merging exits does not matter. Two conditions are compared by truth table over their atoms (the atoms
are treated as independent booleans; at most 12 per comparison), i.e. exactly, not syntactically.

This is what makes the role templates insensitive to the restructurings maintainers do (de Morgan, merged or split
tests, nesting vs early exit, named temporaries, renames), while an operand that changes still changes an atom or
an event text.
"""
import itertools

from . import astq as A
from . import absint as AI
from . import flow
from .facts import strip, walk, AnalysisIncomplete

NEG = {"==": "!=", "!=": "==", "<": ">=", ">=": "<", ">": "<=", "<=": ">"}
SWAP = {"==": "==", "!=": "!=", "<": ">", ">": "<", "<=": ">=", ">=": "<="}


def signed_atoms(cn, cond, outcome, depth=0):
    """Alternatives (list of lists of (atom-text, bool)) under which `cond` evaluates to `outcome`; bool temporaries
    with a single definition are expanded."""
    alts = []
    for alt in flow.cond_atoms(cond, outcome):
        partial = [[]]
        for _, c, o in alt:
            subs = _expand(cn, c, o, depth)
            partial = [p + s for p in partial for s in subs]
        alts += partial
    return alts


def _expand(cn, c, o, depth):
    s = strip(c, casts=True)
    if s is not None and s.get("k") == "DeclRefExpr" and depth < 4:
        vid = s["d"]["id"]
        if vid in cn.defs and cn.fn.facts.T(s.get("t")) in ("bool", "const bool"):
            return signed_atoms(cn, cn.defs[vid], o, depth + 1)
    return [[_norm(cn, c, o)]]


def _norm(cn, c, o):
    """(text, polarity) with comparisons normalised to a canonical operator / operand order."""
    s = strip(c, casts=True)
    ops = None
    # `if (p)` for a pointer is `p != nullptr`
    x = c
    while x is not None and x.get("k") in ("ParenExpr", "ImplicitCastExpr", "ExprWithCleanups", "ConstantExpr"):
        if x.get("k") == "ImplicitCastExpr" and x.get("ck") == "PointerToBoolean":
            zero = "nullptr"
            inner = strip((x.get("c") or [None])[0], casts=True)
            if inner is not None and not (inner.get("k") == "BinaryOperator" and inner.get("op") in NEG):
                ta, tb = sorted([cn.c(inner), zero])
                return ("(%s == %s)" % (ta, tb), not o)
            break
        cc = x.get("c") or []
        x = cc[0] if cc else None
    if s is not None and s.get("k") == "BinaryOperator" and s.get("op") in NEG:
        ops = (s["op"], s["c"][0], s["c"][1])
    elif s is not None and s.get("k") == "CXXOperatorCallExpr" and s.get("op") in NEG and len(s["c"]) == 3:
        ops = (s["op"], s["c"][1], s["c"][2])
    if ops is None:
        return (cn.c(c), o)
    op, a, b = ops
    ta, tb = cn.c(a), cn.c(b)
    if not o:
        op = NEG[op]
    # canonical forms: only "==", "<", "<=" with a polarity
    pol = True
    if op == "!=":
        op, pol = "==", False
    elif op == ">":
        op, ta, tb = "<", tb, ta
    elif op == ">=":
        op, ta, tb = "<=", tb, ta
    if op == "==" and tb < ta:
        ta, tb = tb, ta
    if op == "<=":
        # a <= b  ==  !(b < a)
        op, ta, tb, pol = "<", tb, ta, not pol
    return ("(%s %s %s)" % (ta, op, tb), pol)


class Event:
    __slots__ = ("kind", "text", "node")

    def __init__(self, kind, text, node):
        self.kind, self.text, self.node = kind, text, node


def default_events(cn, node):
    """Events of a statement-level node: exits and table writes (canonical)."""
    out = []
    for n in walk(node):
        k = n.get("k")
        if k == "CXXMemberCallExpr" and (n.get("callee") or {}).get("n") in ("set", "add", "reset", "push_back", "emplace_back"):
            out.append(Event("call", cn.c(n), n))
        elif k == "BinaryOperator" and n.get("op") == "=":
            out.append(Event("assign", cn.c(n), n))
        elif k == "CXXOperatorCallExpr" and n.get("op") == "=":
            out.append(Event("assign", cn.c(n), n))
        elif (k == "UnaryOperator" and n.get("op") in ("++", "--")) or \
                (k == "CXXOperatorCallExpr" and n.get("op") in ("++", "--")):
            out.append(Event("inc", cn.c(n).replace("++", "").replace("--", "") + ("++" if n.get("op") == "++" else "--"), n))
    return out


def _subst(text, args):
    import re as _re
    return _re.sub(r"\$(\d+)", lambda m: args[int(m.group(1))] if int(m.group(1)) < len(args) else m.group(0), text)


def _inlined(cn, stmt, events_of, unroll, drop, known, depth):
    """Events of member functions called from `stmt` that the templates do not know by name (helpers a maintainer
    extracted): their events, with parameters replaced by the caller's canonical arguments, and their conditions."""
    out = []
    if known is None or depth >= 2:
        return out
    from .canon import Canon
    for n in walk(stmt):
        if n.get("k") not in ("CXXMemberCallExpr", "CallExpr"):
            continue
        c = n.get("callee")
        if c is None or c["n"] in known or c.get("f") != "ctpg" or c.get("parent") != cn.fn.o.get("parent"):
            continue
        g = cn.fn.facts.by_id.get(c["id"])
        if g is None or g.body is None or g is cn.fn:
            continue
        args = [cn.c(a) for a in A.call_args(n)]
        sub, _ = event_conditions(Canon(g, uniform=cn.uniform), g.body, events_of=events_of, unroll=unroll, drop=drop, known=known,
                                  _depth=depth + 1)
        for (k, t), d in sub.items():
            if k in ("return", "break", "continue"):
                continue
            out.append((k, _subst(t, args), {frozenset((_subst(a, args), p) for a, p in conj) for conj in d}, n))
    return out


def _helper_call(cn, node, known):
    """The same-class member function (with a body) that `node` calls, when the reference summary does not know it."""
    if node is None or node.get("k") != "CXXMemberCallExpr":
        return None
    c = node.get("callee") or {}
    if c.get("n") in known or c.get("f") != "ctpg" or c.get("parent") != cn.fn.o.get("parent"):
        return None
    obj = A.call_object(node)
    if obj is not None and cn.c(obj) not in ("", "this"):
        return None
    g = cn.fn.facts.by_id.get(c.get("id"))
    if g is None or g.body is None or g is cn.fn:
        return None
    return g


def _versionable(cn, vid):
    """Is the variable numbered along the path? Reassigned locals / parameters always; with a canonical form that does
    not inline temporaries (noinline) every local that is not a reference alias (its first and only value is its
    version 1, defined where it is declared, with the values the other variables have *there*)."""
    if vid in cn.multi:
        return True
    return cn.noinline and vid not in cn.defs and vid not in cn.params and vid in cn.local_ids


def _versioner(cn):
    """Per-path SSA-like numbering of locals: `?c` becomes `?c#k` where k counts the assignments to c seen so far on the
    path, so that tests of different values of one variable are different atoms."""
    import re as _re
    names = set()
    cn.local_ids = {n["id"] for n in walk(cn.fn.body) if n.get("k") == "Var"}
    for n in walk(cn.fn.body):
        if n.get("k") == "Var" and _versionable(cn, n["id"]):
            names.add(cn.lname(n["id"], n["n"]))
    for p in cn.fn.o["params"]:
        if p["id"] in cn.multi:
            names.add("$%d" % cn.params[p["id"]])
    rx = _re.compile(r"(\?\w+|\$\d+)(?![\w#])")

    def vtext(text, ver):
        if not ver:
            return text
        return rx.sub(lambda m: m.group(1) + "#%d" % ver[m.group(1)] if m.group(1) in ver else m.group(1), text)
    return names, vtext


def _resort_eq(text):
    """`(A == B)` with its operands in text order (substituting definitions can change which one sorts first)."""
    if not (text.startswith("(") and text.endswith(")")):
        return text
    depth = 0
    for i, ch in enumerate(text):
        if ch in "([{":
            depth += 1
        elif ch in ")]}":
            depth -= 1
        elif depth == 1 and text.startswith(" == ", i):
            a, b = text[1:i], text[i + 4:-1]
            if b < a:
                return "(%s == %s)" % (b, a)
            return text
    return text


_LIT_CMP = None


def _fold(text):
    """Truth value of an atom that compares two integer literals, or one pure operand with itself; else None."""
    global _LIT_CMP
    import re as _re
    if _LIT_CMP is None:
        _LIT_CMP = _re.compile(r"\((-?\d+) (==|<) (-?\d+)\)")
    m = _LIT_CMP.fullmatch(text)
    if m:
        a, b = int(m.group(1)), int(m.group(3))
        return a == b if m.group(2) == "==" else a < b
    if text.startswith("(") and text.endswith(")") and "(" not in text[1:-1]:
        for op in (" == ", " < "):
            if op in text:
                a, b = text[1:-1].split(op, 1)
                if a == b:
                    return op == " == "
    return None


class _PathState:
    """Per-path value numbering for reassigned locals (versioned mode): `?v1` becomes `?v1#k` after its k-th
    assignment, and `?v1#k` is replaced by the canonical text of what was assigned, so that `ok = f(); if (ok)`,
    `if (f())` and `bool ok2 = f(); if (ok2)` give the same atom; bool values are kept as signed alternatives."""
    import re as _re
    RX = _re.compile(r"(\?\w+|\$\d+)#\d+")

    def __init__(self, cn, versioned):
        self.cn = cn
        self.on = versioned
        self.vnames, self.vtext = _versioner(cn) if versioned else (set(), None)
        self.ver = {}
        self.defs = {}
        self.booldefs = {}

    def r(self, text, ver=None):
        if not self.on:
            return text
        ver = self.ver if ver is None else ver
        t = self.vtext(text, ver) if ver else text
        if self.defs:
            t = self.RX.sub(lambda m: self.defs.get(m.group(0), m.group(0)), t)
        return t

    def alts(self, subs, ver=None):
        if not self.on:
            return subs
        out = []
        for s_ in subs:
            alt, feasible = [], True
            for t, p in s_:
                t2 = _resort_eq(self.r(t, ver))
                v = _fold(t2)
                if v is None:
                    alt.append((t2, p))
                elif v != p:
                    feasible = False          # a comparison of two constants that cannot have this outcome
                    break
            if feasible:
                out.append(alt)
        return out

    def _name_of(self, eff):
        """(canonical name, variable id) of the whole variable an effect writes, else (None, None)."""
        cn = self.cn
        if eff[0] == "decl":
            return (cn.lname(eff[1]["id"], eff[1]["n"]), eff[1]["id"]) if _versionable(cn, eff[1]["id"]) else (None, None)
        pth = eff[-1]
        if len(pth) == 1 and pth[0][0] == "var":
            if pth[0][1] in cn.params and pth[0][1] in cn.multi:
                return "$%d" % cn.params[pth[0][1]], pth[0][1]
            if _versionable(cn, pth[0][1]):
                return cn.lname(pth[0][1], pth[0][2]), pth[0][1]
        return None, None

    def cur(self, name):
        k = self.ver.get(name, 0)
        return "%s#%d" % (name, k) if k else name

    def bool_alts(self, node, outcome, ver=None):
        """Signed alternatives under which the bool expression `node` has the value `outcome` (rendered)."""
        s = strip(node, casts=True)
        ver0 = self.ver if ver is None else ver
        if self.on and s is not None and s.get("k") == "DeclRefExpr":
            d = s["d"]
            nm = None
            if d["id"] in self.cn.multi or _versionable(self.cn, d["id"]):
                nm = ("$%d" % self.cn.params[d["id"]]) if d["id"] in self.cn.params else self.cn.lname(d["id"], d["n"])
            if nm is not None:
                k = ver0.get(nm, 0)
                cur = "%s#%d" % (nm, k) if k else nm
                if cur in self.booldefs:
                    return self.booldefs[cur][0 if outcome else 1]
        if s is not None and s.get("k") == "CXXBoolLiteralExpr":
            return [[]] if bool(s["v"]) == outcome else []
        return self.alts(signed_atoms(self.cn, node, outcome), ver0)

    def apply(self, stmt):
        """Bump versions / record definitions for the assignments of one statement (in evaluation order)."""
        if not self.on:
            return
        cn = self.cn
        ver0 = dict(self.ver)        # right-hand sides and arguments are evaluated with the values before the statement
        for eff in AI.effects(stmt):
            if eff[0] == "call":
                # a variable handed over by mutable reference has an unknown new value afterwards
                c = eff[2].get("callee") or eff[2].get("ctor") or {}
                ptypes = A.split_params(cn.fn.facts.T(c.get("t")))
                cargs = A.call_args(eff[2]) if eff[2].get("k") in ("CallExpr", "CXXMemberCallExpr") else []
                for a, pt in zip(cargs, ptypes):
                    if A.mutable_ref(pt):
                        vid = A.declref_id(strip(a, casts=True))
                        if vid is not None and (vid in cn.multi or _versionable(cn, vid)):
                            nm = ("$%d" % cn.params[vid]) if vid in cn.params else cn.lname(vid, strip(a, casts=True)["d"]["n"])
                            if nm in self.vnames:
                                self.ver[nm] = self.ver.get(nm, 0) + 1
                continue
            if eff[0] not in ("assign", "set", "inc", "op", "decl"):
                continue
            nm, vid = self._name_of(eff)
            if not nm or nm not in self.vnames:
                continue
            if vid in cn.escaped:
                self.ver[nm] = self.ver.get(nm, 0) + 1
                continue
            rhs, rhs_node = None, None
            if eff[0] == "decl":
                rhs_node = eff[1].get("init")
            elif eff[0] == "assign":
                rhs_node = eff[2]
            elif eff[0] == "set":
                rhs = str(eff[2]).lower() if isinstance(eff[2], bool) else str(eff[2])
            elif eff[0] == "inc":
                rhs = "(%s %s 1)" % (self.r(nm), "+" if eff[2] > 0 else "-")
            elif eff[0] == "op":
                rhs = "(%s %s %s)" % (self.r(nm), eff[1][:-1], self.r(cn.c(eff[3]), ver0))
            booldef = None
            if rhs_node is not None:
                rhs = self.r(cn.c(rhs_node), ver0)
                if cn.fn.facts.TC(rhs_node.get("t")).replace("const ", "") == "bool":
                    booldef = (self.bool_alts(rhs_node, True, ver0), self.bool_alts(rhs_node, False, ver0))
            elif eff[0] == "set" and isinstance(eff[2], bool):
                booldef = ([[]], []) if eff[2] else ([], [[]])
            self.ver[nm] = self.ver.get(nm, 0) + 1
            if rhs is not None:
                self.defs[self.cur(nm)] = rhs
            if booldef is not None:
                self.booldefs[self.cur(nm)] = booldef


def event_conditions(cn, region, events_of=default_events, unroll=0, drop=lambda atom: False, pre=None, known=None,
                     _depth=0, versioned=False, cond_events=False):
    """{(kind, text): DNF} for the events reached on the structured paths through `region`.
    DNF = set of frozensets of (atom, polarity). `drop(atom_text)` removes irrelevant atoms (e.g. verbose tests)."""
    table = {}
    nodes = {}

    def record(key, node, alts, extra=None):
        nodes.setdefault(key, node)
        for a in alts:
            for x in (extra if extra is not None else [[]]):
                conj = frozenset((t, p) for t, p in a + x if not drop(t))
                if _consistent(conj):
                    table.setdefault(key, set()).add(conj)

    for ev, term_ in flow.paths(region, unroll=unroll):
        alts = [[]] if pre is None else [list(p) for p in pre]
        st = _PathState(cn, versioned)
        for e in ev:
            if e[0] == "cond":
                if cond_events:
                    # events inside a tested expression (a call with effects used directly as a condition) happen
                    # under the conditions collected so far
                    for x in events_of(cn, e[1]):
                        record((x.kind, st.r(x.text)), x.node, alts)
                if versioned:
                    subs = st.bool_alts(e[1], e[2])
                else:
                    subs = _expand(cn, e[1], e[2], 0)
                alts = [a + s for a in alts for s in subs]
                if len(alts) > 256:
                    raise AnalysisIncomplete("condition explosion in %s" % cn.fn.o["q"])
                st.apply(e[1])          # a call in the tested expression may change what it was handed by reference
                continue
            if e[0] == "stmt":
                evs = events_of(cn, e[1])
            elif e[0] == "return":
                v = e[1].get("value")
                sv = strip(v, casts=True) if v is not None else None
                is_bool = sv is not None and cn.fn.facts.TC(sv.get("t")).replace("const ", "") == "bool"
                if cond_events and sv is not None and sv.get("k") == "ConditionalOperator":
                    # `return c ? a : b` is `if (c) return a; return b;`
                    for extra, arm in _ternary_arms(cn, sv):
                        record(("return", st.r(cn.c(arm))), e[1], alts, st.alts(extra))
                    evs = events_of(cn, v)
                elif known is not None and _helper_call(cn, sv, known) is not None and _depth < 2:
                    # `return helper(args)` for a same-class helper the reference does not know: the helper's own
                    # returns (and events), with its parameters replaced by the arguments
                    g = _helper_call(cn, sv, known)
                    from .canon import Canon as _Canon
                    hargs = [st.r(cn.c(a)) for a in A.call_args(sv)]
                    sub, _ = event_conditions(_Canon(g, uniform=cn.uniform, noinline=cn.noinline), g.body,
                                              events_of=events_of, unroll=unroll, drop=drop, known=known,
                                              _depth=_depth + 1, versioned=versioned, cond_events=cond_events)
                    for (k2, t2), d2 in sub.items():
                        if k2 in ("break", "continue"):
                            continue
                        extra = [[(_subst(a_, hargs), p_) for a_, p_ in conj2] for conj2 in d2]
                        record((k2, _subst(t2, hargs)), e[1], alts, extra)
                    evs = []
                elif cond_events and is_bool:
                    # `return b` for a bool expression is `if (b) return true; return false;`
                    for val in (True, False):
                        extra = st.bool_alts(v, val)
                        if extra:
                            record(("return", "true" if val else "false"), e[1], alts, extra)
                    evs = events_of(cn, v)
                else:
                    evs = (events_of(cn, v) if v is not None else []) + \
                        [Event("return", cn.c(v) if v is not None else "", e[1])]
            elif e[0] in ("break", "continue"):
                evs = [Event(e[0], "", e[1])]
            elif e[0] == "throw":
                evs = [Event("throw", "", e[1])]
            else:
                evs = []
            # events are printed with the versions before the statement's own assignments take effect
            evs = [Event(x.kind, st.r(x.text), x.node) for x in evs]
            if e[0] == "stmt":
                st.apply(e[1])
            for x in evs:
                record((x.kind, x.text), x.node, alts)
            if e[0] == "stmt" and known is not None:
                for k2, t2, d2, node2 in _inlined(cn, e[1], events_of, unroll, drop, known, _depth):
                    nodes.setdefault((k2, t2), node2)
                    for a in alts:
                        base = frozenset((t, p) for t, p in a if not drop(t))
                        for conj2 in d2:
                            conj = base | frozenset((t, p) for t, p in conj2 if not drop(t))
                            if _consistent(conj):
                                table.setdefault((k2, t2), set()).add(conj)
    return table, nodes


def _ternary_arms(cn, s):
    """[(alternatives of signed atoms, arm node)] for a (nested) conditional expression."""
    c, a, b = s["c"]
    out = []
    for outcome, arm in ((True, a), (False, b)):
        alts = signed_atoms(cn, c, outcome)
        sa = strip(arm, casts=True)
        if sa is not None and sa.get("k") == "ConditionalOperator":
            for sub, leaf in _ternary_arms(cn, sa):
                out.append(([x + y for x in alts for y in sub], leaf))
        else:
            out.append((alts, arm))
    return out


def _consistent(conj):
    seen = {}
    for t, p in conj:
        if seen.setdefault(t, p) != p:
            return False
    return True


def atoms_of(*dnfs):
    s = set()
    for d in dnfs:
        for conj in d:
            for t, p in conj:
                s.add(t)
    return sorted(s)


def _eval(dnf, assign):
    return any(all(assign[t] == p for t, p in conj) for conj in dnf)


def _covers(conj, dnf, atoms):
    """Every assignment that satisfies the conjunction satisfies the DNF (only the atoms the conjunction leaves open
    are enumerated: path conditions fix most of them)."""
    fixed = dict(conj)
    relevant = []
    cands = []
    for c in dnf:
        d = dict(c)
        if any(fixed.get(t, p) != p for t, p in d.items()):
            continue                      # contradicts the conjunction
        rest = {t: p for t, p in d.items() if t not in fixed}
        if not rest:
            return True
        cands.append(rest)
    if not cands:
        return False
    free = sorted({t for r in cands for t in r})
    if len(free) > 16:
        raise AnalysisIncomplete("more than 16 open atoms in one condition comparison")
    for vals in itertools.product((False, True), repeat=len(free)):
        asg = dict(zip(free, vals))
        if not any(all(asg[t] == p for t, p in r.items()) for r in cands):
            return False
    return True


def equivalent(d1, d2):
    at = atoms_of(d1, d2)
    return all(_covers(c, d2, at) for c in d1) and all(_covers(c, d1, at) for c in d2)


def implies(dnf, required):
    """Every way of reaching the event satisfies all the required signed atoms [(text, polarity)]."""
    for conj in dnf:
        d = dict(conj)
        for t, p in required:
            if d.get(t) != p:
                return False
    return True


def dnf(*conjs):
    """Helper to write expected conditions: dnf([("a", True), ("b", False)], [...])."""
    return {frozenset(c) for c in conjs}


def show(d):
    return " or ".join("(" + " and ".join(("" if p else "not ") + t for t, p in sorted(c)) + ")" if c else "(always)"
                       for c in sorted(d, key=lambda c: sorted(c)))


def compare(chk, rule, fn, at, actual, nodes, expected, shorten=lambda s: s, exits_extra=True, writes_extra=True):
    """Compare {(kind,text): DNF} with the template {(kind,text): (DNF, why)}.
    - same key, equivalent condition: discharged
    - same key, different condition: violation (the event happens under other conditions)
    - template key missing: if some actual event of the same kind shares the text head or an atom: violation
      (operand differs); else the code has another shape: cannot analyse (AnalysisIncomplete)
    - extra exits / writes: violation when the template is otherwise matched."""
    missing_unknown = []
    n_bad = 0
    for key, (cond, why) in expected.items():
        site = A.site(fn, nodes.get(key, at))
        if key in actual:
            if equivalent(actual[key], cond):
                chk.ok(rule, site, why)
            else:
                n_bad += 1
                chk.violation(rule, site, "%s:%s:%s" % (rule, fn.o["n"], "-".join(why.split(" ")[:4])),
                              "%s: '%s %s' must happen exactly when %s; in the code it happens when %s" % (
                                  why, key[0], shorten(key[1]), shorten(show(cond)), shorten(show(actual[key]))))
            continue
        want_atoms = set(atoms_of(cond))
        head = key[1].split("(")[0]
        near = [k for k in actual if k not in expected and k[0] == key[0] and
                ((key[1] and (k[1].split("(")[0] == head)) or (want_atoms & set(atoms_of(actual[k]))))]
        if not near:
            # the only event of this kind that is missing against the only unexpected event of this kind: the
            # function does something else in its place
            miss_k = [k for k in expected if k not in actual and k[0] == key[0]]
            extra_k = [k for k in actual if k not in expected and k[0] == key[0]]
            if len(miss_k) == 1 and len(extra_k) == 1:
                near = extra_k
        if near:
            n_bad += 1
            chk.violation(rule, site, "%s:%s:%s" % (rule, fn.o["n"], "-".join(why.split(" ")[:4])),
                          "%s: expected '%s %s' when %s; the code has instead %s" % (
                              why, key[0], shorten(key[1]), shorten(show(cond)),
                              ["%s %s when %s" % (k[0], shorten(k[1]), shorten(show(actual[k]))) for k in near][:2]))
        else:
            missing_unknown.append(why)
    if missing_unknown:
        if n_bad or chk.violations:
            return
        raise AnalysisIncomplete("%s: %s has a shape the template does not recognise (no counterpart for: %s)" % (
            rule, fn.o["n"], "; ".join(missing_unknown)[:300]))
    if n_bad:
        return
    for key in actual:
        if key in expected:
            continue
        site = A.site(fn, nodes.get(key, at))
        if key[0] in ("break", "continue", "return", "throw") and exits_extra:
            chk.violation(rule, site, "%s:%s:extra-%s" % (rule, fn.o["n"], key[0]),
                          "an additional exit (%s %s when %s) cuts the computation short" % (
                              key[0], shorten(key[1]), shorten(show(actual[key]))))
        elif key[0] in ("call", "assign") and writes_extra:
            chk.violation(rule, site, "%s:%s:extra-write" % (rule, fn.o["n"]),
                          "unexpected update %s when %s" % (shorten(key[1]), shorten(show(actual[key]))))
