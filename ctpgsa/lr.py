"""Structural rules about the LR(1) table construction (state_analyzer and friends). Shared by C01, C02, C09, C11.

 MEMO-K   stores into a memo table do not depend on parameters outside the memo key
 MEMO-P   a memo function that publishes its flag before its value is complete must not be re-entrant
 INJ      linearised keys are injective (mixed radix with radices >= digit cardinalities), fit the table, sibling
          keys over the same pair agree, make_situation_info inverts make_situation_idx
 SCAN     a loop scanning an index space from 0 runs to the cardinality of that space
 CLOSURE / FIRSTSFX / NULLSFX / FIXPOINT / GOTO / ADDSIT / ROOT
          role templates over canonical forms (ctpgsa/canon.py): the items, sets and exits these functions produce are
          the ones of canonical LR(1). A recognised template with a wrong operand is a violation naming the role; an
          unrecognised shape is "cannot analyse" (exit 2), never a verdict.
"""
import re

from . import astq as A
from . import absint as AI
from . import graph as G
from . import idxrule
from . import idx as IDX
from .canon import Canon
from .facts import walk, strip, AnalysisIncomplete

P = "ctpg::parser::"
SA = P + "state_analyzer::"


def first_inst(fx, q):
    return fx.need(q)[0]


def split_args(s):
    """Split 'f{a, b(c, d), e}' top-level arguments of the outermost braces/parens."""
    i = min([x for x in (s.find("{"), s.find("(")) if x >= 0] or [-1])
    if i < 0:
        return []
    body = s[i + 1:-1]
    out, depth, cur = [], 0, ""
    for ch in body:
        if ch in "({[":
            depth += 1
        if ch in ")}]":
            depth -= 1
        if ch == "," and depth == 0:
            out.append(cur.strip())
            cur = ""
        else:
            cur += ch
    if cur.strip():
        out.append(cur.strip())
    return out


# =============================================================================================== MEMO
def memo_functions(fx):
    """Discover memo functions structurally: `if (FLAG.test(key)) return ...; FLAG.set(key);` or
    `if (flag) return; flag = true;` at the top of a state_analyzer member."""
    found = []
    for q in sorted(set(fx.qnames())):
        if not q.startswith(SA) or q.count("::") != 3:
            continue
        fns = fx.fns(q)
        if not fns:
            continue
        f = fns[0]
        body = (f.body or {}).get("c") or []
        for i, st in enumerate(body[:4]):
            if st.get("k") != "IfStmt" or st.get("else") is not None:
                continue
            cond = strip(st["cond"], casts=True)
            flag = None
            if cond is not None and cond.get("k") == "CXXMemberCallExpr" and (cond.get("callee") or {}).get("n") == "test":
                p = A.access_path(A.call_object(cond))
                if p and p[0][0] == "this" and p[-1][0] == "field" and p[-1][2].endswith("analyzed"):
                    flag = (p[-1][1], "bit", A.call_args(cond)[0])
            elif cond is not None and cond.get("k") == "MemberExpr" and cond["m"]["n"].endswith("analyzed"):
                flag = (cond["m"]["q"], "bool", None)
            if flag is None:
                continue
            # the then-branch must return (possibly after replaying the memo)
            then = st.get("then")
            last = then if then.get("k") != "CompoundStmt" else (then.get("c") or [None])[-1]
            if last is None or last.get("k") != "ReturnStmt":
                continue
            found.append((f, st, flag, i))
            break
    return found


def memo_k(chk, fx):
    chk.rule("MEMO-K", "stores into memo tables independent of non-key parameters", 3)
    memos = memo_functions(fx)
    if len(memos) < 3:
        chk.incomplete("only %d memo functions recognised in state_analyzer (expected closure, "
                       "make_right_side_slice_first, make_right_side_slice_empty, analyze_nterm_sets)" % len(memos))
    for f, guard_if, flag, pos in memos:
        cn = Canon(f)
        params = {p["id"]: p for p in f.o["params"]}
        if flag[1] == "bit":
            keyvars = _key_params(cn, flag[2], params)
        else:
            keyvars = set()
        nonkey = set(params) - keyvars if flag[1] == "bit" else set()
        # taint: locals whose definition mentions a non-key parameter (directly or through a call on one)
        tainted = set(nonkey)
        changed = True
        while changed:
            changed = False
            for n in walk(f.body):
                if n.get("k") == "Var" and n["id"] not in tainted and n.get("init") is not None:
                    if _mentions(n["init"], tainted):
                        tainted.add(n["id"])
                        changed = True
        # memo value: fields named like the flag without the suffix, or indexed by the key in this function
        stem = flag[0].split("::")[-1].replace("_analyzed", "")
        n_stores = 0
        # helpers the templates do not know by name (extracted by a maintainer) are looked into: a store there is a
        # store of the memo function, tainted by the arguments it was called with
        scopes = [(f, cn, tainted, None)]
        for n in walk(f.body):
            if n.get("k") == "CXXMemberCallExpr" and (n.get("callee") or {}).get("parent") == f.o.get("parent") and \
                    (n.get("callee") or {}).get("n") not in KNOWN_SA and not A.contains(guard_if, n):
                g = f.facts.by_id.get(n["callee"]["id"])
                if g is not None and g.body is not None and g is not f:
                    gt = set()
                    for p_, a_ in zip(g.o["params"], A.call_args(n)):
                        if _mentions(a_, tainted):
                            gt.add(p_["id"])
                    # a call under a tainted guard taints everything the helper does
                    cur = n
                    ctrl = False
                    while True:
                        par = cn.pm.get(id(cur))
                        if par is None:
                            break
                        if par.get("k") == "IfStmt" and (par.get("then") is cur or par.get("else") is cur) and \
                                _mentions(par["cond"], tainted):
                            ctrl = True
                        cur = par
                    scopes.append((g, Canon(g), gt, "control" if ctrl else None))
        for (sf, scn, staint, forced) in scopes:
          for n in walk(sf.body):
            if n.get("k") != "CXXMemberCallExpr":
                continue
            name = (n.get("callee") or {}).get("n")
            if name not in ("push_back", "emplace_back", "set", "add", "reset"):
                continue
            objc = scn.c(A.call_object(n))
            base = objc.split("[")[0].split(".")[-1]
            if not (base == stem or base.rstrip("s") == stem.rstrip("s")):
                continue
            if sf is f and A.contains(guard_if, n):
                continue
            n_stores += 1
            # control dependence
            bad = "the helper that performs it is called under a state-dependent condition" if forced else None
            cur = n
            while True:
                par = scn.pm.get(id(cur))
                if par is None:
                    break
                if par.get("k") == "IfStmt" and (par.get("then") is cur or par.get("else") is cur):
                    if _mentions(par["cond"], staint):
                        bad = "its guard '%s' depends on %s" % (scn.c(par["cond"])[:100], _names(par["cond"], staint, sf))
                        break
                if par.get("k") in ("ForStmt", "WhileStmt") and par.get("cond") is not None and \
                        _mentions(par["cond"], staint):
                    bad = "its loop bound depends on %s" % _names(par["cond"], staint, sf)
                    break
                cur = par
            # data dependence of the stored value
            if bad is None:
                for a in A.call_args(n):
                    if _mentions(a, staint):
                        bad = "the stored value depends on %s" % _names(a, staint, sf)
            site = A.site(sf, n)
            if bad:
                chk.violation("MEMO-K", site, "MEMO-K:%s:%s" % (f.o["n"], base),
                              "store into the memo '%s' (keyed by %s) is state-dependent: %s. A memo must record the "
                              "same value whoever computes it first" % (base, cn.c(flag[2]) if flag[2] is not None
                                                                        else "nothing", bad))
            else:
                chk.ok("MEMO-K", site, "store into memo '%s' depends on the key only" % base)
        if n_stores == 0 and flag[1] == "bit" and f.o["n"] != "make_right_side_slice_empty":
            chk.incomplete("memo function %s: no store into its memo value recognised" % f.o["n"])
    return memos


def _key_params(cn, node, params, depth=0):
    """Parameters the memo key is computed from (locals with a single definition are expanded)."""
    out = set()
    for n in walk(node):
        if n.get("k") == "DeclRefExpr":
            vid = n["d"]["id"]
            if vid in params:
                out.add(vid)
            elif vid in cn.defs and depth < 8:
                out |= _key_params(cn, cn.defs[vid], params, depth + 1)
    return out


def _mentions(tree, ids):
    for n in walk(tree):
        if n.get("k") == "DeclRefExpr" and n["d"]["id"] in ids:
            return True
    return False


def _names(tree, ids, f):
    return sorted({n["d"]["n"] for n in walk(tree) if n.get("k") == "DeclRefExpr" and n["d"]["id"] in ids})


def memo_p(chk, fx, memos):
    chk.rule("MEMO-P", "memo functions that publish early are not re-entrant", 3)
    # call graph among state_analyzer members (by short name)
    edges = {}
    for q in set(fx.qnames()):
        if not q.startswith(SA):
            continue
        for f in fx.fns(q)[:1]:
            for n, c, g in G.calls(f):
                if c["q"].startswith(SA):
                    edges.setdefault(q, set()).add(c["q"])

    def reaches(a, b, seen=None):
        seen = seen or set()
        for x in edges.get(a, ()):
            if x == b:
                return True
            if x not in seen:
                seen.add(x)
                if reaches(x, b, seen):
                    return True
        return False
    for f, guard_if, flag, pos in memos:
        q = f.o["q"]
        body = f.body.get("c") or []
        # position of the flag publication and of the last store / return computing the value
        pub = None
        for i, st in enumerate(body):
            for eff in AI.effects(st):
                if eff[0] == "call" and (eff[2].get("callee") or {}).get("n") == "set" and \
                        flag[0].split("::")[-1] in A.field_names(A.access_path(A.call_object(eff[2]))):
                    pub = i if pub is None else pub
                if eff[0] == "set" and eff[1].endswith(flag[0].split("::")[-1]):
                    pub = i if pub is None else pub
        early = pub is not None and pub < len(body) - 1
        cyc = reaches(q, q)
        site = A.site(f)
        if early and cyc:
            chk.violation("MEMO-P", site, "MEMO-P:%s" % f.o["n"],
                          "%s marks its entry as analysed before the value is complete and can be re-entered through "
                          "the call graph: a re-entrant call observes (and may cache) a partial result" % f.o["n"])
        else:
            chk.ok("MEMO-P", site, "publishes %s; re-entrant: %s" % ("early" if early else "after completion", cyc))


# =============================================================================================== INJ
def _poly(cn, node):
    """Sum-of-products normal form of an index expression: list of (digit, [radix names])."""
    s = strip(node, casts=True)
    if s is not None and s.get("k") == "BinaryOperator" and s.get("op") == "+":
        return _poly(cn, s["c"][0]) + _poly(cn, s["c"][1])
    facs = _factors(cn, s)
    consts = sorted(f for f in facs if _is_const_name(f))
    digits = [f for f in facs if not _is_const_name(f)]
    if len(digits) != 1:
        raise AnalysisIncomplete("linearisation term with %d variable factors: %s" % (len(digits), cn.c(node)))
    return [(digits[0], consts)]


def _factors(cn, s):
    s = strip(s, casts=True)
    if s is not None and s.get("k") == "BinaryOperator" and s.get("op") == "*":
        return _factors(cn, s["c"][0]) + _factors(cn, s["c"][1])
    return [cn.c(s)]


def _is_const_name(x):
    return re.fullmatch(r"[a-z_][a-z_0-9]*", x) is not None and (x.endswith("_count") or x.endswith("_size"))


# cardinality (named constant) of each digit role
DIGIT_CARD = [
    (re.compile(r"\.rule_info_idx$|\.r_idx$"), "rule_count"),
    (re.compile(r"\.after$"), "situation_size"),
    (re.compile(r"\.t$"), "term_count"),
    (re.compile(r"^\$1$"), "situation_size"),          # `start` of the slice memos: 0..max_rule_element_count
]


def _card(digit):
    for rx, c in DIGIT_CARD:
        if rx.search(digit):
            return c
    return None


def inj(chk, fx):
    chk.rule("INJ", "linearised table keys", 4)
    # declared sizes
    sizes = _declared_sizes(fx)
    # situation_size must be max_rule_element_count + 1 (the dot can stand after the last element)
    ss = sizes.get("const:situation_size")
    if ss is None or ss.replace(" ", "") not in ("max_rule_element_count+1", "(max_rule_element_count+1)"):
        chk.violation("INJ", "include/ctpg/ctpg.hpp ctpg::parser::situation_size", "INJ:situation_size",
                      "situation_size is '%s'; dot positions range over 0..max_rule_element_count" % ss)
    keys = {}
    for q, table in ((P + "make_situation_idx", "situation_address_space_size"),
                     (SA + "make_right_side_slice_first", "right_side_slice_first"),
                     (SA + "make_right_side_slice_empty", "right_side_slice_empty")):
        f = first_inst(fx, q)
        cn = Canon(f)
        expr = None
        if q.endswith("make_situation_idx"):
            rets = [n for n in walk(f.body) if n.get("k") == "ReturnStmt"]
            if len(rets) != 1:
                chk.incomplete("make_situation_idx: single return expected")
            expr = rets[0]["value"]
        else:
            for n in walk(f.body):
                if n.get("k") == "Var" and n.get("init") is not None:
                    s = strip(n["init"], casts=True)
                    if s is not None and s.get("k") == "BinaryOperator" and s.get("op") == "+":
                        expr = n["init"]
                        break
        if expr is None:
            chk.incomplete("%s: key expression not found" % q)
        poly = _poly(cn, expr)
        site = A.site(f, expr)
        # mixed radix: order digits by number of radix factors
        poly.sort(key=lambda d: len(d[1]))
        problems = []
        radix = []
        for digit, consts in poly:
            if consts != sorted(radix):
                problems.append("digit %s has stride %s, needs %s" % (digit, "*".join(consts) or "1",
                                                                       "*".join(sorted(radix)) or "1"))
            card = _card(digit)
            if card is None:
                chk.incomplete("%s: cardinality of digit '%s' unknown" % (q, digit))
            radix = radix + [card]
        total = sorted(radix)
        declared = sizes.get(table)
        if declared is None:
            chk.incomplete("declared size of %s not found" % table)
        if sorted(declared) != total:
            problems.append("key range %s differs from the declared size %s" % ("*".join(total), "*".join(declared)))
        keys[q] = [(d, tuple(c)) for d, c in poly]
        if problems:
            chk.violation("INJ", site, "INJ:%s" % f.o["n"], "; ".join(problems) + " — two different keys can share a slot")
        else:
            chk.ok("INJ", site, "%s = %s is a mixed-radix number below %s" % (
                f.o["n"], " + ".join("%s*%s" % (d, "*".join(c) or "1") for d, c in poly), "*".join(total)))
    # siblings over (rule, position)
    a, b = keys[SA + "make_right_side_slice_first"], keys[SA + "make_right_side_slice_empty"]
    if [c for d, c in a] == [c for d, c in b]:
        chk.ok("INJ", "include/ctpg/ctpg.hpp " + SA + "make_right_side_slice_*", "both suffix memos use the same key")
    else:
        chk.violation("INJ", "include/ctpg/ctpg.hpp " + SA + "make_right_side_slice_first", "INJ:slice-keys-differ",
                      "the FIRST and nullable suffix memos linearise (rule, position) differently: %s vs %s" % (a, b))
    # inverse
    f = first_inst(fx, P + "make_situation_info")
    cn = Canon(f)
    txt = [cn.c(n) for n in walk(f.body) if n.get("k") in ("BinaryOperator", "CompoundAssignOperator") and
           n.get("op") in ("%", "/", "/=")]
    want = {"($0 % term_count)", "($0 /= term_count)", "($0 % situation_size)", "($0 / situation_size)"}
    site = A.site(f)
    rets = [n for n in walk(f.body) if n.get("k") == "ReturnStmt"]
    order_ok = False
    if rets:
        args = split_args(cn.c(rets[0]["value"]))
        # situation_info{rule, after, t}: after = (idx/term_count) % situation_size etc. checked through the locals
        order_ok = len(args) == 3
    if set(txt) == want and order_ok:
        chk.ok("INJ", site, "make_situation_info decodes with the radices of make_situation_idx (t, then after, then rule)")
    else:
        chk.violation("INJ", site, "INJ:make_situation_info", "decoding uses %s, expected %s" % (sorted(txt), sorted(want)))


def _declared_sizes(fx):
    """{table-or-constant: [radix names]} read from the pattern of parser (as written)."""
    out = {}
    for u, r in fx.records("ctpg::parser"):
        if r["tmpl"] != "pattern" or not r["fields"]:
            continue
        for m in r["members"]:
            if m["k"] == "staticvar" and m.get("init") is not None:
                out["const:" + m["n"]] = _plain(m["init"])
                if m["n"] == "situation_address_space_size":
                    out[m["n"]] = [x.strip() for x in _plain(m["init"]).strip("()").split("*")]
        break
    for u, r in fx.records(P + "state_analyzer"):
        if r["tmpl"] != "pattern":
            continue
        for f in r["fields"]:
            t = u.T(f["t"])
            if f["n"] == "right_side_slice_first" and "[" in t:
                out[f["n"]] = [x.strip() for x in t[t.rfind("[") + 1:t.rfind("]")].split("*")]
        for m in r["members"]:
            if m["k"] == "alias" and m["n"] == "right_side_slice_subset":
                t = u.T(m["t"])
                inner = t[t.find("<") + 1:t.rfind(">")]
                out["right_side_slice_empty"] = [x.strip() for x in inner.split("*")]
        break
    return out


def _plain(n):
    s = strip(n, casts=True)
    if s is None:
        return ""
    k = s.get("k")
    if k == "DeclRefExpr":
        return s["d"]["n"]
    if k == "IntegerLiteral":
        return str(s["v"])
    if k == "BinaryOperator":
        return "%s %s %s" % (_plain(s["c"][0]), s["op"], _plain(s["c"][1]))
    if k in ("ParenExpr",):
        return "(" + _plain(s["c"][0]) + ")"
    if k == "DependentScopeDeclRefExpr":
        return s.get("name", "?")
    return "<%s>" % k


# =============================================================================================== SCAN
CARD_NAME = {"TERM": {"term_count"}, "NTERM": {"nterm_count"}, "COL": {"symbol_count"},
             "SIT": {"situation_address_space_size"}, "STATE": {"state_count"}, "RULE": {"rule_count"},
             "RINFO": {"rule_count"}, "CHAR": {"transitions_size", "distinct_chars_count"}}


def scan(chk, fx, scope):
    chk.rule("SCAN", "zero-based scans over an index space run to its cardinality", 6)
    ix = idxrule.analysis(fx)
    seen = set()
    for fn in fx.all_fns():
        if fn.is_pattern or not scope(fn.o["q"]) or not ix.in_scope(fn):
            continue
        cn = None
        for n in walk(fn.body):
            if n.get("k") != "ForStmt":
                continue
            init = n.get("init")
            if not init or init.get("k") != "DeclStmt" or len(init.get("decls", ())) != 1:
                continue
            v = init["decls"][0]
            if v.get("k") != "Var" or AI.const_of(v.get("init")) != 0:
                continue
            sp = ix.S.space_of(("v", v["l"]))
            if sp not in CARD_NAME:
                continue
            cond = strip(n.get("cond"), casts=True)
            if cond is None or cond.get("k") != "BinaryOperator":
                continue
            if cn is None:
                cn = Canon(fn)
            lhs, rhs = cond["c"]
            key = (fn.o["q"], n.get("l"))
            if A.declref_id(lhs) != v["id"]:
                continue
            bound = cn.c(rhs)
            bare = bound.split(".")[-1]
            site = A.site(fn, n)
            ok = cond["op"] == "<" and (bare in CARD_NAME[sp] or bound.endswith(".size()"))
            if ok:
                if key not in seen:
                    seen.add(key)
                    chk.ok("SCAN", site, "'%s' ranges over %s: 0 .. %s" % (v["n"], sp, bound))
            else:
                chk.violation("SCAN", site, "SCAN:%s:%s" % (fn.o["q"], sp),
                              "'%s' indexes the space %s but the scan runs while %s %s %s instead of up to %s: part of "
                              "the space is never visited" % (v["n"], sp, v["n"], cond["op"], bound,
                                                              "/".join(sorted(CARD_NAME[sp]))))


# =============================================================================================== templates
INFO = "make_situation_info($1)"
RI = "gi.rule_infos[%s.rule_info_idx]" % INFO
SM = "gi.right_sides[%s.r_idx][%s.after]" % (RI, INFO)
SL = "gi.nterm_rule_slices[%s.idx]" % SM
RULECOMP = "(%s.start + @i{0..%s.n})" % (SL, SL)
BETA = "(%s.after + 1)" % INFO
FIRSTB = "make_right_side_slice_first(%s, %s)" % (RI, BETA)
EMPTYB = "make_right_side_slice_empty(%s, %s)" % (RI, BETA)


# member functions of state_analyzer / parser the templates know by name; any other member called from a templated
# function is treated as an extracted helper and looked through
KNOWN_SA = {"add_situation", "analyze_states", "closure", "transitions", "solve_conflict", "make_right_side_slice_first",
            "make_nterm_first", "analyze_nterm_sets", "make_right_side_slice_empty", "make_right_side_empty",
            "make_nterm_empty", "make_situation_idx", "make_situation_info", "get_parse_table_idx", "is_shift"}


def closure_spec(chk, fx):
    from . import pathsig as PS
    chk.rule("CLOSURE", "items generated by closure()", 2)
    f = first_inst(fx, SA + "closure")
    cn = Canon(f)

    def evs(cn_, node):
        out = []
        for n in walk(node):
            if A.is_call(n, q=SA + "add_situation"):
                out.append(PS.Event("add", cn_.c(n), n))
            if n.get("k") == "CXXMemberCallExpr" and (n.get("callee") or {}).get("n") == "push_back" and \
                    cn_.c(A.call_object(n)) == "closures[$1]":
                out.append(PS.Event("memo", cn_.c(A.call_args(n)[0]), n))
        return out
    actual, nodes = PS.event_conditions(cn, f.body, events_of=evs, unroll=1, drop=_drop_noise, known=KNOWN_SA)
    items = {}
    for (k, t), cond in actual.items():
        if k == "add":
            a = split_args(t)
            if len(a) == 3 and a[1].startswith("make_situation_idx("):
                items.setdefault(a[1], {})["add"] = (a, cond, nodes[(k, t)])
        elif k == "memo" and t.startswith("make_situation_idx("):
            items.setdefault(t, {})["memo"] = (cond, nodes[(k, t)])
    if not items:
        chk.incomplete("closure(): no item construction (make_situation_idx) reaches add_situation / the memo")
    NOT_TERM = ("%s.term" % SM, False)
    INCOMPLETE = ("(%s.after < %s.r_elements)" % (INFO, RI), True)
    NOT_MEMO = ("closures_analyzed.test($1)", False)
    kinds = set()
    for txt, d in sorted(items.items()):
        args = split_args(split_args(txt)[0]) if split_args(txt) else []
        node = (d.get("add") or (None, None, None))[2] or d.get("memo", (None, None))[1]
        site = A.site(f, node)
        if len(args) != 3:
            chk.incomplete("closure(): item construction not recognised: %s" % txt[:120])
        rule_c, dot_c, look_c = args
        probs = []
        if rule_c != RULECOMP:
            probs.append(("rule", "the generated items' rules must be all rules of the nonterminal after the dot "
                                  "(nterm_rule_slices[sym.idx].start + i, i < n); found %s" % _short(rule_c)))
        if dot_c != "0":
            probs.append(("dot", "generated items start with the dot at position 0; found %s" % dot_c))
        if "add" not in d:
            probs.append(("sink-state", "the generated item is not added to the state being closed"))
            cond = d["memo"][0]
        else:
            a, cond, _ = d["add"]
            if a[0] != "$0" or a[2] != "false":
                probs.append(("sink-state", "the item is added as add_situation(%s, ., %s) instead of (state, ., false)" % (a[0], a[2])))
        if "memo" not in d:
            probs.append(("sink-memo", "the generated item is not recorded in closures[item]"))
        elif "add" in d and not PS.equivalent(d["memo"][0], d["add"][1]):
            probs.append(("sink-memo-condition", "the item is recorded in the memo under another condition (%s) than it is "
                                                 "generated (%s)" % (_short(PS.show(d["memo"][0])), _short(PS.show(d["add"][1])))))
        if not PS.implies(cond, [NOT_TERM]):
            probs.append(("nonterminal", "items are generated although the symbol after the dot is not known to be a nonterminal"))
        if not PS.implies(cond, [INCOMPLETE]):
            probs.append(("complete-item", "items are generated for an item whose dot is at the end"))
        if look_c == "@i{0..term_count}":
            kinds.add("first")
            if not PS.implies(cond, [("%s.test(@i{0..term_count})" % FIRSTB, True)]):
                probs.append(("lookahead-first", "a lookahead t is generated without FIRST(beta).test(t) holding, beta = the "
                                                 "suffix after the nonterminal (after + 1); condition: %s" % _short(PS.show(cond))))
        elif look_c == "%s.t" % INFO:
            kinds.add("inherit")
            if not PS.implies(cond, [(EMPTYB, True)]):
                probs.append(("lookahead-inherit", "the item's own lookahead is propagated without the suffix after the "
                                                   "nonterminal (after + 1) being nullable; condition: %s" % _short(PS.show(cond))))
        else:
            probs.append(("lookahead", "unexpected lookahead component %s" % _short(look_c)))
        if probs:
            for role, msg in probs:
                chk.violation("CLOSURE", site, "CLOSURE:%s" % role, msg)
        else:
            chk.ok("CLOSURE", site, "items (rules of N, dot 0, %s)" % (
                "t in FIRST(beta)" if look_c.startswith("@i") else "own lookahead when beta is nullable"))
    if kinds != {"first", "inherit"} and not chk.violations:
        chk.violation("CLOSURE", A.site(f), "CLOSURE:kinds",
                      "closure must generate lookaheads from FIRST(beta) and, when beta is nullable, the item's own "
                      "lookahead; found only %s" % sorted(kinds))
    # replay branch: memo hit adds exactly the recorded items
    replay = [(t, c) for (k, t), c in actual.items() if k == "add" and "closures[$1][" in t]
    if len(replay) == 1 and split_args(replay[0][0]) == ["$0", "closures[$1][@i{0..closures[$1].size()}]", "false"] and \
            PS.implies(replay[0][1], [("closures_analyzed.test($1)", True)]):
        chk.ok("CLOSURE", A.site(f), "memo hit replays every recorded item into the state")
    else:
        chk.violation("CLOSURE", A.site(f), "CLOSURE:replay",
                      "on a memo hit the recorded items are not all added to the state (%s)" % [t[:80] for t, c in replay])


def _replay_branch(f):
    for st in (f.body.get("c") or [])[:3]:
        if st.get("k") == "IfStmt":
            return st.get("then")
    return None


def _short(s):
    s = s.replace(INFO, "info").replace("gi.rule_infos[info.rule_info_idx]", "ri")
    s = s.replace("gi.right_sides[ri.r_idx][info.after]", "sym").replace("gi.nterm_rule_slices[sym.idx]", "sl")
    return s[:200]


def _events(f, cn, within=None):
    """(kind, text, guards) for loop exits and table writes."""
    out = []
    for n in walk(within or f.body):
        k = n.get("k")
        if k in ("BreakStmt", "ContinueStmt"):
            out.append((k[:-4].lower(), "", tuple(cn.guards(n)), n))
        elif k == "ReturnStmt":
            out.append(("return", cn.c(n["value"]) if n.get("value") is not None else "", tuple(cn.guards(n)), n))
        elif k == "CXXMemberCallExpr" and (n.get("callee") or {}).get("n") in ("set", "add", "reset", "push_back"):
            out.append(("call", cn.c(n), tuple(cn.guards(n)), n))
        elif k in ("BinaryOperator",) and n.get("op") == "=":
            out.append(("assign", cn.c(n), tuple(cn.guards(n)), n))
        elif k == "CXXOperatorCallExpr" and n.get("op") == "=":
            out.append(("assign", cn.c(n), tuple(cn.guards(n)), n))
    return out


def _loopdep(guards):
    return tuple(sorted(g for g in guards if "@i{" in g or g.startswith("?") or g.startswith("!?")))


def _drop_noise(atom):
    """Atoms that do not belong to a template: verbose tests and the loop-bound tests of counted loops."""
    return "verbose" in atom or (atom.startswith("(@i{") and " < " in atom) or (" < " in atom and atom.split(" < ")[0].startswith("(@i{"))


def suffix_specs(chk, fx):
    from . import pathsig as PS
    chk.rule("FIRSTSFX", "make_right_side_slice_first: scan of a right-side suffix", 3)
    chk.rule("NULLSFX", "make_right_side_slice_empty: scan of a right-side suffix", 2)
    S = "gi.right_sides[$0.r_idx][@i{$1..$0.r_elements}]"
    T = "%s.term" % S
    N = "make_nterm_empty(%s.idx)" % S
    # ---- FIRST of a suffix
    f = first_inst(fx, SA + "make_right_side_slice_first")
    cn = Canon(f)
    loops = [n for n in (f.body.get("c") or []) if n.get("k") in ("ForStmt", "WhileStmt")]
    if len(loops) != 1:
        chk.incomplete("make_right_side_slice_first: scan loop not found")
    actual, nodes = PS.event_conditions(cn, loops[0]["body"], unroll=1, drop=_drop_noise)
    res = None
    for (k, t) in actual:
        if k == "call" and ".set(" in t:
            res = t.split(".set(")[0]
    if res is None:
        chk.incomplete("make_right_side_slice_first: set() of a terminal not found")
    want = {
        ("call", "%s.set(%s.idx)" % (res, S)): (PS.dnf([(T, True)]), "a terminal contributes itself"),
        ("call", "%s.add(make_nterm_first(%s.idx))" % (res, S)): (PS.dnf([(T, False)]), "a nonterminal contributes its FIRST set"),
        ("break", ""): (PS.dnf([(T, True)], [(T, False), (N, False)]),
                        "the scan stops after a terminal or a non-nullable nonterminal, and only then"),
    }
    PS.compare(chk, "FIRSTSFX", f, loops[0], actual, nodes, want, shorten=_short)
    # ---- nullable suffix
    f = first_inst(fx, SA + "make_right_side_slice_empty")
    cn = Canon(f)
    loops = [n for n in (f.body.get("c") or []) if n.get("k") in ("ForStmt", "WhileStmt")]
    if len(loops) != 1:
        chk.incomplete("make_right_side_slice_empty: scan loop not found")
    actual, nodes = PS.event_conditions(cn, loops[0]["body"], unroll=1, drop=_drop_noise)
    want = {
        ("return", "false"): (PS.dnf([(T, True)], [(T, False), (N, False)]),
                              "a terminal or a non-nullable nonterminal makes the suffix non-nullable, nothing else does"),
    }
    PS.compare(chk, "NULLSFX", f, loops[0], actual, nodes, want, shorten=_short)
    tail = (f.body.get("c") or [])[(f.body["c"].index(loops[0]) + 1):]
    tl, _ = PS.event_conditions(cn, {"k": "CompoundStmt", "c": tail}, unroll=1, drop=_drop_noise)
    keys = set(tl)
    if ("return", "true") in keys and any(k == "call" and t.startswith("right_side_slice_empty.set(") for k, t in keys) and \
            PS.equivalent(tl[("return", "true")], PS.dnf([])):
        chk.ok("NULLSFX", A.site(f, tail[0]), "a suffix scanned to its end is recorded and reported nullable")
    else:
        chk.violation("NULLSFX", A.site(f), "NULLSFX:end", "after scanning the whole suffix the function does not record "
                                                           "and return 'nullable' (%s)" % sorted(keys))


def _compare(chk, rule, f, at, ev, want, exits_only_extra=False):
    """Compare the events of a recognised loop with its role template.
    A template event that is present: obligation discharged. Missing, but an event of the same kind shares its text or
    one of its guards: the shape is recognised and an operand differs -> violation naming the role. Missing with
    nothing similar: the loop has another shape -> cannot analyse (exit 2), never a verdict."""
    got = set((k, t, tuple(sorted(g))) for k, t, g in ev)
    want = {(k, t, tuple(sorted(g))): why for (k, t, g), why in want.items()}
    unknown_shape = []
    n_missing = 0
    for w, why in want.items():
        if w in got:
            chk.ok(rule, A.site(f, at), why)
            continue
        n_missing += 1
        near = [e for e in got - set(want) if e[0] == w[0] and ((w[1] and e[1] == w[1]) or (set(e[2]) & set(w[2])) or
                                                                   (w[1] and e[1].split("(")[0] == w[1].split("(")[0] and
                                                                    e[2] == w[2]))]
        if not near:
            unknown_shape.append(why)
            continue
        chk.violation(rule, A.site(f, at), "%s:%s:%s" % (rule, f.o["n"], "-".join(why.split(" ")[1:4])),
                      "expected: %s — i.e. %s %s when %s; found instead: %s" % (
                          why, w[0], _short(w[1]), [_short(x) for x in w[2]],
                          [(e[0], _short(e[1]), [_short(x) for x in e[2]]) for e in near][:2]))
    if unknown_shape:
        if chk.violations:
            return
        raise AnalysisIncomplete("%s: %s has a shape the template does not recognise (no counterpart for: %s)" % (
            rule, f.o["n"], "; ".join(unknown_shape)[:300]))
    if n_missing:
        return
    for e in got - set(want):
        if e[0] in ("break", "continue", "return"):
            chk.violation(rule, A.site(f, at), "%s:%s:extra-%s" % (rule, f.o["n"], e[0]),
                          "an additional exit from the scan (%s when %s) cuts the computation short" % (
                              e[0], [_short(x) for x in e[2]]))
        elif not exits_only_extra:
            chk.violation(rule, A.site(f, at), "%s:%s:extra-write" % (rule, f.o["n"]),
                          "unexpected table update %s" % _short(e[1]))


def fixpoint_spec(chk, fx):
    from . import pathsig as PS
    chk.rule("FIXPOINT", "analyze_nterm_sets: nullable and FIRST of nonterminals as least fixpoints", 8)
    f = first_inst(fx, SA + "analyze_nterm_sets")
    cn = Canon(f)
    whiles = [n for n in (f.body.get("c") or []) if n.get("k") in ("WhileStmt", "DoStmt")]
    if len(whiles) != 2:
        # another arrangement of the iteration (one merged sweep, three loops, ...): the reference below does not apply,
        # but what makes any such loop a fixpoint iteration does: whenever a set of the analyser grows, the change flag
        # is raised, otherwise the loop can stop before the growth has been propagated
        _fixpoint_growth(chk, f, cn, whiles)
        chk.incomplete("analyze_nterm_sets: expected two fixpoint loops, found %d" % len(whiles))
    L = "gi.rule_infos[@i{0..rule_count}]"
    S = "gi.right_sides[%s.r_idx][@i{0..%s.r_elements}]" % (L, L)
    EL = "nterm_empty.test(%s.l_idx)" % L
    T = "%s.term" % S
    ES = "nterm_empty.test(%s.idx)" % S
    # ---------------- nullable
    actual, nodes = PS.event_conditions(cn, whiles[0]["body"], unroll=1, drop=_drop_noise)
    names = _local_names([(k, t, ()) for (k, t) in actual])
    chg, allv = names.get("changed"), names.get("flag")
    if chg is None or allv is None:
        chk.incomplete("analyze_nterm_sets: 'changed' / 'all nullable' flags of the nullable fixpoint not recognised")
    A_ = "?%s" % allv
    want = {
        ("assign", "(?%s = false)" % chg): (PS.dnf([]), "each round starts with changed = false"),
        ("continue", ""): (PS.dnf([(EL, True)]), "rules of an already nullable nonterminal are skipped"),
        ("assign", "(?%s = false)" % allv): (PS.dnf([(EL, False), (T, True)], [(EL, False), (T, False), (ES, False)]),
                                             "a terminal or a not-yet-nullable nonterminal makes the right side non-nullable"),
        ("break", ""): (PS.dnf([(EL, False), (T, True)], [(EL, False), (T, False), (ES, False)]),
                        "the scan of the right side stops there"),
        ("call", "nterm_empty.set(%s.l_idx)" % L): (PS.dnf([(EL, False), (A_, True)]),
                                                   "a rule whose right side is all nullable makes its left side nullable"),
        ("assign", "(?%s = true)" % chg): (PS.dnf([(EL, False), (A_, True)]), "a change requests another round"),
    }
    # the flag test `?all_empty` is preceded by scan paths that do not constrain it: compare modulo the scan atoms
    actual = {k: _project(v, keep=lambda a: True) for k, v in actual.items()}
    _compare_mod(chk, "FIXPOINT", f, whiles[0], actual, nodes, want, relevant={
        ("call", "nterm_empty.set(%s.l_idx)" % L): {EL, A_},
        ("assign", "(?%s = true)" % chg): {EL, A_},
    })
    # ---------------- FIRST
    actual, nodes = PS.event_conditions(cn, whiles[1]["body"], unroll=1, drop=_drop_noise)
    names = _local_names([(k, t, ()) for (k, t) in actual])
    chg = names.get("changed")
    acc = None
    for (k, t) in actual:
        if k == "call" and ".set(" in t:
            acc = t.split(".set(")[0]
    if acc is None or not acc.startswith("?") or chg is None:
        chk.incomplete("analyze_nterm_sets: FIRST accumulator / changed flag not recognised")
    accdef = [n for n in walk(whiles[1]) if n.get("k") == "Var" and "?" + n["n"] == acc]
    if not accdef or cn.c(accdef[0]["init"]) != "nterm_first[%s.l_idx]" % L:
        chk.violation("FIXPOINT", A.site(f, whiles[1]), "FIXPOINT:accumulator",
                      "the FIRST accumulator of a rule does not start from the current FIRST set of its left side")
    G = "(%s == nterm_first[%s.l_idx])" % (acc, L)
    G2 = "(nterm_first[%s.l_idx] == %s)" % (L, acc)
    gkey = G if any(G in a for v in actual.values() for c in v for a, p in c) else G2
    want = {
        ("assign", "(?%s = false)" % chg): (PS.dnf([]), "each round starts with changed = false"),
        ("call", "%s.set(%s.idx)" % (acc, S)): (PS.dnf([(T, True)]), "a terminal contributes itself"),
        ("call", "%s.add(nterm_first[%s.idx])" % (acc, S)): (PS.dnf([(T, False)]), "a nonterminal contributes its FIRST set"),
        ("break", ""): (PS.dnf([(T, True)], [(T, False), (ES, False)]),
                        "the scan stops after a terminal or a non-nullable nonterminal, and only then"),
        ("assign", "(nterm_first[%s.l_idx] = %s)" % (L, acc)): (PS.dnf([(gkey, False)]), "a grown set is stored"),
        ("assign", "(?%s = true)" % chg): (PS.dnf([(gkey, False)]), "a change requests another round"),
    }
    _compare_mod(chk, "FIXPOINT", f, whiles[1], actual, nodes, want, relevant={
        ("assign", "(nterm_first[%s.l_idx] = %s)" % (L, acc)): {gkey},
        ("assign", "(?%s = true)" % chg): {gkey},
    })
    # the flag is reset once per round: directly in the fixpoint loop, not inside the loop over the rules (there a later
    # rule would erase the change an earlier rule reported and the iteration would stop too early)
    for w in whiles:
        for n in walk(w["body"]):
            k = n.get("k")
            tgt = None
            if k == "BinaryOperator" and n.get("op") == "=":
                tgt, rhs = n["c"][0], n["c"][1]
            elif k == "CXXOperatorCallExpr" and n.get("op") == "=" and len(n.get("c") or []) == 3:
                tgt, rhs = n["c"][1], n["c"][2]
            if tgt is None or cn.c(tgt) != cn.c(w["cond"]) or cn.c(rhs) != "false":
                continue
            cur, inner = n, None
            while cur is not None and cur is not w:
                cur = cn.pm.get(id(cur))
                if cur is not None and cur is not w and cur.get("k") in ("ForStmt", "WhileStmt", "DoStmt", "CXXForRangeStmt"):
                    inner = cur
                    break
            if inner is not None:
                chk.violation("FIXPOINT", A.site(f, n), "FIXPOINT:reset-inside-inner-loop",
                              "the change flag %s is reset inside the loop over the rules: a change found for an earlier rule "
                              "is forgotten when a later rule brings none, so the fixpoint iteration stops before the sets "
                              "are complete" % cn.c(tgt))
            else:
                chk.ok("FIXPOINT", A.site(f, n), "the change flag is reset once per round, in the fixpoint loop itself")
    for w in whiles:
        c = cn.c(w["cond"])
        if not c.startswith("?"):
            chk.violation("FIXPOINT", A.site(f, w), "FIXPOINT:loop-condition", "fixpoint loop runs while %s" % c)


def _fixpoint_growth(chk, f, cn, whiles):
    from . import pathsig as PS
    import re as _re
    for w in whiles:
        flag = cn.c(w["cond"])
        if not flag.startswith("?"):
            continue
        actual, nodes = PS.event_conditions(cn, w["body"], unroll=1, drop=_drop_noise)
        raised = actual.get(("assign", "(%s = true)" % flag))
        if raised is None:
            continue
        atoms = PS.atoms_of(*actual.values())
        for (k, t), d in sorted(actual.items()):
            grows = (k == "call" and _re.match(r"[A-Za-z_]\w*(\[.*\])?\.(set|add)\(", t)) or \
                    (k == "assign" and _re.match(r"\([A-Za-z_]\w*\[.*\] = ", t))
            if not grows:
                continue
            open_ = [c for c in d if not PS._covers(c, raised, atoms)]
            if open_:
                chk.violation("FIXPOINT", A.site(f, nodes.get((k, t)) or w), "FIXPOINT:growth-without-change",
                              "%s can happen on a path that does not raise the change flag %s (%s): the iteration can stop "
                              "before this growth has reached the sets that depend on it" % (
                                  _short(t), flag, PS.show({open_[0]})[:200]))
            else:
                chk.ok("FIXPOINT", A.site(f, nodes.get((k, t)) or w), "%s always raises %s" % (_short(t), flag))


def _project(dnf, keep):
    return {frozenset((a, p) for a, p in c if keep(a)) for c in dnf}


def _compare_mod(chk, rule, f, at, actual, nodes, want, relevant):
    """pathsig.compare, but for the listed events only the listed atoms are compared (events after an inner scan are
    reached through paths of the scan that do not constrain them)."""
    from . import pathsig as PS
    act = dict(actual)
    for key, atoms in relevant.items():
        if key in act:
            act[key] = _project(act[key], lambda a: a in atoms)
    PS.compare(chk, rule, f, at, act, nodes, want, shorten=_short)


def _local_names(ev):
    """Identify the 'changed' flag (assigned true and false) and an 'all ...' flag."""
    t, fl = set(), set()
    for k, txt, g in ev:
        m = re.fullmatch(r"\(\?(\w+) = (true|false)\)", txt)
        if k == "assign" and m:
            (t if m.group(2) == "true" else fl).add(m.group(1))
    both = t & fl
    only_false = fl - t
    return {"changed": sorted(both)[0] if both else None, "flag": sorted(only_false)[0] if only_false else None}


def goto_spec(chk, fx):
    chk.rule("GOTO", "kernel items and state identification in transitions()", 3)
    f = first_inst(fx, SA + "transitions")
    cn = Canon(f)
    INFO_T = "make_situation_info(@each{$2})"
    items = [n for n in walk(f.body) if A.is_call(n, q=P + "make_situation_idx")]
    if len(items) != 1:
        chk.incomplete("transitions(): expected one kernel item construction, found %d" % len(items))
    txt = cn.c(items[0])
    args = split_args(split_args(txt)[0])
    want = ["%s.rule_info_idx" % INFO_T, "(%s.after + 1)" % INFO_T, "%s.t" % INFO_T]
    site = A.site(f, items[0])
    if args == want:
        chk.ok("GOTO", site, "kernel item = same rule, dot advanced by one, same lookahead")
    else:
        for role, a, w in zip(("rule", "dot", "lookahead"), args, want):
            if a != w:
                chk.violation("GOTO", site, "GOTO:kernel-%s" % role,
                              "the item moved over the symbol must keep its %s: expected %s, found %s" % (
                                  role, w.replace(INFO_T, "info"), a.replace(INFO_T, "info")))
    # the item is advanced only when it is not complete
    from . import pathsig as PS
    RI_T = "gi.rule_infos[%s.rule_info_idx]" % INFO_T

    def evs(cn_, node):
        return [PS.Event("item", cn_.c(n), n) for n in walk(node) if A.is_call(n, q=P + "make_situation_idx")]
    loops = [n for n in walk(f.body) if n.get("k") == "CXXForRangeStmt" and A.contains(n, items[0])]
    conds, _ = PS.event_conditions(cn, loops[0]["body"] if loops else f.body, events_of=evs, unroll=1, drop=_drop_noise)
    cond = conds.get(("item", txt), set())
    if cond and PS.implies(cond, [("(%s.after < %s.r_elements)" % (INFO_T, RI_T), True)]):
        chk.ok("GOTO", site, "only incomplete items are moved over the symbol")
    else:
        chk.violation("GOTO", site, "GOTO:advance-complete-item", "a complete item is advanced (condition: %s)" % PS.show(cond)[:200])
    # state identification: an existing state is reused iff its kernel equals the new kernel
    eq = [n for n in walk(f.body) if n.get("k") == "CXXOperatorCallExpr" and n.get("op") == "=="]
    txts = [cn.c(n) for n in eq]
    if any(re.fullmatch(r"\(states\[@i\{0\.\.state_count\}\]\.kernel == \?\w+\)", t) for t in txts):
        chk.ok("GOTO", A.site(f, eq[0]), "target state = an existing state with an equal kernel, else a new one")
    else:
        chk.violation("GOTO", A.site(f), "GOTO:state-identity",
                      "states are not identified by comparing whole kernels with every existing state (%s)" % txts[:2])
    # kernel items enter the target state as kernel items
    adds = [cn.c(n) for n in walk(f.body) if A.is_call(n, q=SA + "add_situation")]
    if any(re.fullmatch(r"add_situation\(\?\w+, @each\{\?\w+\}, true\)", a) for a in adds):
        chk.ok("GOTO", A.site(f), "every kernel item is added to the target state as a kernel item")
    else:
        chk.violation("GOTO", A.site(f), "GOTO:kernel-added", "kernel items are not all added to the target state: %s" % adds)


def addsit_spec(chk, fx):
    chk.rule("ADDSIT", "add_situation files an item under the right column", 2)
    f = first_inst(fx, SA + "add_situation")
    cn = Canon(f)
    INFO_A = "make_situation_info($1)"
    RI_A = "gi.rule_infos[%s.rule_info_idx]" % INFO_A
    from . import pathsig as PS

    def evs(cn_, node):
        out = []
        for n in walk(node):
            if n.get("k") == "CXXMemberCallExpr" and (n.get("callee") or {}).get("n") == "push_back" and \
                    "situations_by_symbol" in cn_.c(A.call_object(n)):
                out.append(PS.Event("file", cn_.c(A.call_object(n)) + " <- " + cn_.c(A.call_args(n)[0]), n))
        return out
    conds, nodes = PS.event_conditions(cn, f.body, events_of=evs, unroll=1, drop=_drop_noise)
    NEW = ("simple_states[$0].test($1)", False)
    LT = "(%s.after < %s.r_elements)" % (INFO_A, RI_A)
    want = {
        "states[$0].situations_by_symbol[gi.right_sides[%s.r_idx][%s.after].get_parse_table_idx()] <- $1" % (RI_A, INFO_A):
            ((LT, True), "an incomplete item waits for the symbol after its dot"),
        "states[$0].situations_by_symbol[get_parse_table_idx(true, %s.t)] <- $1" % INFO_A:
            ((LT, False), "a complete item reduces on its lookahead"),
    }
    for col, (atom, why) in want.items():
        c = conds.get(("file", col))
        if c is not None and PS.equivalent(c, PS.dnf([NEW, atom])):
            chk.ok("ADDSIT", A.site(f, nodes[("file", col)]), why)
        else:
            chk.violation("ADDSIT", A.site(f), "ADDSIT:%s" % why.split(" ")[1],
                          "%s: expected the new item to be filed as %s exactly when %s%s; found %s" % (
                              why, col.replace(INFO_A, "info"), "" if atom[1] else "not ", atom[0].replace(INFO_A, "info"),
                              [(k[1].replace(INFO_A, "info")[:90], PS.show(v).replace(INFO_A, "info")[:120]) for k, v in conds.items()]))
    # membership test and kernel flag
    txt = [cn.c(n) for n in walk(f.body) if n.get("k") == "CXXMemberCallExpr" and (n.get("callee") or {}).get("n") in
           ("test", "set")]
    need = ["simple_states[$0].test($1)", "simple_states[$0].set($1)", "states[$0].kernel.set($1)"]
    missing = [t for t in need if t not in txt]
    if missing:
        chk.violation("ADDSIT", A.site(f), "ADDSIT:bookkeeping", "missing %s" % missing)


def root_spec(chk, fx):
    chk.rule("ROOT", "analyze_states: initial item and work-list", 3)
    f = first_inst(fx, SA + "analyze_states")
    cn = Canon(f)
    items = [cn.c(n) for n in walk(f.body) if A.is_call(n, q=P + "make_situation_idx")]
    if items == ["make_situation_idx(situation_info{root_rule_idx, 0, eof_idx})"]:
        chk.ok("ROOT", A.site(f), "initial item: root rule, dot 0, lookahead <eof>")
    else:
        chk.violation("ROOT", A.site(f), "ROOT:initial-item", "initial item is %s" % items)
    calls = [cn.c(n) for n in walk(f.body) if A.is_call(n) and n["callee"]["n"] in ("closure", "transitions")]
    okc = any(re.fullmatch(r"closure\(\?(\w+), states\[\?\1\]\.all_situations_vec\[@i\{0\.\.states\[\?\1\]"
                           r"\.all_situations_vec\.size\(\)\}\]\)", c) for c in calls)
    okt = any(re.fullmatch(r"transitions\(\?(\w+), @i\{0\.\.symbol_count\}, states\[\?\1\]\.situations_by_symbol"
                           r"\[@i\{0\.\.symbol_count\}\]\)", c) for c in calls)
    if okc:
        chk.ok("ROOT", A.site(f), "every item of a state (including those added while closing) is closed")
    else:
        chk.violation("ROOT", A.site(f), "ROOT:closure-worklist", "closure is not applied to every item of the growing "
                                                                  "item list: %s" % [c for c in calls if "closure" in c])
    if okt:
        chk.ok("ROOT", A.site(f), "transitions are computed for every symbol of every state")
    else:
        chk.violation("ROOT", A.site(f), "ROOT:all-symbols", "transitions not computed for every symbol: %s" %
                      [c for c in calls if "transitions" in c])
    wl = [cn.c(n["cond"]) for n in walk(f.body) if n.get("k") == "WhileStmt"]
    if not any(re.fullmatch(r"\(\?\w+ < state_count\)", w) for w in wl):
        chk.violation("ROOT", A.site(f), "ROOT:worklist", "states are not processed until no unprocessed state is left (%s)" % wl)


def all_table_rules(chk, fx):
    """Every structural rule about the table construction (used whole by C01, as necessary conditions by others)."""
    memos = memo_k(chk, fx)
    memo_p(chk, fx, memos)
    inj(chk, fx)
    scan(chk, fx, lambda q: q.startswith(P))
    closure_spec(chk, fx)
    suffix_specs(chk, fx)
    fixpoint_spec(chk, fx)
    goto_spec(chk, fx)
    addsit_spec(chk, fx)
    root_spec(chk, fx)
    from . import golden, goldenreg
    golden.group(chk, fx, "SORTSL", "reference summaries: stable sort of rule_infos and the per-nonterminal rule slices",
                 goldenreg.GROUPS["SORTSL"])
    from . import deporder
    deporder.group(chk, fx, "DEPORD-T", "dependence order of statements in the table construction",
                   goldenreg.DEP_GROUPS["TAB"])
