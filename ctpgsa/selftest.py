"""Checker self-test (thorough tier): the recorded corpus of breaking changes (seeded/, selftest/mutants/) and of
behaviour-preserving refactorings (selftest/benign/) is replayed against scratch copies of the CURRENT tree. A breaking
change that this property's check is recorded to catch must still be reported (exit 1); a benign one must stay silent
(exit 0). A mismatch means the checker, not the code, is unreliable on this tree: exit 2. Never touches /repo."""
import concurrent.futures as cf
import glob
import json
import os
import shutil
import subprocess
import sys
import tempfile

from .facts import VERIF, REPO, AnalysisIncomplete


def corpus():
    out = []
    for d in sorted(glob.glob(os.path.join(VERIF, "seeded", "*"))):
        p = os.path.join(d, "patch.diff")
        if os.path.exists(p):
            out.append(("seeded/" + os.path.basename(d), p, "mutant"))
    for p in sorted(glob.glob(os.path.join(VERIF, "selftest", "mutants", "*.patch"))):
        out.append(("selftest/" + os.path.basename(p)[:-6], p, "mutant"))
    for p in sorted(glob.glob(os.path.join(VERIF, "selftest", "benign", "*.patch"))):
        out.append(("benign/" + os.path.basename(p)[:-6], p, "benign"))
    return out


def _one(args):
    name, patch, pid = args
    d = tempfile.mkdtemp(prefix="ctpgsa-st-")
    try:
        for sub in ("include",):
            shutil.copytree(os.path.join(REPO, sub), os.path.join(d, sub))
        r = subprocess.run(["patch", "-p1", "-s", "--no-backup-if-mismatch", "-i", patch], cwd=d,
                           stdout=subprocess.PIPE, stderr=subprocess.STDOUT, text=True)
        if r.returncode != 0:
            return name, None, "does not apply to the current tree"
        env = dict(os.environ, CTPG_REPO=d, CTPGSA_EVIDENCE_DIR=os.path.join(d, "evidence"), VERIF_TIER="quick")
        r = subprocess.run([sys.executable, os.path.join(VERIF, "ctpgsa", "check.py"), pid, "--tier", "quick"], env=env,
                           stdout=subprocess.PIPE, stderr=subprocess.STDOUT, text=True, cwd=VERIF)
        rules = sorted({l.split("[")[1].split("]")[0] for l in r.stdout.splitlines() if l.strip().startswith("violation [")})
        return name, r.returncode, ",".join(rules)
    finally:
        shutil.rmtree(d, ignore_errors=True)


def run(chk, pid, jobs=12):
    mx_path = os.path.join(VERIF, "selftest", "matrix.json")
    if not os.path.exists(mx_path):
        chk.note("self-test corpus matrix missing: skipped")
        return
    mx = json.load(open(mx_path))
    todo = []
    expect = {}
    for name, patch, kind in corpus():
        rec = (mx.get(name) or {}).get("results", {}).get(pid)
        if kind == "mutant":
            if rec is None or rec.get("rc") != 1:
                continue                      # this property's check is not the one recorded to catch it
            expect[name] = 1
        else:
            expect[name] = 0
        todo.append((name, patch, pid))
    chk.rule("SELFTEST", "recorded breaking changes still reported / benign refactorings still silent", 1)
    bad = []
    skipped = 0
    with cf.ThreadPoolExecutor(max_workers=jobs) as ex:
        for name, rc, info in ex.map(_one, todo):
            if rc is None:
                skipped += 1
                continue
            if rc == expect[name] or (expect[name] == 0 and rc == 2):
                # a benign refactoring must never be reported; "cannot analyse" (exit 2) is not a report
                chk.ok("SELFTEST", name, "exit %d%s" % (rc, (" (" + info + ")") if info else ""))
            else:
                bad.append("%s: exit %s, recorded %d %s" % (name, rc, expect[name], info))
    chk.note("self-test: %d replayed, %d skipped (patch does not apply to this tree), %d mismatches" % (
        len(todo) - skipped, skipped, len(bad)))
    if bad:
        raise AnalysisIncomplete("checker self-test failed on this tree: " + "; ".join(bad[:6]))
