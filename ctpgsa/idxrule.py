"""Shared reporting of the IDX (index-space typing) analysis for the properties that rely on it."""
from . import idx as IDX

_cache = {}


def analysis(fx):
    k = id(fx)
    if k not in _cache:
        ix = IDX.Idx(fx)
        missing = ix.check_seed_anchors()
        ix.missing = missing
        if not missing:
            ix.run()
        _cache[k] = ix
    return _cache[k]


def report(chk, fx, scope, what, minimum=5):
    """Report IDX conflicts whose site lies in a function selected by scope(qname). One obligation per function in
    scope (its subscripts/arguments typed consistently)."""
    ix = analysis(fx)
    if ix.missing:
        chk.incomplete("IDX seed anchors vanished from the header: %s" % ", ".join(ix.missing[:6]))
    if ix.n_subscripts < 500 or ix.S.unions < 200:
        chk.incomplete("IDX analysed only %d subscripts / %d unifications: extraction is incomplete" %
                       (ix.n_subscripts, ix.S.unions))
    chk.rule("IDX", "functions whose index expressions are typed consistently (%s)" % what, minimum)
    bad_fns = set()
    for c in ix.S.conflicts:
        site = c["site"] or ""
        q = site.split(" ")[-1] if site else ""
        if not scope(q):
            continue
        bad_fns.add(q)
        key = "IDX:%s:%s~%s" % (q, *sorted((c["a"], c["b"])))
        chk.violation("IDX", site, key,
                      "an index of space %s meets one of space %s (%s). %s: %s | %s: %s" % (
                          c["a"], c["b"], c["via"][:120], c["a"], (c["why_a"] or "")[:160], c["b"],
                          (c["why_b"] or "")[:160]))
    seen = set()
    for fn in fx.all_fns():
        q = fn.o["q"]
        if fn.is_pattern or not ix.in_scope(fn) or not scope(q) or q in seen or q in bad_fns:
            continue
        seen.add(q)
        chk.ok("IDX", "include/ctpg/ctpg.hpp:%s %s" % (fn.o["l"], q), "index spaces consistent")
    chk.note("IDX: %d functions, %d subscripts, %d unifications, %d seeds, %d printed labels; tag reads without a "
             "dominating tag test (left untyped): %s" % (
                 ix.n_functions, ix.n_subscripts, ix.S.unions, ix.n_seeds, ix.n_print_labels,
                 sorted({(a.split("::")[-1], c.split("::")[-1]) for a, b, c in ix.unknown_tag_reads})))
    return ix
