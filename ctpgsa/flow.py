"""Structured control flow over the extracted trees.

The header uses only if/else, for, range-for, while, break, continue, return, throw and ?: (asserted by
`assert_structured`; a goto/switch/try/do makes path rules refuse to analyse instead of guessing).

A *path* is a list of events:
   ("stmt", node)            an expression statement or a declaration (executed completely)
   ("cond", node, outcome)   an atomic branch condition (operands of && / || / ! are split) and its outcome
   ("enter", loopnode) / ("leave", loopnode)
   ("return", node) ("throw", node) ("break", node) ("continue", node)
and ends in one of: "fall", "return", "throw", "break", "continue".
Loops are unrolled `unroll` times (default: 0 or 1 iteration); every rule that uses paths states why that is
enough for what it decides.
"""
from .facts import AnalysisIncomplete, strip, walk

FORBIDDEN = {"GotoStmt", "SwitchStmt", "CXXTryStmt", "LabelStmt", "IndirectGotoStmt", "CoroutineBodyStmt",
             "SEHTryStmt", "GCCAsmStmt", "MSAsmStmt"}


def assert_structured(fn):
    for n in walk(fn.body):
        if n.get("k") in FORBIDDEN:
            raise AnalysisIncomplete("%s contains a %s at %s: structured-control-flow precondition of the path rules "
                                     "does not hold" % (fn.o["q"], n["k"], n.get("l")))


def cond_atoms(e, want):
    """Expand a condition into alternatives; each alternative is a list of (atom, outcome) that makes the whole
    condition evaluate to `want`, in evaluation order (short-circuit respected)."""
    s = strip(e)
    if s is not None and s.get("k") == "BinaryOperator" and s.get("op") in ("&&", "||"):
        a, b = s["c"]
        if s["op"] == "&&":
            if want:
                return [x + y for x in cond_atoms(a, True) for y in cond_atoms(b, True)]
            return cond_atoms(a, False) + [x + y for x in cond_atoms(a, True) for y in cond_atoms(b, False)]
        else:
            if want:
                return cond_atoms(a, True) + [x + y for x in cond_atoms(a, False) for y in cond_atoms(b, True)]
            return [x + y for x in cond_atoms(a, False) for y in cond_atoms(b, False)]
    if s is not None and s.get("k") == "UnaryOperator" and s.get("op") == "!":
        return cond_atoms(s["c"][0], not want)
    if s is not None and s.get("k") == "CXXBoolLiteralExpr":
        return [[]] if bool(s.get("v")) == want else []
    return [[("cond", e, want)]]


class Limit(Exception):
    pass


def paths(stmt, unroll=1, limit=20000):
    """All paths through a statement. Returns list of (events, terminator)."""
    out = _paths(stmt, unroll)
    if len(out) > limit:
        raise AnalysisIncomplete("more than %d paths through one function: refusing to enumerate" % limit)
    return out


def _seq(stmts, unroll):
    res = [([], "fall")]
    for s in stmts:
        nxt = []
        sub = None
        for ev, term in res:
            if term != "fall":
                nxt.append((ev, term))
                continue
            if sub is None:
                sub = _paths(s, unroll)
            for ev2, term2 in sub:
                nxt.append((ev + ev2, term2))
        res = nxt
        if len(res) > 200000:
            raise AnalysisIncomplete("path explosion")
    return res


def _paths(s, unroll):
    if s is None:
        return [([], "fall")]
    k = s.get("k")
    if k in FORBIDDEN:
        raise AnalysisIncomplete("unsupported control construct %s at %s" % (k, s.get("l")))
    if k == "CompoundStmt":
        return _seq(s.get("c") or [], unroll)
    if k == "IfStmt":
        res = []
        pre = [("stmt", s["init"])] if s.get("init") else []
        if s.get("constexpr") and s.get("taken"):
            arm = s.get(s["taken"]) if s["taken"] in ("then", "else") else None
            for ev, t in _paths(arm, unroll):
                res.append((pre + ev, t))
            return res
        for alt in cond_atoms(s["cond"], True):
            for ev, t in _paths(s.get("then"), unroll):
                res.append((pre + alt + ev, t))
        for alt in cond_atoms(s["cond"], False):
            for ev, t in _paths(s.get("else"), unroll):
                res.append((pre + alt + ev, t))
        return res
    if k in ("WhileStmt", "ForStmt", "CXXForRangeStmt"):
        return _loop(s, unroll)
    if k == "DoStmt":
        return _do_loop(s, unroll)
    if k == "ReturnStmt":
        return [([("return", s)], "return")]
    if k == "BreakStmt":
        return [([("break", s)], "break")]
    if k == "ContinueStmt":
        return [([("continue", s)], "continue")]
    if k == "NullStmt":
        return [([], "fall")]
    if k == "CXXThrowExpr":
        return [([("throw", s)], "throw")]
    if k == "ExprWithCleanups" and strip(s).get("k") == "CXXThrowExpr":
        return [([("throw", strip(s))], "throw")]
    return [([("stmt", s)], "fall")]


def _loop(s, unroll):
    """Executions with at most `unroll` iterations. A loop without a syntactic exit condition (while(true),
    for(;;)) additionally yields, for every way of completing `unroll` iterations, an open path ending in
    ("again", loop) so that callers see that the loop goes on."""
    k = s["k"]
    pre = []
    if k == "ForStmt" and s.get("init"):
        pre.append(("stmt", s["init"]))
    if k == "CXXForRangeStmt" and s.get("range"):
        pre.append(("stmt", s["range"]))
    cond = s.get("cond")
    inc = [("stmt", s["inc"])] if k == "ForStmt" and s.get("inc") else []
    body = _paths(s.get("body"), unroll)
    if k == "CXXForRangeStmt":
        exits, enters = [[]], [[]]
    elif cond is None:
        exits, enters = [], [[]]
    else:
        exits, enters = cond_atoms(cond, False), cond_atoms(cond, True)

    results = []
    prefixes = [pre + [("enter", s)]]
    for it in range(unroll + 1):
        for p in prefixes:
            for alt in exits:
                results.append((p + alt + [("leave", s)], "fall"))
        if it == unroll:
            if not exits:
                for p in prefixes:
                    results.append((p + [("again", s)], "fall"))
            break
        nxt = []
        for p in prefixes:
            for alt in enters:
                for ev, t in body:
                    if t in ("fall", "continue"):
                        nxt.append(p + alt + ev + inc)
                    elif t == "break":
                        results.append((p + alt + ev + [("leave", s)], "fall"))
                    else:
                        results.append((p + alt + ev, t))
        prefixes = nxt
        if len(prefixes) + len(results) > 200000:
            raise AnalysisIncomplete("path explosion in loop")
    return results


def _do_loop(s, unroll):
    """do { body } while (cond): the body runs once before the first test; at most `unroll` + 1 iterations."""
    cond = s.get("cond")
    body = _paths(s.get("body"), unroll)
    exits = cond_atoms(cond, False)
    enters = cond_atoms(cond, True)
    results = []
    prefixes = [[("enter", s)]]
    for it in range(unroll + 1):
        nxt = []
        for p in prefixes:
            for ev, t in body:
                if t in ("fall", "continue"):
                    for alt in exits:
                        results.append((p + ev + alt + [("leave", s)], "fall"))
                    for alt in enters:
                        nxt.append(p + ev + alt)
                elif t == "break":
                    results.append((p + ev + [("leave", s)], "fall"))
                else:
                    results.append((p + ev, t))
        prefixes = nxt
    if not exits:
        for p in prefixes:
            results.append((p + [("again", s)], "fall"))
    return results


def loop_body_paths(loop, unroll=1):
    """Paths through ONE iteration of a loop body: terminators fall/continue (next iteration), break, return, throw."""
    return paths(loop.get("body"), unroll)


def events_nodes(ev):
    """All expression trees mentioned by an event list, in order."""
    for e in ev:
        if e[0] in ("stmt", "cond", "return", "throw"):
            yield e[0], e[1]


def index_of(ev, pred):
    for i, e in enumerate(ev):
        if pred(e):
            return i
    return -1


def parent_map(root):
    """node id -> parent node for every node of a tree."""
    pm = {}
    stack = [root]
    from .facts import kids
    while stack:
        x = stack.pop()
        for c in kids(x):
            pm[id(c)] = x
            stack.append(c)
    return pm
