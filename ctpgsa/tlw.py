"""Type-level witnesses: translation units of static_asserts over decltype (witness/typelevel/*.cpp), compiled with
-fsyntax-only and never run. Every assertion is one obligation; a failing assertion is a violation whose text is the
assertion's own message. They need only the header (not the witness grammars), so they run in the pre-phase of a check:
a change that also stops a witness grammar from compiling is still reported."""
import os
import re
import subprocess

from .facts import REPO, WITNESS_DIR


def run(chk, rule, fname, compilers=("clang++",)):
    if rule in chk.rules:
        return
    src = os.path.join(WITNESS_DIR, "typelevel", fname)
    text = open(src).read()
    asserts = re.findall(r'static_assert\((?:[^;]|\n)*?"(%s: [^"]*)"\);' % re.escape(rule), text)
    chk.rule(rule, "type-level assertions of witness/typelevel/%s" % fname, len(asserts))
    failed = {}
    other = []
    for cxx in compilers:
        r = subprocess.run([cxx, "-std=gnu++17", "-I" + os.path.join(REPO, "include"), "-fsyntax-only",
                            "-ferror-limit=0" if "clang" in cxx else "-fmax-errors=0", src],
                           stdout=subprocess.PIPE, stderr=subprocess.STDOUT, text=True)
        for line in r.stdout.splitlines():
            if "error" not in line:
                continue
            m = re.search(r'(%s: [^"\']*)' % re.escape(rule), line)
            if m and ("static_assert" in line or "static assertion" in line):
                failed.setdefault(m.group(1).strip(), (cxx, line.strip()[:300]))
            elif fname in line or "ctpg.hpp" in line:
                other.append("%s: %s" % (cxx, line.strip()[:200]))
    for msg in asserts:
        site = "witness/typelevel/%s" % fname
        if msg in failed:
            chk.violation(rule, site, "%s:%s" % (rule, re.sub(r"[^A-Za-z0-9]+", "-", msg[len(rule) + 2:])[:60]),
                          "type-level fact no longer holds: %s (%s)" % (msg[len(rule) + 2:], failed[msg][0]))
        else:
            chk.ok(rule, site, msg[len(rule) + 2:])
    if other and not failed:
        chk.defer_incomplete("%s: witness/typelevel/%s does not compile for another reason: %s" % (rule, fname, other[0]))
