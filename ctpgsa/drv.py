"""DRV — finite-domain abstract interpretation of ONE iteration of the table-driven driver loop of
parser::context_parse, with the helper members inlined (mode setters, pop_stacks, consume_term_recovering) and the
actions that change the stacks or the input position or write a report logged as events.

Abstract input of an iteration: (recovery_mode, consume_mode) x kind of the looked-up entry x lexer failure x
{stack empty after a pop} x {pending term is <eof>}. Output: next modes, ordered action log, loop exit.
The extracted transition relation is compared with the documented algorithm (DESIGN.md appendix B) by the
properties C08 and C09.
"""
from . import astq as A
from . import flow
from . import fdi
from . import absint as AI
from .facts import walk, strip, AnalysisIncomplete

P = "ctpg::parser::"
PS = "ctpg::detail::parse_state::"
KIND = ("f", P + "parse_table_entry::kind")
RM = ("f", PS + "recovery_mode")
CM = ("f", PS + "consume_mode")

LEAF_ACTIONS = {
    P + "syntax_error": "report",
    P + "unexpected_char": "lexreport",
    P + "reduce": "reduce",
    P + "shift": "shift",
    P + "shift_recovery_token": "shift-error-token",
    P + "consume_term": "consume",
    P + "success": "success",
}


class DrvHooks(fdi.Inliner):
    def __init__(self, facts, case, eof_value):
        super().__init__(facts)
        self.case = case
        self.eof_value = eof_value

    def untracked(self, key):
        return key[0] == "f" and key not in (KIND, RM, CM)

    def leaf(self, q, node, st):
        if q in LEAF_ACTIONS:
            return [fdi.log(st, LEAF_ACTIONS[q])]
        if q == P + "get_current_term":
            s = dict(st)
            s[("ret", q)] = 65535 if self.case["lexfail"] else 7
            return [s]
        c = node.get("callee") or {}
        if node.get("k") == "CXXMemberCallExpr" and c.get("n") in ("pop_back", "push_back", "emplace_back", "erase",
                                                                   "clear"):
            names = A.field_names(A.access_path(A.call_object(node)))
            which = "cursor" if "cursor_stack" in names else ("value" if "value_stack" in names else None)
            if which:
                act = {"pop_back": "pop", "push_back": "push", "emplace_back": "push", "erase": "erase",
                       "clear": "clear"}[c["n"]]
                return [fdi.log(st, "%s-%s" % (act, which))]
        return None

    def skip(self, q):
        return q.startswith("std::") or q.startswith("ctpg::stdex::") or q.startswith("ctpg::utils::")

    def oracle(self, rel, st):
        def fields(t):
            return [c[1] for c in t[2] if c[0] == "field"] if t[0] == "path" else []
        if rel[0] in ("truth", "false"):
            t = rel[1]
            if t[0] == "path" and fields(t) and fields(t)[-1].endswith("::verbose"):
                return False if rel[0] == "truth" else True
            # ps.cursor_stack.empty()
            if t[0] == "call" and (t[1] or "").endswith("::empty") and t[2] and t[2][0][0] == "path":
                fl = fields(t[2][0])
                if fl and fl[-1] == PS + "cursor_stack":
                    e = self.case["empty"]
                    return e if rel[0] == "truth" else not e
            return None
        a, b = rel[2], rel[3]
        # ps.cursor_stack.size() == 0  /  ps.value_stack.size() != 0
        for x, y in ((a, b), (b, a)):
            if x[0] == "call" and (x[1] or "").endswith("::size") and y == ("const", 0) and x[2] and \
                    x[2][0][0] == "path":
                fl = fields(x[2][0])
                if fl and fl[-1] == PS + "cursor_stack":
                    e = self.case["empty"]
                    return {"==": e, "!=": not e}.get(rel[1])
                return None
            if x[0] == "call" and (x[1] or "").endswith("::empty"):
                return None
        # ps.current_term_idx == eof_idx
        for x, y in ((a, b), (b, a)):
            if x[0] == "path" and fields(x) and fields(x)[-1] == PS + "current_term_idx" and \
                    (y[0] == "const" or (y[0] == "path" and "eof_idx" in y[1])):
                e = self.case["eof"]
                return {"==": e, "!=": not e}.get(rel[1])
        return None


def driver_loop(f):
    loops = [s for s in (f.body.get("c") or []) if s.get("k") == "WhileStmt"]
    if len(loops) != 1:
        raise AnalysisIncomplete("context_parse: expected exactly one driver loop, found %d" % len(loops))
    lp = loops[0]
    if flow.cond_atoms(lp["cond"], False):
        raise AnalysisIncomplete("context_parse: the driver loop has a syntactic exit condition (unrecognised shape)")
    return lp


def transition_table(fx, f):
    """{(R, C, kind, lexfail, empty, eof): set of (R', C', log, exit)} for one driver instantiation f."""
    flow.assert_structured(f)
    lp = driver_loop(f)
    kinds = fx.enum(P + "parse_table_entry_kind")
    body_paths = flow.paths(lp["body"], unroll=1)
    table = {}
    for R in (0, 1):
        for C in (0, 1):
            for kname, kval in kinds.items():
                for lexfail in (0, 1):
                    for empty in (0, 1):
                        for eof in (0, 1):
                            case = {"lexfail": lexfail, "empty": bool(empty), "eof": bool(eof)}
                            hooks = DrvHooks(f.facts, case, None)
                            st0 = {KIND: kval, RM: R, CM: C}
                            outs = set()
                            for ev, term_ in body_paths:
                                for o in fdi.exec_events(ev, st0, hooks):
                                    outs.add((o.get(RM), o.get(CM), o.get(("log",), ()),
                                              "next" if term_ in ("fall", "continue") else term_))
                            table[(R, C, kname, lexfail, empty, eof)] = outs
    return table, lp


def reachable_modes(table):
    """Mode pairs reachable from (0,0) through iterations that continue."""
    seen = {(0, 0)}
    work = [(0, 0)]
    while work:
        R, C = work.pop()
        for (r, c, k, lf, em, eo), outs in table.items():
            if (r, c) != (R, C):
                continue
            if R == 1 and lf:
                continue        # the lexer is not consulted in recovery mode
            for (r2, c2, log_, ex) in outs:
                if ex == "next" and (r2, c2) not in seen:
                    seen.add((r2, c2))
                    work.append((r2, c2))
    return seen


def gct_summary(fx, f):
    """Abstract behaviour of get_current_term: {(R, pending, at_end, lexfail): set of (result, log)}."""
    flow.assert_structured(f)
    res = {}
    paths = flow.paths(f.body, unroll=1)
    for R in (0, 1):
        for pending in (0, 1):
            for at_end in (0, 1):
                for lexfail in (0, 1):
                    hooks = GctHooks(f.facts, {"pending": pending, "at_end": at_end, "lexfail": lexfail})
                    outs = set()
                    for ev, term_ in paths:
                        if term_ != "return":
                            outs.add(("no-return", ()))
                            continue
                        for o in fdi.exec_events(ev, {RM: R}, hooks):
                            v = ev[-1][1].get("value")
                            t = AI.term(v)
                            if t[0] == "const":
                                r = "sentinel" if t[1] == 65535 else "const:%d" % t[1]
                            else:
                                r = AI.tstr(t)
                            nm = _const_name(v)
                            if nm:
                                r = nm
                            outs.add((r, o.get(("log",), ())))
                    res[(R, pending, at_end, lexfail)] = outs
    return res


def _const_name(v):
    s = strip(v, casts=True)
    if s is not None and s.get("k") == "DeclRefExpr" and s["d"]["k"] == "Var" and "cv" in s["d"]:
        return s["d"]["n"]
    return None


class GctHooks(fdi.Inliner):
    def __init__(self, facts, case):
        super().__init__(facts)
        self.case = case

    def untracked(self, key):
        return key[0] == "f" and key not in (RM, CM, ("f", PS + "current_term_idx"))

    def skip(self, q):
        return q.startswith("std::") or q.startswith("ctpg::stdex::") or q.startswith("ctpg::utils::") or \
            q.startswith("ctpg::regex::") or q.startswith("ctpg::source_point") or \
            q.startswith("ctpg::recognized_term") or q.startswith("ctpg::match_options") or \
            q.startswith("ctpg::buffers::")

    def leaf(self, q, node, st):
        if q == P + "unexpected_char":
            return [fdi.log(st, "lexreport")]
        if q == P + "skip_whitespace":
            return [fdi.log(st, "skip-ws")]
        if q == "ctpg::regex::dfa_match" or (q or "").endswith("::match"):
            return [fdi.log(st, "lex")]
        if q == "ctpg::source_point::update":
            return [fdi.log(st, "sp-update")]
        return None

    def oracle(self, rel, st):
        def fields(t):
            return [c[1] for c in t[2] if c[0] == "field"] if t[0] == "path" else []
        if rel[0] in ("truth", "false"):
            t = rel[1]
            if t[0] == "path" and fields(t):
                if fields(t)[-1].endswith("::verbose"):
                    return rel[0] != "truth"
                if fields(t)[-1].endswith("::skip_whitespace"):
                    return None
            return None
        a, b = rel[2], rel[3]
        fa, fb = fields(a), fields(b)
        pair = {fa[-1] if fa else None, fb[-1] if fb else None}
        if pair == {PS + "current_it", PS + "current_end_it"}:
            p = bool(self.case["pending"])
            return {"!=": p, "==": not p}.get(rel[1])
        if pair == {PS + "current_it", PS + "buffer_end"}:
            e = bool(self.case["at_end"])
            return {"==": e, "!=": not e}.get(rel[1])
        # ps.current_term_idx == uninitialized16 / res.term_idx == uninitialized16
        for x, y in ((a, b), (b, a)):
            if y == ("const", 65535) and x[0] == "path":
                fl = fields(x)
                if fl and (fl[-1] == PS + "current_term_idx" or fl[-1] == "ctpg::recognized_term::term_idx"):
                    lf = bool(self.case["lexfail"])
                    return {"==": lf, "!=": not lf}.get(rel[1])
        return None
