"""TIX — template-index agreement on the patterns: the slot written and the template argument of what is stored in it
are the same parameter / the same pack element, and per-term / per-rule work is an ordered comma fold."""
from . import astq as A
from .facts import walk, strip

P = "ctpg::parser::"


def report(chk, fx):
    chk.rule("TIX", "template-index sites", 6)
    # ---- on instantiations (fully resolved): slot index == template argument of the stored function
    seen = set()
    for q, arr, stored in ((P + "analyze_term", "term_ftors", "string_view_to_term_value"),
                           ("ctpg::detail::value_reductors::init_nth_reductor", "reductors", "reduce_value")):
        for f in fx.need(q):
            targs = (f.o.get("targs") or "").split(" | ")
            slot = targs[0].strip() if targs else None
            n_assign = 0
            for n, target, op in A.writes(f.body):
                p = A.access_path(target)
                if not (p and any(c[0] == "field" and c[2] == arr for c in p)):
                    continue
                n_assign += 1
                idx = [c for c in p if c[0] == "index"]
                iv = _const(idx[-1][1]) if idx else None
                fnref = None
                for m in walk(n["c"][1] if n.get("k") == "BinaryOperator" else n):
                    if m.get("k") == "DeclRefExpr" and m["d"]["n"] == stored:
                        g = f.facts.by_id.get(m["d"]["id"])
                        fnref = g
                site = A.site(f, n)
                if fnref is None:
                    chk.violation("TIX", site, "TIX:%s:stored-function" % f.o["n"],
                                  "%s[...] is not assigned an instantiation of %s" % (arr, stored))
                    continue
                first = (fnref.o.get("targs") or "").split(" | ")[0].strip()
                a, b = _num(first), iv
                if a is not None and b is not None and a == b and _num(slot) == b:
                    if (q, "slot") not in seen:
                        seen.add((q, "slot"))
                        chk.ok("TIX", site, "%s[I] = %s<I,...> with the same I as the function's own template index" % (arr, stored))
                else:
                    chk.violation("TIX", site, "TIX:%s:index-mismatch" % f.o["n"],
                                  "%s[%s] receives %s<%s> in the instantiation for index %s" % (arr, b, stored, first, slot))
            if n_assign != 1:
                chk.incomplete("%s: expected one assignment to %s, found %d" % (q, arr, n_assign))
    # ---- on patterns: ordered folds over the index pack
    for q, callee in ((P + "analyze_terms", "analyze_term"), (P + "analyze_rules", "analyze_rule"),
                      (P + "analyze_nterms", "analyze_nterm"), (P + "create_lexer", "add_term_data_to_dfa"),
                      ("ctpg::detail::value_reductors::init_reductors", "init_nth_reductor")):
        pats = fx.fns(q, patterns=True, insts=False)
        if not pats:
            chk.incomplete("pattern of %s not found" % q)
        f = pats[0]
        folds = [n for n in walk(f.body) if n.get("k") == "CXXFoldExpr"]
        good = [n for n in folds if n.get("op") == "," and any(
            (m.get("name") == callee or m.get("member") == callee) for m in walk(n.get("pattern")))]
        if good:
            chk.ok("TIX", A.site(f, good[0]), "%s is applied per pack element by a comma fold (evaluated in order)" % callee)
        else:
            chk.violation("TIX", A.site(f), "TIX:%s:not-an-ordered-fold" % f.o["n"],
                          "%s is not applied through a comma fold over the index pack: evaluation order / coverage of "
                          "the pack is not guaranteed" % callee)
    # ---- std::get<I> agrees with the index handed to the callee (instantiations of the folds)
    for q, callee, argpos in ((P + "analyze_terms", "analyze_term", None), (P + "analyze_nterms", "analyze_nterm", 1),
                              (P + "create_lexer", "add_term_data_to_dfa", 2)):
        for f in fx.need(q)[:8]:
            for n in walk(f.body):
                if not (A.is_call(n) and n["callee"]["n"] == callee):
                    continue
                gets = [m for m in walk(n) if A.is_call(m) and m["callee"]["n"] == "get" and m["callee"]["q"].startswith("std::")]
                if not gets:
                    continue
                g = f.facts.by_id.get(gets[0]["callee"]["id"])
                gi = None
                # template argument of std::get is visible in the callee's type: use the instantiated callee's targs
                ct = n["callee"]
                if argpos is None:
                    h = f.facts.by_id.get(ct["id"])
                    want = _num((h.o.get("targs") or "").split(" | ")[0]) if h is not None else None
                else:
                    want = _const(A.call_args(n)[argpos])
                got = _get_index(f, gets[0])
                site = A.site(f, n)
                if want is not None and got is not None and want == got:
                    if (q, "get") not in seen:
                        seen.add((q, "get"))
                        chk.ok("TIX", site, "std::get<I>(tuple) is paired with index I in %s" % callee)
                elif want is not None and got is not None:
                    chk.violation("TIX", site, "TIX:%s:get-index" % f.o["n"],
                                  "element %s of the tuple is analysed as index %s" % (got, want))


def _get_index(f, getcall):
    """The I of std::get<I>(...) (first template argument of the resolved callee)."""
    return _num(getcall["callee"].get("ta0"))


def _const(n):
    from . import absint as AI
    return AI.const_of(n)


def _num(s):
    if s is None:
        return None
    s = s.strip()
    if s.startswith("(") and ")" in s:
        s = s[s.index(")") + 1:]
    s = s.strip().rstrip("UL").rstrip("ul")
    try:
        return int(s)
    except ValueError:
        return None
