"""Finite-domain abstract interpretation of structured paths.

State: mapping key -> value, where key is ("v", decl-id) for a scalar local / parameter or ("f", field-qname) for
a field (object-insensitive: the functions interpreted here touch one object of each record), and value is an
int (constants, enum values, booleans) or an opaque token. Conditions whose operands are all known are decided;
the others are handed to a rule-specific oracle; if that does not know either, both outcomes stay feasible
(over-approximation). Calls are handed to a rule-specific hook, which may fork the state (e.g. the result of
solve_conflict is either shift or reduce).
"""
from . import absint as AI
from . import astq as A
from .facts import strip


class Hooks:
    def oracle(self, rel, state):
        """rel = ("cmp", op, ta, tb) | ("truth", t) | ("false", t): True / False / None (unknown)."""
        return None

    def call_value(self, q, node, state):
        """Abstract values a call may return: list of values, or None for 'opaque'."""
        return None

    def call_effect(self, q, node, state):
        """Effect of a call evaluated for its side effects: list of successor states, or None (no effect)."""
        return None

    def untracked(self, key):
        return False

    def aggregate_assign(self, rhs, state):
        """`x = T{...}` for a record whose fields are tracked: the new state, or None when not applicable."""
        return None


def key_of(p):
    if not p:
        return None
    last = p[-1]
    if last[0] == "field":
        return ("f", last[1])
    if len(p) == 1 and last[0] == "var":
        return ("v", last[1])
    return None


def evaluate(t, st, hooks):
    """Abstract value of a term: int, or an opaque tuple."""
    if t[0] == "const":
        return t[1]
    if t[0] == "path":
        k = key_of(t[2])
        if k is not None and k in st:
            return st[k]
        return ("opaque", AI.tstr(t))
    if t[0] == "un" and t[1] == "!":
        v = evaluate(t[2], st, hooks)
        if isinstance(v, int):
            return 0 if v else 1
        r = hooks.oracle(("truth", t[2]), st)
        if r is not None:
            return 0 if r else 1
        return ("opaque", AI.tstr(t))
    if t[0] == "cond":
        c = evaluate(t[1], st, hooks)
        if isinstance(c, int):
            return evaluate(t[2] if c else t[3], st, hooks)
        r = hooks.oracle(("truth", t[1]), st)
        if r is not None:
            return evaluate(t[2] if r else t[3], st, hooks)
        return ("opaque", AI.tstr(t))
    if t[0] == "bin" and t[1] in ("==", "!=", "<", ">", "<=", ">="):
        a, b = evaluate(t[2], st, hooks), evaluate(t[3], st, hooks)
        if isinstance(a, int) and isinstance(b, int):
            return 1 if _cmp(t[1], a, b) else 0
        r = hooks.oracle(("cmp", t[1], t[2], t[3]), st)
        if r is not None:
            return 1 if r else 0
        return ("opaque", AI.tstr(t))
    if t[0] == "call" and ("ret", t[1]) in st:
        return st[("ret", t[1])]
    if t[0] == "call":
        r = hooks.oracle(("truth", t), st)
        if r is not None:
            return 1 if r else 0
    return ("opaque", AI.tstr(t))


def _cmp(op, a, b):
    return {"==": a == b, "!=": a != b, "<": a < b, ">": a > b, "<=": a <= b, ">=": a >= b}[op]


def decide(cond, outcome, st, hooks):
    """Is `cond` evaluating to `outcome` consistent with the state?  True / False (infeasible) / None (unknown)."""
    a = AI.atom(cond)
    if a[0] == "cmp":
        x, y = evaluate(a[2], st, hooks), evaluate(a[3], st, hooks)
        if isinstance(x, int) and isinstance(y, int):
            return _cmp(a[1], x, y) == outcome
        r = hooks.oracle(a, st)
        if r is None:
            return None
        return r == outcome
    v = evaluate(a[1], st, hooks)
    if isinstance(v, int):
        return bool(v) == outcome
    r = hooks.oracle(a, st)
    if r is None:
        return None
    return r == outcome


def exec_events(ev, st, hooks):
    """Run one path from state st. Returns the list of resulting states (empty when the path is infeasible)."""
    states = [dict(st)]
    for e in ev:
        if e[0] == "cond":
            pre = []
            for s in states:
                pre += _call_effects(e[1], s, hooks)
            states = pre
            nxt = []
            for s in states:
                d = decide(e[1], e[2], s, hooks)
                if d is False:
                    continue
                if d is None:
                    # learn equalities with constants
                    a = AI.atom_with_outcome(e[1], e[2])
                    if a[0] == "cmp" and a[1] == "==":
                        for x, y in ((a[2], a[3]), (a[3], a[2])):
                            if x[0] == "path" and y[0] == "const":
                                k = key_of(x[2])
                                if k is not None and not hooks.untracked(k):
                                    s = dict(s)
                                    s[k] = y[1]
                nxt.append(s)
            states = nxt
        elif e[0] == "stmt":
            nxt = []
            for s in states:
                nxt += exec_stmt(e[1], s, hooks)
            states = nxt
        if not states:
            return []
    return states


def exec_stmt(stmt, st, hooks):
    states = [st]
    for eff in AI.effects(stmt):
        nxt = []
        for s in states:
            if eff[0] == "decl":
                d = eff[1]
                k = ("v", d["id"])
                if hooks.untracked(k):
                    nxt.append(s)
                    continue
                init = d.get("init")
                vals = _values(init, s, hooks) if init is not None else [("opaque", "uninit")]
                for v in vals:
                    s2 = dict(s)
                    s2[k] = v
                    nxt.append(s2)
            elif eff[0] == "set":
                k = key_of(eff[3])
                s2 = dict(s)
                if k is not None and not hooks.untracked(k):
                    s2[k] = eff[2]
                nxt.append(s2)
            elif eff[0] == "assign":
                agg = hooks.aggregate_assign(eff[2], s)
                if agg is not None:
                    nxt.append(agg)
                    continue
                k = key_of(eff[3])
                if k is None or hooks.untracked(k):
                    nxt.append(s)
                    continue
                for v in _values(eff[2], s, hooks):
                    s2 = dict(s)
                    s2[k] = v
                    nxt.append(s2)
            elif eff[0] == "inc":
                k = key_of(eff[3])
                s2 = dict(s)
                if k is not None and k in s2 and not hooks.untracked(k):
                    s2[k] = s2[k] + eff[2] if isinstance(s2[k], int) else ("opaque", "inc")
                nxt.append(s2)
            elif eff[0] == "op":
                k = key_of(eff[4])
                s2 = dict(s)
                if k is not None and k in s2:
                    s2[k] = ("opaque", "op")
                nxt.append(s2)
            elif eff[0] == "call":
                r = hooks.call_effect(eff[1], eff[2], s)
                if r is None:
                    nxt.append(s)
                else:
                    nxt += r
            else:
                nxt.append(s)
        states = nxt
    return states


def _call_effects(expr, st, hooks):
    states = [st]
    for eff in AI.effects(expr):
        if eff[0] != "call":
            continue
        nxt = []
        for s in states:
            r = hooks.call_effect(eff[1], eff[2], s)
            nxt += [s] if r is None else r
        states = nxt
    return states


def _values(expr, st, hooks):
    s = strip(expr, casts=True)
    if s is not None and s.get("k") in ("CallExpr", "CXXMemberCallExpr"):
        c = s.get("callee")
        vs = hooks.call_value(c["q"] if c else None, s, st)
        if vs is not None:
            return vs
    return [evaluate(AI.term(expr), st, hooks)]


def freeze(st):
    return frozenset((k, v if isinstance(v, int) else str(v)) for k, v in st.items())


class Inliner(Hooks):
    """Hooks that interpret calls of header functions by running their bodies (depth-limited), recording the
    returned abstract value under ("ret", qname). Subclasses decide which callees are leaves (logged actions)."""

    max_depth = 6

    def __init__(self, facts):
        self.facts = facts
        self.depth = 0

    def leaf(self, q, node, st):
        """Return a list of states if q is modelled as a leaf action, else None to inline it."""
        return None

    def skip(self, q):
        return False

    def call_effect(self, q, node, st):
        from . import flow
        r = self.leaf(q, node, st)
        if r is not None:
            return r
        c = node.get("callee") or node.get("ctor")
        if c is None or self.skip(q):
            return None
        g = self.facts.by_id.get(c["id"])
        if g is None or g.body is None or self.depth >= self.max_depth:
            return None
        self.depth += 1
        try:
            outs = []
            for ev, term_ in flow.paths(g.body, unroll=1):
                for o in exec_events(ev, st, self):
                    if term_ == "return" and ev and ev[-1][0] == "return" and ev[-1][1].get("value") is not None:
                        o = dict(o)
                        o[("ret", q)] = evaluate(AI.term(ev[-1][1]["value"]), o, self)
                    if term_ == "throw":
                        o = dict(o)
                        o[("threw",)] = 1
                    outs.append(o)
            return outs
        finally:
            self.depth -= 1

    def call_value(self, q, node, st):
        return None


def log(st, action):
    s = dict(st)
    s[("log",)] = s.get(("log",), ()) + (action,)
    return s
