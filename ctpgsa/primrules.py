"""Reference summaries of small primitives with an obvious contract (iterator operators, getters, flag setters, string
helpers): one golden group per family (ctpgsa/goldenreg.py), included in the properties that rest on them."""
from . import golden, goldenreg

WHAT = {
    "CVEC2": "reference summaries of the cvector iterator operators / accessors and cbitset comparison",
    "BUFIT": "reference summaries of the buffer classes: iterator operators, begin / end / get_view, literal copy",
    "TVAL": "reference summaries of what a term value hands to a functor (value, source point, line, column) and of how a "
            "source point prints",
    "UTIL": "reference summaries of the string helpers, the default term functors and the option setters",
    "OVL": "reference summaries of the convenience overloads of parse / context_parse (every parameter handed on unchanged, the "
           "missing ones defaulted)",
    "NAMEFILL": "reference summaries of how the parser's name / id / precedence tables are filled and symbols resolved",
    "GAPI2": "reference summaries of how grammar objects are built (term / nterm / rule constructors and operators, "
             "literal-to-term conversion, parse_state and reductor set-up)",
    "GAPI": "reference summaries of the recovery-mode flags, the rule getters and the state-creating primitives",
}


def prims(chk, fx, *groups):
    for g in groups:
        golden.group(chk, fx, g, WHAT[g], goldenreg.GROUPS[g], optional=True)
