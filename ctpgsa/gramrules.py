"""REGEXGRAM — the pattern grammar itself (regex::regex_parser::regex_parser_object) as a reference summary.

The documented pattern syntax (readme "Regex expressions": concatenation, `|`, `*`, `+`, `?`, `{n}`, groups, sets, escapes)
is implemented by one constexpr parser object: its terms (whose order the pattern lexer's `specials` table relies on), its
nonterminals and its rules with their functors. The rule set and each functor's summary are frozen from the reviewed tree
(ctpgsa/golden/regex_grammar.json) and compared: terms in order, nonterminals and rules as sets (reordering rules keeps the
language), functors by their path-signature summaries."""
import json
import os

from . import astq as A
from . import golden
from . import pathsig as PS
from .canon import Canon
from .facts import walk, strip, Fn, AnalysisIncomplete

VAR = "ctpg::regex::regex_parser::regex_parser_object"
PATH = os.path.join(golden.GOLDEN_DIR, "regex_grammar.json")


def _functors(u, cn, root):
    """[(text to abstract, summary)] for the user-written functors inside `root`: lambdas, and objects / temporaries of a
    class of namespace ctpg::regex with a call operator (a named function object is the same functor as the lambda it
    replaces). Library helpers (ftors::_e2, val, ...) and plain functions keep their names."""
    out = []
    for x in walk(root):
        f = None
        if x.get("k") == "LambdaExpr":
            f = u.by_id.get(x.get("fn"))
            if f is not None and f.is_pattern:
                inst = [g for g in u.fns if g.o.get("pid") == x.get("fn") and not g.is_pattern]
                f = inst[0] if inst else None
            if f is None or f.body is None:
                raise AnalysisIncomplete("REGEXGRAM: a functor of the pattern grammar has no instantiated body")
        elif x.get("k") in ("CXXConstructExpr", "CXXTemporaryObjectExpr", "InitListExpr", "DeclRefExpr"):
            t = u.TC(x.get("t")).replace("const ", "").strip()
            if t.startswith("ctpg::regex::") and "<" not in t and "(" not in t:
                cands = [g for g in u.fns if g.o["q"] == t + "::operator()" and not g.is_pattern and g.body is not None]
                if cands:
                    f = cands[0]
        if f is not None:
            conds, _ = golden.summarise(f)
            out.append((cn.c(x), golden.to_json(conds)))
    return out


def _abstract(text, functors):
    for t, _s in functors:
        if t and t in text:
            text = text.replace(t, "<functor>", 1)
    return text.replace("<lambda>", "<functor>")


def extract(fx):
    for u, v in fx.vars():
        if v["q"] == VAR and v.get("init") is not None:
            break
    else:
        raise AnalysisIncomplete("REGEXGRAM: %s not found" % VAR)
    pseudo = Fn({"params": [], "body": v["init"], "q": VAR, "n": "regex_parser_object", "id": -1, "tmpl": "inst",
                 "l": v.get("l")}, u, u.tu)
    cn = Canon(pseudo, uniform=True)
    calls = {}
    for n in walk(v["init"]):
        if n.get("k") == "CallExpr" and (n.get("callee") or {}).get("n") in ("terms", "nterms", "rules"):
            calls.setdefault(n["callee"]["n"], n)
    if set(calls) != {"terms", "nterms", "rules"}:
        raise AnalysisIncomplete("REGEXGRAM: terms(...) / nterms(...) / rules(...) not found in the initialiser")
    out = {"terms": [cn.c(a) for a in A.call_args(calls["terms"])],
           "nterms": sorted(cn.c(a) for a in A.call_args(calls["nterms"])),
           "rules": {}, "loc": v.get("l")}
    for a in A.call_args(calls["rules"]):
        fs = _functors(u, cn, a)
        out["rules"][_abstract(cn.c(a), fs)] = [s_ for _t, s_ in fs]
    import re as _re
    out["lexer"] = sorted({m for n in walk(v["init"]) for m in _re.findall(r"use_lexer<([^<>]*)>", u.T(n.get("t") or 0))})
    # the two custom terms of the grammar: name and functor
    out["custom_terms"] = {}
    for u2, v2 in fx.vars():
        if v2["q"] in ("ctpg::regex::regex_parser::regex_digit_09", "ctpg::regex::regex_parser::regex_primary") and \
                v2.get("init") is not None and v2["q"] not in out["custom_terms"]:
            p2 = Fn({"params": [], "body": v2["init"], "q": v2["q"], "n": v2["n"], "id": -2, "tmpl": "inst", "l": v2.get("l")},
                    u2, u2.tu)
            c2 = Canon(p2, uniform=True)
            fs = _functors(u2, c2, v2["init"])
            out["custom_terms"][v2["q"]] = {"init": _abstract(c2.c(v2["init"]), fs), "functors": [s_ for _t, s_ in fs]}
    return out


def freeze(fx):
    g = extract(fx)
    g.pop("loc", None)
    json.dump(g, open(PATH, "w"), indent=1)
    return len(g["rules"])


def check(chk, fx):
    chk.rule("REGEXGRAM", "terms, nonterminals, rules and functors of the pattern grammar", 15)
    if not os.path.exists(PATH):
        chk.incomplete("REGEXGRAM: reference %s missing" % PATH)
    ref = json.load(open(PATH))
    cur = extract(fx)
    site = "include/ctpg/ctpg.hpp:%s %s" % (cur.get("loc"), VAR)
    if cur["terms"] == ref["terms"]:
        chk.ok("REGEXGRAM", site, "terms in the order the pattern lexer's table relies on: %s" % ", ".join(ref["terms"]))
    else:
        chk.violation("REGEXGRAM", site, "REGEXGRAM:terms", "the pattern grammar's terms are %s; the pattern lexer returns "
                      "indices into %s" % (cur["terms"], ref["terms"]))
    if cur["nterms"] == ref["nterms"] and cur.get("lexer") == ref.get("lexer"):
        chk.ok("REGEXGRAM", site, "nonterminals %s, lexer %s" % (", ".join(ref["nterms"]), ref.get("lexer")))
    else:
        chk.violation("REGEXGRAM", site, "REGEXGRAM:nterms", "nonterminals / lexer are %s / %s instead of %s / %s" % (
            cur["nterms"], cur.get("lexer"), ref["nterms"], ref.get("lexer")))
    for q, d in ref.get("custom_terms", {}).items():
        c = cur.get("custom_terms", {}).get(q)
        if c is None:
            chk.incomplete("REGEXGRAM: custom term %s of the pattern grammar not found" % q)
        same = c["init"] == d["init"] and len(c["functors"]) == len(d["functors"])
        if same:
            for a, b in zip(d["functors"], c["functors"]):
                ra, rb = golden.from_json(a), golden.from_json(b)
                if set(ra) != set(rb) or any(not PS.equivalent(ra[k], rb[k]) for k in ra):
                    same = False
        if same:
            chk.ok("REGEXGRAM", site, "custom term %s: %s" % (q.split("::")[-1], d["init"][:70]))
        else:
            chk.violation("REGEXGRAM", site, "REGEXGRAM:term:%s" % q.split("::")[-1],
                          "the custom term %s of the pattern grammar is now %s (reviewed: %s) or its functor differs" % (
                              q.split("::")[-1], c["init"][:80], d["init"][:80]))
    for text, lams in ref["rules"].items():
        if text not in cur["rules"]:
            near = [t for t in cur["rules"] if t not in ref["rules"] and t.split("(")[0] == text.split("(")[0]]
            chk.violation("REGEXGRAM", site, "REGEXGRAM:rule:%s" % text[:50],
                          "the rule %s of the pattern grammar is gone%s: the accepted pattern syntax or its meaning changes" % (
                              text[:100], (" (now: %s)" % near[0][:100]) if near else ""))
            continue
        same = len(lams) == len(cur["rules"][text])
        if same:
            for a, b in zip(lams, cur["rules"][text]):
                ra, rb = golden.from_json(a), golden.from_json(b)
                if set(ra) != set(rb) or any(not PS.equivalent(ra[k], rb[k]) for k in ra):
                    same = False
        if same:
            chk.ok("REGEXGRAM", site, "rule %s with its functor" % text[:80])
        else:
            chk.violation("REGEXGRAM", site, "REGEXGRAM:functor:%s" % text[:50],
                          "the functor of the rule %s does something else than on the reviewed tree" % text[:100])
    for text in cur["rules"]:
        if text not in ref["rules"]:
            chk.violation("REGEXGRAM", site, "REGEXGRAM:extra:%s" % text[:50],
                          "the pattern grammar has the additional rule %s: patterns outside the documented syntax are accepted "
                          "(or existing ones parsed differently)" % text[:100])
