"""WIDTH — integer width / signedness of the quantities that no capacity bounds.

Almost every integer in ctpg is an index bounded by a compile-time capacity (states, terms, rules: size16_t by
design). A few quantities are not: the length of a lexeme and everything it is copied through (LEN: bounded only by
the input), the depth of the parse stacks (DEPTH), the line / column of a source point (LINECOL: 32 bit unsigned public members),
and precedences (PREC: `int`, negative values are legal and documented to rank below 0). Declaring any carrier of
such a quantity narrower (or unsigned, for PREC) compiles, passes every test (no test has a 64 KiB token, 65536
lines or a negative precedence) and truncates silently.

Rule: seed the quantities at their defining declarations / expressions, propagate through *copy* flows
(initialisation, assignment, argument -> parameter, return -> call value, constructor member initialisers, both arms
of ?:, container element <-> pushed value), looking through implicit and explicit casts (a cast does not change
what the value means). Arithmetic does not copy: `depth - r_elements` carries the class of the wider operand only, so
a bounded count used as an operand is not dragged in. Every declared carrier (local, parameter, field, array element,
function result) in a seeded class must be at least as wide as the class requires and have the required
signedness. Variables are keyed by declaration location, so all instantiations of a template share one variable;
bodies in the generic namespaces (stdex, utils, meta, ftors) are not entered (their parameters are type parameters),
container calls are modelled instead.
"""
from . import astq as A
from .facts import walk, strip, kids, AnalysisIncomplete

GENERIC_NS = ("ctpg::stdex::", "ctpg::utils::", "ctpg::ftors::", "ctpg::meta::", "std::")

# canonical type spelling -> (bits, signed)
INT = {"unsigned long": (64, False), "long": (64, True), "unsigned long long": (64, False), "long long": (64, True),
       "unsigned int": (32, False), "int": (32, True), "unsigned short": (16, False), "short": (16, True),
       "unsigned char": (8, False), "signed char": (8, True), "char": (8, True), "bool": (1, False)}

# class -> (minimum bits, required signedness or None, why)
REQ = {
    "LEN": (64, None, "a lexeme length is bounded only by the input: it must be as wide as an iterator difference"),
    "DEPTH": (64, None, "the depth of a parse stack is bounded only by the input (std::vector based stacks)"),
    "LINECOL": (32, False, "line / column are public members users read and print; the release declares them 32 bit unsigned, which is what bounds the inputs whose positions are reported truthfully (2^32 lines / bytes per line)"),
    "PREC": (32, True, "precedences are `int`: negative values are legal and rank below the default 0"),
}
SEED_FIELDS = {
    "ctpg::recognized_term::len": "LEN",
    "ctpg::source_point::line": "LINECOL",
    "ctpg::source_point::column": "LINECOL",
    "ctpg::term::precedence": "PREC",
    "ctpg::detail::rule::precedence": "PREC",
}
STACKS = ("value_stack", "cursor_stack")
CONTAINER_PUSH = ("push_back", "emplace_back", "push")
CONTAINER_ELEM = ("back", "front", "top", "at")


def int_type(facts, tid):
    """(bits, signed) of an integer type id, else None (references and const are transparent)."""
    c = facts.TC(tid).replace("const ", "").replace("volatile ", "").strip()
    while c.endswith("&"):
        c = c[:-1].strip()
    return INT.get(c)


class WidthFlow:
    def __init__(self, fx):
        self.fx = fx
        self.parent = {}
        self.labels = {}          # rep -> {class: why}
        self.decls = {}           # key -> {(typestr, (bits, signed), site)}
        self.n_functions = 0
        self.n_flows = 0
        self.seed_hits = set()

    # ------------------------------------------------------------ union-find
    def find(self, k):
        p = self.parent.setdefault(k, k)
        if p == k:
            return k
        r = self.find(p)
        self.parent[k] = r
        return r

    def union(self, a, b):
        if a is None or b is None:
            return
        ra, rb = self.find(a), self.find(b)
        if ra == rb:
            return
        self.n_flows += 1
        self.parent[rb] = ra
        lb = self.labels.pop(rb, None)
        if lb:
            self.labels.setdefault(ra, {}).update(lb)

    def label(self, k, cls, why):
        self.labels.setdefault(self.find(k), {}).setdefault(cls, why)

    def note(self, key, facts, tid, site):
        it = int_type(facts, tid)
        if it is None:
            return False
        self.decls.setdefault(key, set()).add((facts.T(tid), it, site))
        return True

    # ------------------------------------------------------------ driver
    def in_scope(self, fn):
        q = fn.o["q"]
        if fn.is_pattern or not q.startswith("ctpg::") or fn.body is None:
            return False
        return not q.startswith(GENERIC_NS) or q.startswith("ctpg::utils::slice")

    def run(self):
        for u, r in self.fx.records():
            for f in r["fields"]:
                q = r["q"] + "::" + f["n"]
                if q in SEED_FIELDS:
                    self.seed_hits.add(q)
                    key = ("f", q)
                    self.label(key, SEED_FIELDS[q], "field %s" % q.split("ctpg::")[-1])
                    site = "include/ctpg/ctpg.hpp:%s %s" % (f.get("l"), q)
                    if not self.note(key, u, f["t"], site):
                        # a seed that is not an integer any more: report as a declared carrier of unknown type
                        self.decls.setdefault(key, set()).add((u.T(f["t"]), None, site))
        for fn in self.fx.all_fns():
            if not self.in_scope(fn):
                continue
            self.n_functions += 1
            self.function(fn)
        return self

    def function(self, fn):
        self.fn = fn
        self.q = fn.o["q"]
        F = fn.facts
        for p in fn.o["params"]:
            if p.get("l"):
                self.note(("v", p["l"]), F, p["t"], "%s parameter '%s' of %s" % (self._loc(p), p["n"], fn.o["n"]))
        for i in fn.o.get("inits", ()):
            if i.get("member") and i.get("init") is not None and i.get("written"):
                self.union(("f", fn.o["parent"] + "::" + i["member"]), self.val(i["init"]))
        self.stmt(fn.body)

    def _loc(self, d):
        l = d.get("l") or ""
        return "include/ctpg/ctpg.hpp:%s" % l if l and not l.startswith("include") else l

    def site(self, n):
        return A.site(self.fn, n)

    # ------------------------------------------------------------ statements
    def stmt(self, s):
        if s is None:
            return
        k = s.get("k")
        if k == "CompoundStmt":
            for c in s.get("c") or []:
                self.stmt(c)
        elif k == "IfStmt":
            self.stmt(s.get("init"))
            if s.get("constexpr") and s.get("taken"):
                if s["taken"] in ("then", "else"):
                    self.stmt(s.get(s["taken"]))
                return
            self.val(s.get("cond"))
            self.stmt(s.get("then"))
            self.stmt(s.get("else"))
        elif k in ("WhileStmt", "DoStmt"):
            self.val(s.get("cond"))
            self.stmt(s.get("body"))
        elif k == "ForStmt":
            self.stmt(s.get("init"))
            self.val(s.get("cond"))
            self.val(s.get("inc"))
            self.stmt(s.get("body"))
        elif k == "CXXForRangeStmt":
            self.val(s.get("range"))
            self.stmt(s.get("body"))
        elif k == "DeclStmt":
            for d in s.get("decls", ()):
                if d.get("k") == "Var":
                    key = ("v", d["l"])
                    self.note(key, self.fn.facts, d["t"], "%s local '%s' of %s" % (self._loc(d), d["n"], self.fn.o["n"]))
                    if d.get("init") is not None:
                        self.union(key, self.val(d["init"]))
        elif k == "ReturnStmt":
            if s.get("value") is not None:
                self.union(("ret", self.q), self.val(s["value"]))
        elif k in ("BreakStmt", "ContinueStmt", "NullStmt"):
            pass
        else:
            self.val(s)

    # ------------------------------------------------------------ expressions
    def val(self, n):
        """Entity whose value expression n copies (or None); records the flows inside n."""
        s = strip(n, casts=True)
        if s is None:
            return None
        k = s.get("k")
        F = self.fn.facts
        if k in ("IntegerLiteral", "CharacterLiteral", "CXXBoolLiteralExpr", "StringLiteral", "CXXNullPtrLiteralExpr",
                 "CXXThisExpr", "LambdaExpr"):
            return None
        if k == "DeclRefExpr":
            d = s["d"]
            if d["k"] in ("Var", "ParmVar", "Binding") and d.get("dl") and not d.get("global") and not d.get("staticmember"):
                return ("v", d["dl"])
            return None
        if k == "MemberExpr":
            m = s["m"]
            base = (s.get("c") or [None])[0]
            self.val(base)
            if m["k"] == "Field":
                key = ("f", m["q"])
                self.note(key, F, m["t"], "include/ctpg/ctpg.hpp:%s field %s" % (m.get("dl"), m["q"].split("ctpg::")[-1]))
                return key
            return None
        if k == "ArraySubscriptExpr":
            base, idx = s["c"]
            return self.elem(base, idx, s)
        if k == "CXXOperatorCallExpr":
            return self.opcall(s)
        if k in ("CallExpr", "CXXMemberCallExpr"):
            return self.call(s)
        if k in ("CXXConstructExpr", "CXXTemporaryObjectExpr"):
            return self.construct(s)
        if k in ("BinaryOperator", "CompoundAssignOperator"):
            return self.binop(s)
        if k == "UnaryOperator":
            v = self.val(s["c"][0])
            return v if s.get("op") in ("++", "--", "+") else None
        if k == "ConditionalOperator":
            self.val(s["c"][0])
            a, b = self.val(s["c"][1]), self.val(s["c"][2])
            self.union(a, b)
            return a or b
        for c in kids(s):
            self.val(c)
        return None

    def container(self, e):
        """Entity of an array / container expression."""
        s = strip(e, casts=True)
        if s is None:
            return None
        k = s.get("k")
        if k == "MemberExpr" and s["m"]["k"] == "Field":
            self.val((s.get("c") or [None])[0])
            return ("f", s["m"]["q"])
        if k == "DeclRefExpr":
            d = s["d"]
            if d["k"] in ("Var", "ParmVar") and d.get("dl"):
                return ("v", d["dl"])
            return None
        if k == "ArraySubscriptExpr":
            self.val(s["c"][1])
            b = self.container(s["c"][0])
            return ("e", b) if b else None
        if k == "CXXOperatorCallExpr" and s.get("op") == "[]" and len(s.get("c") or []) == 3:
            self.val(s["c"][2])
            b = self.container(s["c"][1])
            return ("e", b) if b else None
        self.val(e)
        return None

    def elem(self, base, idx, at):
        self.val(idx)
        b = self.container(base)
        if b is None:
            return None
        key = ("e", b)
        self.note(key, self.fn.facts, at.get("t"), "%s element of %s" % (self.site(at), A.path_names(A.access_path(base))))
        return key

    def opcall(self, s):
        op = s.get("op")
        c = s.get("c") or []
        if op == "[]" and len(c) == 3:
            return self.elem(c[1], c[2], s)
        if op == "=" and len(c) == 3:
            t = self.val(c[1])
            self.union(t, self.val(c[2]))
            return t
        if op == "()" and c:
            callee = self.fn.facts.by_id.get((s.get("callee") or {}).get("id"))
            vals = [self.val(x) for x in c[1:]]
            if callee is not None and callee.o.get("lambda") and callee.body is not None:
                for p, v in zip(callee.o["params"], vals[1:]):
                    if p.get("l") and not p.get("pack"):
                        self.union(("v", p["l"]), v)
                return ("ret", callee.o["q"])
            return None
        for x in c[1:]:
            self.val(x)
        return None

    def _bits(self, e):
        s = e
        # static type before the usual arithmetic conversions
        while s is not None and s.get("k") in ("ImplicitCastExpr", "ParenExpr"):
            cc = s.get("c") or []
            s = cc[0] if cc else None
        it = int_type(self.fn.facts, s.get("t")) if s is not None else None
        return it[0] if it else None

    def binop(self, s):
        op = s.get("op")
        a, b = s["c"]
        if op == "=":
            t = self.val(a)
            self.union(t, self.val(b))
            return t
        if op in ("+=", "-="):
            t = self.val(a)
            self.val(b)
            return t
        if op in ("+", "-"):
            ta, tb = self.fn.facts.TC(a.get("t")), self.fn.facts.TC(b.get("t"))
            va, vb = self.val(a), self.val(b)
            wa, wb = self._bits(a), self._bits(b)
            if wa is None and wb is None and op == "-":
                # difference of two iterators / pointers: an unbounded length
                if int_type(self.fn.facts, s.get("t")):
                    key = ("src", "LEN", s.get("l"))
                    self.label(key, "LEN", "iterator difference at %s" % s.get("l"))
                    return key
                return None
            if wa is None or wb is None:
                return None          # pointer arithmetic: the result is not an integer
            if wa > wb:
                return va
            if wb > wa:
                return vb
            return va or vb
        if op == ",":
            self.val(a)
            return self.val(b)
        self.val(a)
        self.val(b)
        return None

    def construct(self, s):
        ct = s.get("ctor") or {}
        args = s.get("c") or []
        vals = [self.val(a) for a in args]
        callee = self.fn.facts.by_id.get(ct.get("id"))
        if (ct.get("copy") or ct.get("move")) and len(vals) == 1:
            return vals[0]
        if callee is not None and not callee.o["q"].startswith(GENERIC_NS):
            for p, v in zip(callee.o["params"], vals):
                if p.get("l") and not p.get("pack"):
                    self.union(("v", p["l"]), v)
        return None

    def call(self, s):
        c = s.get("callee")
        args = A.call_args(s)
        obj = A.call_object(s)
        if c is None:
            self.val((s.get("c") or [None])[0])
            for a in args:
                self.val(a)
            return None
        q, name = c["q"], c["n"]
        if obj is not None and (q.startswith("ctpg::stdex::") or q.startswith("std::")):
            o = self.container(obj)
            vals = [self.val(a) for a in args]
            if name == "size":
                names = A.path_names(A.access_path(obj)).split(".")
                if names and names[-1] in STACKS:
                    key = ("src", "DEPTH", names[-1])
                    self.label(key, "DEPTH", "%s.size()" % names[-1])
                    return key
                return None
            if o is None:
                return None
            if name in CONTAINER_PUSH and vals:
                self.union(("e", o), vals[0])
                return None
            if name in CONTAINER_ELEM:
                key = ("e", o)
                self.note(key, self.fn.facts, s.get("t"), "%s element of %s" % (self.site(s), A.path_names(A.access_path(obj))))
                return key
            return None
        if obj is not None:
            self.val(obj)
        vals = [self.val(a) for a in args]
        if q.startswith(GENERIC_NS):
            return None
        callee = self.fn.facts.by_id.get(c["id"])
        if callee is None or callee.body is None:
            return None
        for p, v in zip(callee.o["params"], vals):
            if p.get("pack"):
                break
            if p.get("l"):
                self.union(("v", p["l"]), v)
        key = ("ret", callee.o["q"])
        self.note(key, self.fn.facts, s.get("t"), "include/ctpg/ctpg.hpp:%s result of %s" % (c.get("dl"), c["n"]))
        return key

    # ------------------------------------------------------------ verdicts
    def classes(self):
        """{rep: (labels, [(key, typestr, inttype, site)])} for the seeded classes."""
        out = {}
        for key, ds in self.decls.items():
            r = self.find(key)
            if r not in self.labels:
                continue
            lab, mem = out.setdefault(r, (self.labels[r], []))
            for t, it, site in ds:
                mem.append((key, t, it, site))
        return out


def check(chk, fx, classes=("LEN", "DEPTH", "LINECOL", "PREC"), rule="WIDTH", minimum=1):
    """Every declared carrier of an unbounded quantity is wide enough (and signed where negative values are legal)."""
    wf = WidthFlow(fx).run()
    missing = [q for q in SEED_FIELDS if q not in wf.seed_hits and SEED_FIELDS[q] in classes]
    if missing:
        chk.incomplete("%s: seeded field(s) %s not found" % (rule, ", ".join(missing)))
    n = 0
    seen = set()
    members = []
    for r, (labs, mem) in wf.classes().items():
        for cls, why in labs.items():
            if cls not in classes:
                continue
            bits, signed, reason = REQ[cls]
            for key, t, it, site in mem:
                if (cls, key, t) in seen:
                    continue
                seen.add((cls, key, t))
                members.append((cls, key, t, it, site, why))
    chk.rule(rule, "declared carriers of %s quantities (copy-flow classes seeded at %s)" % (
        "/".join(classes), ", ".join(q.split("ctpg::")[-1] for q in SEED_FIELDS if SEED_FIELDS[q] in classes)),
        minimum)
    for cls, key, t, it, site, why in members:
        bits, signed, reason = REQ[cls]
        if it is None:
            chk.violation(rule, site, "%s:%s:%s" % (rule, cls, _kname(key)), "%s carrier is declared %s, not an integer "
                          "type (%s; reached from %s)" % (cls, t, reason, why))
        elif it[0] < bits:
            chk.violation(rule, site, "%s:%s:%s" % (rule, cls, _kname(key)),
                          "%s carrier is declared %s (%d bit): %s; values >= 2^%d are truncated (class seeded at %s)" % (
                              cls, t, it[0], reason, it[0], why))
        elif signed is not None and it[1] != signed:
            chk.violation(rule, site, "%s:%s:%s" % (rule, cls, _kname(key)),
                          "%s carrier is declared %s (%s): %s (class seeded at %s)" % (
                              cls, t, "signed" if it[1] else "unsigned", reason, why))
        else:
            chk.ok(rule, site, "%s carrier %s is %s" % (cls, _kname(key), t))
    return wf, members


def _kname(key):
    if key[0] == "e":
        return _kname(key[1]) + "[]"
    return str(key[-1]).split("ctpg::")[-1]
