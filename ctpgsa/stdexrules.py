"""BITSET — the bitset used for item sets, FIRST sets and character classes does exactly the word operations it names.

Template per member over path conditions (ctpgsa/pathsig.py): the word updated, the mask, and nothing else. An extra
statement (another write, a helper call) is reported: a bitset operation that touches other bits silently changes item
sets, FIRST sets or character classes (e.g. `.` / `[^...]` use flip())."""
from . import astq as A
from . import pathsig as PS
from .canon import Canon
from .facts import walk
from .lr import _drop_noise

BS = "ctpg::stdex::cbitset"
W = "data[($0 / underlying_size)]"
M = "(1 << ($0 % underlying_size))"
EACH = "@each{data}"
IDX = "@i{0..underlying_count}"

TEMPLATES = {
    ("set", 1): {("call", "check_idx($0)"), ("assign", "(%s |= %s)" % (W, M)), ("return", "*this")},
    ("reset", 1): {("call", "check_idx($0)"), ("assign", "(%s &= ~%s)" % (W, M)), ("return", "*this")},
    ("flip", 1): {("call", "check_idx($0)"), ("assign", "(%s ^= %s)" % (W, M)), ("return", "*this")},
    ("test", 1): {("call", "check_idx($0)"), ("return", "((%s >> ($0 %% underlying_size)) & 1)" % W)},
    ("flip", 0): {("assign", "(%s = ~%s)" % (EACH, EACH)), ("return", "*this")},
    ("set", 0): {("assign", "(%s = -1)" % EACH), ("return", "*this")},
    ("reset", 0): {("assign", "(%s = 0)" % EACH), ("return", "*this")},
    ("add", 1): {("assign", "(data[%s] |= $0.data[%s])" % (IDX, IDX)), ("inc", "%s++" % IDX)},
}


def _events(cn_, node):
    out = PS.default_events(cn_, node)
    for n in walk(node):
        if n.get("k") == "CompoundAssignOperator":
            out.append(PS.Event("assign", cn_.c(n), n))
        if n.get("k") == "CXXMemberCallExpr" and (n.get("callee") or {}).get("n") not in ("set", "add", "reset", "push_back", "emplace_back"):
            out.append(PS.Event("call", cn_.c(n), n))
        if n.get("k") == "CallExpr":
            out.append(PS.Event("call", cn_.c(n), n))
    return out


def bitset(chk, fx):
    chk.rule("BITSET", "cbitset members do exactly their word operation", 5)
    seen = set()
    for f in fx.all_fns():
        if f.is_pattern or f.o.get("parent") != BS or f.o.get("implicit"):
            continue
        key = (f.o["n"], len(f.o["params"]))
        if key in seen or key not in TEMPLATES:
            continue
        seen.add(key)
        cn = Canon(f)
        conds, nodes = PS.event_conditions(cn, f.body, events_of=_events, unroll=1, drop=_drop_noise)
        got = set(conds)
        want = TEMPLATES[key]
        site = A.site(f)
        cond_bad = [k for k in got & want if not PS.equivalent(conds[k], PS.dnf([]))]
        if got == want and not cond_bad:
            chk.ok("BITSET", site, "cbitset::%s/%d: %s" % (key[0], key[1], sorted(t for k, t in want if k == "assign") or "reads only"))
            continue
        extra = sorted(got - want)
        missing = sorted(want - got)
        if missing and not extra:
            chk.incomplete("cbitset::%s/%d has another shape (missing %s)" % (key[0], key[1], missing))
        chk.violation("BITSET", site, "BITSET:%s/%d" % key,
                      "cbitset::%s does more or other than its word operation: unexpected %s%s%s — bits outside the one "
                      "named (or all of them, for the whole-set operations) change" % (
                          key[0], extra[:3], ("; missing %s" % missing[:2]) if missing else "",
                          ("; conditional %s" % cond_bad[:2]) if cond_bad else ""))
    if len(seen) < 5:
        chk.incomplete("fewer than 5 cbitset members instantiated")
