"""Check plumbing: obligations, violations, known findings, evidence files, exit codes.

exit 0  every obligation discharged (or only listed known findings)
exit 1  a violation not listed in known_findings.txt  ->  VIOLATION property=<id> replay=<path>
exit 2  analysis incomplete (vanished anchor, unrecognised shape, coverage hole): no verdict
"""
import json
import os
import sys
import time

from .facts import VERIF, AnalysisIncomplete

# CTPGSA_EVIDENCE_DIR: used only by the self-test / mutant matrix so that runs against scratch copies of the
# repository do not overwrite the evidence of /repo itself
EVIDENCE_DIR = os.environ.get("CTPGSA_EVIDENCE_DIR") or os.path.join(VERIF, "evidence")
REPLAY_DIR = os.path.join(EVIDENCE_DIR, "replays")
KNOWN = os.path.join(VERIF, "known_findings.txt")


def load_known():
    known = []
    fixed = []
    try:
        with open(KNOWN) as f:
            for line in f:
                line = line.strip()
                if line.startswith("known:"):
                    parts = line[len("known:"):].split()
                    d = {"text": ""}
                    rest = []
                    for p in parts:
                        if not rest and "=" in p and p.split("=", 1)[0] in ("property", "rule", "key"):
                            k, v = p.split("=", 1)
                            d[k] = v
                        else:
                            rest.append(p)
                    d["text"] = " ".join(rest)
                    known.append(d)
                elif line.startswith("fixed:"):
                    fixed.append(line)
    except FileNotFoundError:
        pass
    return known, fixed


class Check:
    def __init__(self, pid, tier, level="other"):
        self.pid = pid
        self.tier = tier
        self.level = level
        self.t0 = time.time()
        self.obligations = []     # every obligation examined
        self.violations = []      # unlisted violations
        self.known_hits = []      # listed findings reproduced
        self.rules = {}           # rule -> {"instances": n, "min": m, "what": str}
        self.notes = []
        self.deferred = []
        self.inventory = {}
        self.assumptions = []
        self.trusted_base = ["clang 14 front end (parser, template instantiation, overload/name resolution)",
                             "ctpgx extractor plugin (/verif/extractor/ctpgx.cc)",
                             "frozen seed tables in /verif/ctpgsa (confirmed by reading, existence-checked)"]
        self.explanation = ""
        self.known, self.fixed = load_known()
        try:
            self.seed = int(os.environ.get("VERIF_SEED", "0"))
        except ValueError:
            self.seed = 0

    # ---- recording
    def rule(self, rule, what, minimum=1):
        self.rules.setdefault(rule, {"instances": 0, "min": minimum, "what": what})

    def ok(self, rule, site, reason):
        self.rules.setdefault(rule, {"instances": 0, "min": 1, "what": ""})["instances"] += 1
        self.obligations.append({"rule": rule, "site": site, "verdict": "holds", "reason": reason})

    def violation(self, rule, site, key, msg, detail=None):
        self.rules.setdefault(rule, {"instances": 0, "min": 1, "what": ""})["instances"] += 1
        ob = {"rule": rule, "site": site, "verdict": "VIOLATED", "reason": msg, "key": key}
        if any(v["rule"] == rule and v["site"] == site and v["key"] == key for v in self.violations) or \
                any(o["rule"] == rule and o["site"] == site and o["key"] == key for o, _ in self.known_hits):
            return      # same construct seen in another instantiation
        if detail:
            ob["detail"] = detail
        self.obligations.append(ob)
        for k in self.known:
            if k.get("property") == self.pid and k.get("key") == key:
                self.known_hits.append((ob, k))
                ob["verdict"] = "known-finding"
                return
        self.violations.append(ob)

    def note(self, s):
        self.notes.append(s)

    def incomplete(self, msg):
        raise AnalysisIncomplete(msg)

    def defer_incomplete(self, msg):
        """An unknown shape that does not stop the other rules: no verdict (exit 2) at the end unless a violation was
        found elsewhere (a violation is a verdict; 'cannot analyse' is not)."""
        self.deferred.append(msg)

    def require(self, cond, msg):
        if not cond:
            raise AnalysisIncomplete(msg)

    # ---- finishing
    def finish(self):
        # vacuity: a rule that matched fewer instances than confirmed by hand is an analysis failure
        if self.deferred and not self.violations:
            raise AnalysisIncomplete("; ".join(self.deferred)[:600])
        for r, d in self.rules.items():
            if d["instances"] < d["min"] and not self.violations:
                raise AnalysisIncomplete("rule %s matched %d instance(s), frozen minimum is %d (%s)" % (
                    r, d["instances"], d["min"], d["what"]))
        wall = time.time() - self.t0
        os.makedirs(REPLAY_DIR, exist_ok=True)
        replay = None
        if self.violations:
            replay = os.path.join(REPLAY_DIR, "%s.json" % self.pid)
            with open(replay, "w") as f:
                json.dump({"property": self.pid, "tier": self.tier, "violations": self.violations,
                           "how_to_read": "each entry names rule, site (file:line:col function), the construct key "
                                          "and the reason; re-run `python3 ctpgsa/check.py %s` to reproduce" % self.pid},
                          f, indent=1)
        n_ob = len(self.obligations)
        n_ok = sum(1 for o in self.obligations if o["verdict"] == "holds")
        distinct = len({(o["rule"], o["site"]) for o in self.obligations})
        samples = []
        seen_rules = {}
        for o in self.obligations:
            c = seen_rules.get(o["rule"], 0)
            if c < 4 or o["verdict"] != "holds":
                samples.append(o)
                seen_rules[o["rule"]] = c + 1
        cov = {
            "obligations": n_ob,
            "discharged": n_ok,
            "evaluations": max(n_ob, 1),
            "distinct_nontrivial": distinct,
            "rule": "one obligation per (rule, site) enumerated from the resolved AST of /repo's current "
                    "ctpg.hpp; distinct = distinct (rule, site) pairs; an obligation is non-trivial when the "
                    "rule had to inspect a construct to discharge it (all are)",
            "samples": samples[:80],
            "checker_cmd": "python3 ctpgsa/check.py %s --tier %s" % (self.pid, self.tier),
            "trusted_base": self.trusted_base,
            "explanation": self.explanation,
            "rules": self.rules,
            "inventory": self.inventory,
            "known_findings_reproduced": [k["key"] for _, k in self.known_hits],
            "notes": self.notes,
            "exhaustive": True,
        }
        ev = {
            "property_id": self.pid,
            "tier": self.tier,
            "seed": self.seed,
            "level": self.level,
            "coverage": cov,
            "assumptions": self.assumptions,
            "wall_s": round(wall, 2),
            "violations": len(self.violations),
        }
        os.makedirs(EVIDENCE_DIR, exist_ok=True)
        tmp = os.path.join(EVIDENCE_DIR, ".%s.json.tmp" % self.pid)
        with open(tmp, "w") as f:
            json.dump(ev, f, indent=1)
        os.replace(tmp, os.path.join(EVIDENCE_DIR, "%s.json" % self.pid))

        print("== %s tier=%s: %d obligation(s), %d discharged, %d rule(s), %.1fs" % (
            self.pid, self.tier, n_ob, n_ok, len(self.rules), wall))
        for r, d in sorted(self.rules.items()):
            print("   rule %-10s instances=%-4d (min %d) %s" % (r, d["instances"], d["min"], d["what"]))
        for ob, k in self.known_hits:
            print("KNOWN-FINDING: property=%s %s at %s: %s" % (self.pid, k["key"], ob["site"], k["text"][:300]))
        for v in self.violations[:12]:
            print("  violation [%s] %s: %s (key %s)" % (v["rule"], v["site"], v["reason"][:300], v["key"][:120]))
        if len(self.violations) > 12:
            print("  ... and %d more violation(s), see the replay file" % (len(self.violations) - 12))
        if self.violations:
            print("VIOLATION property=%s replay=%s" % (self.pid, replay))
            return 1
        return 0


def run(pid, tier, fn, level="other"):
    """Run a property check function fn(check) with the common exit-code policy."""
    chk = Check(pid, tier, level)
    try:
        fn(chk)
        return chk.finish()
    except AnalysisIncomplete as e:
        if chk.violations:
            # what could be analysed already shows a violation: that is a verdict; the rest is reported as a note
            chk.note("analysis stopped early: %s" % str(e)[:300])
            print("(analysis stopped early: %s)" % str(e)[:200])
            try:
                return chk.finish()
            except AnalysisIncomplete:
                pass
        print("ANALYSIS-INCOMPLETE property=%s: %s" % (pid, e))
        print("(no verdict: the check could not analyse this tree; exit 2)")
        return 2
    except Exception as e:      # an engine failure is never a verdict about the code
        import traceback
        tb = traceback.format_exc().splitlines()
        print("ANALYSIS-INCOMPLETE property=%s: internal error in the rule engine: %s: %s" % (pid, type(e).__name__, e))
        print("\n".join(tb[-6:]))
        print("(no verdict; exit 2)")
        return 2
