"""Call graph over the functions spelled in ctpg.hpp (resolved callees, per TU) and guard contexts."""
from .facts import walk, strip, kids

CALL_KINDS = ("CallExpr", "CXXMemberCallExpr", "CXXOperatorCallExpr", "CXXConstructExpr", "CXXTemporaryObjectExpr")


def calls(fn):
    """Yield (node, callee_dict, callee_fn_or_None) for every resolved call/construct in fn (body + ctor inits)."""
    roots = [fn.body] + [i.get("init") for i in fn.o.get("inits", ())]
    for r in roots:
        for n in walk(r):
            if n.get("k") in CALL_KINDS:
                c = n.get("callee") or n.get("ctor")
                if c is None:
                    continue
                yield n, c, fn.facts.by_id.get(c["id"])
            elif n.get("k") in ("ImplicitCastExpr", "CXXStaticCastExpr", "CXXFunctionalCastExpr", "CStyleCastExpr") \
                    and n.get("conv"):
                c = n["conv"]
                yield n, c, fn.facts.by_id.get(c["id"])


def address_taken(fn):
    """Functions whose address is taken in fn (stored into the reductor / term-functor tables)."""
    for n in walk(fn.body):
        if n.get("k") == "DeclRefExpr" and n["d"]["k"] in ("Function", "CXXMethod"):
            yield n, n["d"], fn.facts.by_id.get(n["d"]["id"])


def reachable(roots, extra_edges=None):
    """Transitive closure over resolved call edges + address-taken functions (the two indirect call sites of the
    header call exactly the functions stored into the tables by init_nth_reductor / analyze_term)."""
    seen = {}
    work = list(roots)
    while work:
        f = work.pop()
        key = (id(f.facts), f.o["id"])
        if key in seen:
            continue
        seen[key] = f
        for n, c, g in calls(f):
            if g is not None:
                work.append(g)
        for n, d, g in address_taken(f):
            if g is not None:
                work.append(g)
        if extra_edges:
            for g in extra_edges(f):
                work.append(g)
    return list(seen.values())


def guarded_statements(body):
    """Yield (stmt, guards) for every statement-level node; guards = list of (kind, node, arm) enclosing it, outermost
    first, where kind in {"if","loop"} and arm in {"then","else","body"}."""
    def rec(s, guards):
        if s is None:
            return
        k = s.get("k")
        if k == "CompoundStmt":
            for c in s.get("c") or []:
                yield from rec(c, guards)
        elif k == "IfStmt":
            yield s, guards
            yield from rec(s.get("then"), guards + [("if", s, "then")])
            yield from rec(s.get("else"), guards + [("if", s, "else")])
        elif k in ("WhileStmt", "ForStmt", "CXXForRangeStmt", "DoStmt"):
            yield s, guards
            yield from rec(s.get("body"), guards + [("loop", s, "body")])
        else:
            yield s, guards
    yield from rec(body, [])
