"""Memory-safety related structural rules (shared by C06, C07): SENT, EMPTY-GUARD."""
from . import astq as A
from . import absint as AI
from . import flow
from .canon import Canon
from .facts import walk, strip, AnalysisIncomplete
from .lr import first_inst

P = "ctpg::parser::"
R = "ctpg::regex::"
SENT_FIELDS = {R + "dfa_state::transitions", R + "dfa_state::conflicted_recognition",
               P + "grammar_info::rule_last_terms"}
SENT_VALUES = (65535, 0xffffffff, 2 ** 64 - 1)


def sent(chk, fx):
    """A value read from a sentinel-carrying table is compared with the sentinel before it is used as an index."""
    chk.rule("SENT", "sentinel-carrying values used as indices", 4)
    targets = [R + "dfa_match", R + "dfa_builder::merge", P + "calculate_rule_precedence",
               P + "calculate_rule_associativity", R + "write_dfa_state_diag_str"]
    for q in targets:
        fns = fx.fns(q)
        if not fns:
            chk.incomplete("SENT: anchor %s not found" % q)
        f = fns[0]
        flow.assert_structured(f)
        # variables initialised / assigned from a sentinel-carrying element
        carriers = {}
        for n in walk(f.body):
            if n.get("k") == "Var" and n.get("init") is not None:
                p = A.access_path(n["init"])
                if any(c[0] == "field" and c[1] in SENT_FIELDS for c in p) and p[-1][0] == "index":
                    carriers[n["id"]] = n["n"]
                # conditional expression mixing the sentinel in (to = i == size ? sentinel : transitions[i])
                s = strip(n["init"], casts=True)
                if s is not None and s.get("k") == "ConditionalOperator":
                    for arm in s["c"][1:]:
                        pa = A.access_path(arm)
                        if any(c[0] == "field" and c[1] in SENT_FIELDS for c in pa):
                            carriers[n["id"]] = n["n"]
        if not carriers:
            chk.incomplete("SENT: %s reads no sentinel-carrying element into a variable" % q)
        # variables that are used as a subscript somewhere in the function
        index_vars = set()
        for m in walk(f.body):
            ix = None
            if m.get("k") == "ArraySubscriptExpr":
                ix = m["c"][1]
            elif m.get("k") == "CXXOperatorCallExpr" and m.get("op") == "[]" and len(m["c"]) == 3:
                ix = m["c"][2]
            if ix is not None and A.declref_id(ix) is not None:
                index_vars.add(A.declref_id(ix))
        bad = {}
        n_uses = 0
        for ev, term_ in flow.paths(f.body, unroll=1):
            checked = set()
            for e in ev:
                if e[0] == "cond":
                    a = AI.atom_with_outcome(e[1], e[2])
                    if a[0] == "cmp" and a[1] == "!=":
                        for x, y in ((a[2], a[3]), (a[3], a[2])):
                            if y[0] == "const" and y[1] in SENT_VALUES and x[0] == "path" and len(x[2]) == 1 and \
                                    x[2][0][0] == "var":
                                checked.add(x[2][0][1])
                    # a == b where b is already checked transfers the knowledge
                    if a[0] == "cmp" and a[1] == "==":
                        ids = [t[2][0][1] for t in (a[2], a[3]) if t[0] == "path" and len(t[2]) == 1 and t[2][0][0] == "var"]
                        if len(ids) == 2 and (ids[0] in checked or ids[1] in checked):
                            checked.update(ids)
                nodes = [e[1]] if e[0] in ("stmt", "cond", "return") else []
                for nd in nodes:
                    for m in walk(nd):
                        idx = None
                        if m.get("k") == "ArraySubscriptExpr":
                            idx = m["c"][1]
                        elif m.get("k") == "CXXOperatorCallExpr" and m.get("op") == "[]" and len(m["c"]) == 3:
                            idx = m["c"][2]
                        if idx is None:
                            continue
                        vid = A.declref_id(idx)
                        if vid in carriers:
                            n_uses += 1
                            if vid not in checked:
                                bad[vid] = m
                    if e[0] == "stmt":
                        # state_idx = tr : the carrier becomes the next index
                        for eff in AI.effects(nd):
                            if eff[0] == "assign":
                                vid = A.declref_id(eff[2])
                                tgt = eff[-1][0][1] if len(eff[-1]) == 1 and eff[-1][0][0] == "var" else None
                                if vid in carriers and tgt in index_vars and tgt not in carriers:
                                    n_uses += 1
                                    if vid not in checked:
                                        bad[vid] = nd
                        # reassignment of a carrier: it now holds whatever the source held
                        for eff in AI.effects(nd):
                            if eff[0] in ("assign", "set") and len(eff[-1]) == 1 and eff[-1][0][0] == "var" and \
                                    eff[-1][0][1] in carriers:
                                src = A.declref_id(eff[2]) if eff[0] == "assign" else None
                                if src is not None and src in checked:
                                    checked.add(eff[-1][0][1])
                                else:
                                    checked.discard(eff[-1][0][1])
        if bad:
            for vid, m in bad.items():
                chk.violation("SENT", A.site(f, m), "SENT:%s:%s" % (f.o["n"], carriers[vid]),
                              "'%s' may hold the 'none' sentinel (65535) and is used as an index / next state without "
                              "having been compared with it on this path" % carriers[vid])
        else:
            chk.ok("SENT", A.site(f), "%s: %s compared with the sentinel before every use as an index (%d use(s))" % (
                f.o["n"], sorted(carriers.values()), n_uses))


def empty_guard(chk, fx):
    """pop_stacks looks at the new top only after it has seen that the stack is not empty."""
    chk.rule("EMPTY", "top-of-stack reads in pop_stacks", 1)
    f = first_inst(fx, P + "pop_stacks")
    flow.assert_structured(f)
    bad = None
    n = 0

    def size_rel(cond, outcome):
        """True/False when (cond, outcome) says the cursor stack is non-empty / empty, else None."""
        a = AI.atom_with_outcome(cond, outcome)
        if a[0] == "cmp" and a[2][0] == "call" and (a[2][1] or "").endswith("::size") and a[3] == ("const", 0) and \
                "cursor_stack" in AI.tstr(a[2]):
            if a[1] in ("!=", ">"):
                return True
            if a[1] in ("==", "<="):
                return False
        if a[0] in ("truth", "false") and a[1][0] == "un" and a[1][1] == "!":
            return None
        if a[0] in ("truth", "false") and a[1][0] == "call" and (a[1][1] or "").endswith("::empty") and "cursor_stack" in AI.tstr(a[1]):
            return a[0] == "false"
        return None

    for ev, term_ in flow.paths(f.body):
        nonempty = False
        popped = False
        flags = {}          # bool local -> (init node, evaluated after the pop?)
        for e in ev:
            if e[0] == "cond":
                r = size_rel(e[1], e[2])
                if r is not None:
                    nonempty = r
                else:
                    vid = A.declref_id(e[1])
                    if vid in flags and flags[vid][1]:
                        for alt in flow.cond_atoms(flags[vid][0], e[2]):
                            for _, c2, o2 in alt:
                                r2 = size_rel(c2, o2)
                                if r2 is not None:
                                    nonempty = r2
            nodes = [e[1]] if e[0] in ("stmt", "cond", "return") else []
            for nd in nodes:
                if e[0] == "stmt" and nd.get("k") == "DeclStmt":
                    for d in nd.get("decls", ()):
                        if d.get("k") == "Var" and d.get("init") is not None and f.facts.T(d["t"]) in ("bool", "const bool"):
                            flags[d["id"]] = (d["init"], popped)
                for m in walk(nd):
                    if m.get("k") == "CXXMemberCallExpr" and (m.get("callee") or {}).get("n") in ("back", "front") and \
                            "cursor_stack" in A.field_names(A.access_path(A.call_object(m))):
                        n += 1
                        if popped and not nonempty:
                            bad = m
                    if m.get("k") == "CXXMemberCallExpr" and (m.get("callee") or {}).get("n") == "pop_back" and \
                            "cursor_stack" in A.field_names(A.access_path(A.call_object(m))):
                        popped = True
                        nonempty = False
    if bad is not None:
        chk.violation("EMPTY", A.site(f, bad), "EMPTY:pop_stacks:back-on-empty",
                      "cursor_stack.back() is evaluated after the pop on a path where the stack may be empty: reads "
                      "element -1 (undefined behaviour; not a constant expression for a failing constexpr parse)")
    else:
        chk.ok("EMPTY", A.site(f), "cursor_stack.back() is read only after size() != 0 was seen (%d read(s))" % n)


# ------------------------------------------------------------------------------------------------ POSB
def posb(chk, fx):
    """POSB: an element of a rule's right side is read only at a position that was compared with the rule's length.
    `right_sides[r][p]` has max_rule_element_count slots, but only the first r_elements hold symbols: the rest are
    value-initialised symbols whose idx is used as an index into the name / FIRST tables by every reader. On every
    structured path (first loop iteration, reassigned locals value-numbered so that a counter reads its initial value) the
    position read must have been tested `p < <rule>.r_elements` (or `p < <item>.after`, after <= r_elements by
    construction of items) before the read."""
    from . import pathsig as PSIG
    from .canon import Canon
    chk.rule("POSB", "reads of right_sides[rule][position] with the position bounded by the rule's length", 5)
    seen = set()

    def reads(cn_, node):
        out = []
        for n in walk(node):
            if n.get("k") != "ArraySubscriptExpr":
                continue
            b = strip(n["c"][0], casts=True)
            if b is None or b.get("k") != "ArraySubscriptExpr":
                continue
            bb = strip(b["c"][0], casts=True)
            if bb is not None and bb.get("k") == "MemberExpr" and bb["m"]["q"].endswith("grammar_info::right_sides"):
                out.append(PSIG.Event("read", cn_.c(n["c"][1]), n))
        return out

    for f in fx.all_fns():
        q = f.o["q"]
        if f.is_pattern or f.body is None or not q.startswith("ctpg::parser::"):
            continue
        if (q, f.o.get("l")) in seen:
            continue
        if not any(True for _ in reads(Canon(f), f.body)):
            continue
        seen.add((q, f.o.get("l")))
        if q.endswith("::analyze_rule"):
            continue            # the writer: positions are the template indices of the rule's own tuple (TIX)
        cn = Canon(f, uniform=True, noinline=True)
        try:
            conds, nodes = PSIG.event_conditions(cn, f.body, events_of=reads, unroll=1, versioned=True,
                                                 drop=lambda a: False)
        except AnalysisIncomplete as e:
            chk.defer_incomplete("POSB: %s: %s" % (f.o["n"], e))
            continue
        for (kind, p), dnf in conds.items():
            if kind != "read":
                continue
            site = A.site(f, nodes[(kind, p)])
            bad = None
            for conj in dnf:
                ok = False
                for t, pol in conj:
                    if pol and t.startswith("(%s < " % p) and (t.endswith(".r_elements)") or t.endswith(".after)")):
                        ok = True
                        break
                if not ok:
                    bad = conj
                    break
            if bad is None:
                chk.ok("POSB", site, "position %s is below the rule's length on every path to the read" % p[:60])
            elif p.startswith("($1 - ") or p.startswith("(($1 - "):
                chk.ok("POSB", site, "position counts down from the caller's rule_size - 1 (= the rule's own length, a "
                                     "template constant of analyze_rule)")
            else:
                chk.violation("POSB", site, "POSB:%s" % f.o["n"],
                              "right_sides[...][%s] is read on a path where the position was not compared with the rule's "
                              "length (r_elements): for a shorter (or empty) rule the slot holds a value-initialised symbol "
                              "whose idx then indexes the name / set tables (path: %s)" % (
                                  p[:60], PSIG.show({bad})[:160]))
