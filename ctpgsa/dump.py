"""Developer tool: pretty-print the extracted tree of a function.
usage: python3 -m ctpgsa.dump <tu.cpp|witness|all> <function-short-name-or-qname> [--pattern] [--all]
"""
import sys

from . import facts as F


def fmt(u, n, ind=0, key="", out=None, maxt=50):
    if n is None:
        out.append(" " * ind + key + "null")
        return
    s = " " * ind + key + n.get("k", "?")
    if "l" in n:
        s += " @" + n["l"]
    for a in ("op", "v", "ck", "member", "name", "param", "cv", "constexpr", "taken", "vk", "n", "postfix", "is",
              "listinit", "elidable", "indirect", "implicit", "rightfold", "pack", "ut"):
        if a in n:
            s += " %s=%s" % (a, n[a])
    for a in ("d", "m", "callee", "ctor", "conv"):
        if a in n:
            d = n[a]
            s += " %s=%s[%s#%s]" % (a, d["q"], d["k"], d["id"])
            for b in ("cv", "const", "static", "copy", "move", "implicit", "trivial", "cx"):
                if b in d:
                    s += " %s=%s" % (b, d[b])
    if n.get("t"):
        s += " :" + u.T(n["t"])[:maxt]
    out.append(s)
    for a in F.NAMED_CHILDREN:
        if isinstance(n.get(a), dict):
            fmt(u, n[a], ind + 2, a + ": ", out, maxt)
    if isinstance(n.get("loopvar"), dict):
        fmt(u, n["loopvar"], ind + 2, "loopvar: ", out, maxt)
    for d in n.get("decls", []):
        if "k" in d:
            fmt(u, d, ind + 2, "decl: ", out, maxt)
    for c in n.get("c", []):
        fmt(u, c, ind + 2, "", out, maxt)


def main(argv):
    which, name = argv[0], argv[1]
    pat = "--pattern" in argv
    allf = "--all" in argv
    if which == "witness":
        tus = F.witness_tus()
    elif which == "all":
        tus = F.witness_tus() + F.repo_tus()
    else:
        tus = [which]
    fx = F.Facts(tus)
    shown = 0
    for fn in fx.all_fns():
        if fn.o["n"] != name and fn.o["q"] != name:
            continue
        if fn.is_pattern != pat:
            continue
        u = fn.facts
        print("=" * 100)
        print(fn.o["q"], "@" + fn.o["l"], fn.o["tmpl"], "cx=%s" % fn.o["cx"], "const=%s" % fn.o.get("const"),
              "static=%s" % fn.o.get("static"), "tu=" + fn.tu.split("/")[-1])
        print("  full:", fn.full[:300])
        print("  targs:", (fn.o.get("targs") or "")[:300])
        print("  params:", [(p["n"], u.T(p["t"])[:60], p.get("ref")) for p in fn.o["params"]])
        print("  ret:", u.T(fn.o["ret"])[:100])
        for i in fn.o.get("inits", []):
            out = []
            fmt(u, i.get("init"), 4, "init %s: " % (i.get("member") or i.get("base") or "deleg"), out)
            print("\n".join(out))
        out = []
        fmt(u, fn.body, 2, "", out)
        print("\n".join(out))
        shown += 1
        if not allf:
            break
    if not shown:
        print("no such function; candidates:", sorted(q for q in fx.qnames() if name in q)[:40])


if __name__ == "__main__":
    main(sys.argv[1:])
