"""DEPORD — dependence order of the statements of a function ("may these two statements be swapped?").

Path signatures say *under which conditions* something happens, not *in which order*. Moving a statement across
another one it depends on compiles, keeps every condition, and changes behaviour (the release's `sp.update(start,
start + 1); ++start;` versus `++start; sp.update(...)`; marking accepting states before or after the accepting flag is
merged). This module computes, for every structured path (one loop iteration), the read / write sets of every
statement-level operation in canonical access paths (locals keep their identity, reference locals are aliases, effects
of ctpg callees are summarised on their reference parameters / members and substituted, two levels deep), and from
them the set of ordered pairs (a before b) of operations that conflict (write-read, read-write, write-write on
overlapping paths) and never occur in the opposite order. The pairs of the reviewed tree are frozen
(ctpgsa/golden/dep_<name>.json); a check recomputes them:
   frozen (a, b), both operations still exist, and the tree has (b, a) but not (a, b)  -> violation (order reversed)
   operation texts that no longer exist                                                 -> the pair is skipped
   fewer than a quarter of a function's frozen pairs can be matched                     -> unknown shape: exit 2
Reordering independent statements, renaming, introducing or removing temporaries does not create or reverse a pair.
"""
import json
import os
import re

from . import astq as A
from . import flow
from .canon import Canon
from .facts import walk, strip, kids, VERIF, AnalysisIncomplete

GOLDEN_DIR = os.path.join(VERIF, "ctpgsa", "golden")
_SUMMARY = {}


def _norm_callee_path(p):
    """Callee-local names inside a path make that component a wildcard."""
    return re.sub(r"\[[^\[\]]*\?v?\w+[^\[\]]*\]", "[*]", p)


def _components(p):
    out, cur, depth = [], "", 0
    for ch in p:
        if ch == "[":
            if depth == 0 and cur:
                out.append(cur)
                cur = ""
            depth += 1
            cur += ch
        elif ch == "]":
            depth -= 1
            cur += ch
            if depth == 0:
                out.append(cur)
                cur = ""
        elif ch == "." and depth == 0:
            if cur:
                out.append(cur)
            cur = ""
        else:
            cur += ch
    if cur:
        out.append(cur)
    return out


def overlap(a, b):
    ca, cb = _components(a), _components(b)
    for x, y in zip(ca, cb):
        if x == y or x == "[*]" or y == "[*]":
            continue
        return False
    return True


class RW:
    """Read / write sets of one statement-level node."""

    def __init__(self, cn, depth=0, stack=()):
        self.cn = cn
        self.R, self.W = set(), set()
        self.depth = depth
        self.stack = stack

    def add(self, path, ctx):
        if not path or path.startswith("<") or path in ("this",):
            return
        if "r" in ctx:
            self.R.add(path)
        if "w" in ctx:
            self.W.add(path)

    def visit(self, n, ctx="r"):
        s = strip(n, casts=True)
        if s is None:
            return
        k = s.get("k")
        cn = self.cn
        if k in ("IntegerLiteral", "CharacterLiteral", "CXXBoolLiteralExpr", "StringLiteral", "CXXNullPtrLiteralExpr",
                 "CXXThisExpr", "LambdaExpr", "UnaryExprOrTypeTraitExpr"):
            return
        if k == "DeclRefExpr":
            d = s["d"]
            if d["k"] in ("Var", "ParmVar", "Binding") and not d.get("global") and not d.get("staticmember"):
                vid = d["id"]
                if vid in cn.defs:            # reference alias: what it names
                    self.visit(cn.defs[vid], ctx)
                elif ctx != "addr":
                    self.add(cn.c(s), ctx)
            return
        if k == "MemberExpr":
            base = (s.get("c") or [None])[0]
            if s["m"]["k"] == "Field":
                if ctx != "addr":
                    self.add(cn.c(s), ctx)
                self.visit(base, "addr")
            else:
                self.visit(base, "addr")
            return
        if k == "ArraySubscriptExpr" or (k == "CXXOperatorCallExpr" and s.get("op") == "[]" and len(s.get("c") or []) == 3):
            base, idx = (s["c"][0], s["c"][1]) if k == "ArraySubscriptExpr" else (s["c"][1], s["c"][2])
            if ctx != "addr":
                self.add(cn.c(s), ctx)
            self.visit(base, "addr")
            self.visit(idx, "r")
            return
        if (k == "UnaryOperator" and s.get("op") == "*") or \
                (k == "CXXOperatorCallExpr" and s.get("op") == "*" and len(s.get("c") or []) == 2):
            operand = s["c"][0] if k == "UnaryOperator" else s["c"][1]
            if ctx != "addr":
                self.add(cn.c(s), ctx)
            self.visit(operand, "r")
            return
        if (k == "UnaryOperator" and s.get("op") in ("++", "--")) or \
                (k == "CXXOperatorCallExpr" and s.get("op") in ("++", "--")):
            operand = s["c"][0] if k == "UnaryOperator" else s["c"][1]
            self.visit(operand, "rw")
            return
        if k == "UnaryOperator" and s.get("op") == "&":
            self.visit(s["c"][0], "r")
            return
        if k in ("BinaryOperator", "CompoundAssignOperator") or \
                (k == "CXXOperatorCallExpr" and s.get("op") in A.ASSIGN_OPS and len(s.get("c") or []) == 3):
            a, b = (s["c"][0], s["c"][1]) if k != "CXXOperatorCallExpr" else (s["c"][1], s["c"][2])
            op = s.get("op")
            if op == "=":
                self.visit(b, "r")
                self.visit(a, "w")
            elif op in A.ASSIGN_OPS:
                self.visit(b, "r")
                self.visit(a, "rw")
            else:
                self.visit(a, "r")
                self.visit(b, "r")
            return
        if k in ("CallExpr", "CXXMemberCallExpr", "CXXOperatorCallExpr"):
            self.call(s)
            return
        if k in ("CXXConstructExpr", "CXXTemporaryObjectExpr"):
            for c in s.get("c") or []:
                self.visit(c, "r")
            return
        if k == "DeclStmt":
            for d in s.get("decls", ()):
                if d.get("k") == "Var":
                    if d["id"] in cn.defs:
                        continue              # a reference alias is not an access
                    if d.get("init") is not None:
                        self.visit(d["init"], "r")
                    self.add(cn.lname(d["id"], d["n"]), "w")
            return
        if k == "ReturnStmt":
            self.visit(s.get("value"), "r")
            return
        for c in kids(s):
            self.visit(c, "r")

    def call(self, s):
        cn = self.cn
        c = s.get("callee") or {}
        k = s.get("k")
        if k == "CXXOperatorCallExpr":
            args = (s.get("c") or [])[1:]
            obj = None
            if c.get("k") == "CXXMethod" and not c.get("static") and args:
                obj, args = args[0], args[1:]
        else:
            args = A.call_args(s)
            obj = A.call_object(s)
            if k == "CXXMemberCallExpr" and obj is None:
                obj = None
        ptypes = A.split_params(cn.fn.facts.T(c.get("t"))) if c else []
        g = cn.fn.facts.by_id.get(c.get("id")) if c else None
        usable = g is not None and g.body is not None and c.get("f") == "ctpg" and self.depth < 2 and \
            g.o["id"] not in self.stack and g is not cn.fn
        # arguments
        for i, a in enumerate(args):
            pt = ptypes[i] if i < len(ptypes) else ""
            if A.mutable_ref(pt):
                self.visit(a, "addr" if usable else "rw")
            else:
                self.visit(a, "r")
        if obj is not None:
            if usable:
                self.visit(obj, "addr")
            else:
                self.visit(obj, "r" if c.get("const") or not c else "rw")
        elif not c:
            self.visit((s.get("c") or [None])[0], "r")
        if not usable:
            return
        Rg, Wg = summary(g, self.depth + 1, self.stack + (cn.fn.o["id"],))
        back = _back_mapper(g, [cn.c(a) for a in args], cn.c(obj) if obj is not None else "")
        for p in Rg:
            q = back(p)
            if q:
                self.R.add(_norm_callee_path(q))
        for p in Wg:
            q = back(p)
            if q:
                self.W.add(_norm_callee_path(q))


def _back_mapper(g, argtxt, objtxt):
    """Maps an access path in the callee's canonical terms to the caller's (None: not visible to the caller)."""
    def back(p):
        m = re.match(r"(\*?)\$(\d+)(.*)", p)
        if m:
            star, i, rest = m.group(1), int(m.group(2)), m.group(3)
            if i >= len(argtxt) or i >= len(g.o["params"]):
                return None
            if not g.o["params"][i].get("ref") and not star:
                return None          # the callee's own copy
            return star + argtxt[i] + rest
        if p.startswith("?") or p.startswith("*?") or p.startswith("@"):
            return None
        if objtxt not in ("", "this"):
            return objtxt + "." + p
        return p
    return back


def summary(g, depth, stack):
    key = (id(g.facts), g.o["id"], depth)
    if key in _SUMMARY:
        return _SUMMARY[key]
    _SUMMARY[key] = (set(), set())
    cn = Canon(g, uniform=True, noinline=True)
    rw = RW(cn, depth, stack)
    roots = [g.body] + [i.get("init") for i in g.o.get("inits", ())]
    for r in roots:
        if r is None:
            continue
        for st in _statements(r):
            rw.visit(st, "r")
    for i in g.o.get("inits", ()):
        if i.get("member") and i.get("written"):
            rw.W.add(i["member"])
    _SUMMARY[key] = (rw.R, rw.W)
    return _SUMMARY[key]


def _statements(body, tagged=False):
    """Statement-level nodes (expressions statements, declarations, conditions, returns) of a body."""
    out = []
    conds = set()

    def rec(s):
        if s is None:
            return
        k = s.get("k")
        if k == "CompoundStmt":
            for c in s.get("c") or []:
                rec(c)
        elif k == "IfStmt":
            rec(s.get("init"))
            if s.get("constexpr") and s.get("taken"):
                if s["taken"] in ("then", "else"):
                    rec(s.get(s["taken"]))
                return
            out.append(s.get("cond"))
            conds.add(id(s.get("cond")))
            rec(s.get("then"))
            rec(s.get("else"))
        elif k in ("WhileStmt", "DoStmt"):
            out.append(s.get("cond"))
            conds.add(id(s.get("cond")))
            rec(s.get("body"))
        elif k == "ForStmt":
            rec(s.get("init"))
            out.append(s.get("cond"))
            conds.add(id(s.get("cond")))
            out.append(s.get("inc"))
            rec(s.get("body"))
        elif k == "CXXForRangeStmt":
            out.append(s.get("range"))
            rec(s.get("body"))
        elif k in ("BreakStmt", "ContinueStmt", "NullStmt"):
            pass
        else:
            out.append(s)
    rec(body)
    if tagged:
        return [("cond" if id(x) in conds else "stmt", x) for x in out if x is not None]
    return [x for x in out if x is not None]


_HELPER_OPS = {}


def _helper_ops(f, lab, cn, node):
    """Operations of the same-class helper functions called (on this object) inside `node`, in the caller's terms:
    extracting statements into a private helper, or inlining one, leaves the sequence of operations as it was."""
    out = []
    from .pathsig import _subst
    for n in walk(node):
        if n.get("k") != "CXXMemberCallExpr":
            continue
        c = n.get("callee") or {}
        if c.get("f") != "ctpg" or c.get("parent") != f.o.get("parent"):
            continue
        g = f.facts.by_id.get(c.get("id"))
        if g is None or g.body is None or g is f:
            continue
        obj = A.call_object(n)
        if obj is not None and lab.c(obj) not in ("", "this"):
            continue
        key = (id(g.facts), g.o["id"])
        if key not in _HELPER_OPS:
            lab_g = Canon(g, uniform=True)
            cn_g = Canon(g, uniform=True, noinline=True)
            raw = []
            for kind, st in _statements(g.body, tagged=True):
                rw = RW(cn_g, 1, (f.o["id"],))
                rw.visit(st, "r")
                sn = strip(st, casts=True)
                if kind == "cond":
                    text = "test " + lab_g.c(st)
                elif sn is not None and sn.get("k") == "ReturnStmt":
                    continue          # the value travels through the call expression of the caller
                else:
                    text = _label(lab_g, st)
                raw.append((text, frozenset(rw.R), frozenset(rw.W)))
            _HELPER_OPS[key] = raw
        args = A.call_args(n)
        lab_args = [lab.c(a) for a in args]
        back = _back_mapper(g, [cn.c(a) for a in args], "")
        import zlib
        hid = 9000 + 10 * (zlib.crc32(g.o["n"].encode()) % 97)      # stable across trees: by the helper's name
        ren = lambda t: re.sub(r"\?v(\d+)", lambda m: "?v%d" % (hid + int(m.group(1))), t)
        for text, R, W in _HELPER_OPS[key]:
            R2 = {_norm_callee_path(q) for q in (back(p) for p in R) if q}
            W2 = {_norm_callee_path(q) for q in (back(p) for p in W) if q}
            out.append((ren(_subst(text, lab_args)), frozenset(R2), frozenset(W2)))
    return out


def operations(f):
    """[(path index, [(label, R, W)])] for every structured path of f (one loop iteration)."""
    lab = Canon(f, uniform=True)
    cn = Canon(f, uniform=True, noinline=True)
    cache = {}
    res = []
    for ev, term_ in flow.paths(f.body, unroll=1):
        ops = []
        temps = {}        # name of a never-reassigned temporary -> (index of its declaration, what its initialiser read)
        for e in ev:
            if e[0] not in ("stmt", "cond", "return"):
                continue
            node = e[1]
            key = id(node)
            if key not in cache:
                rw = RW(cn)
                if e[0] == "return":
                    rw.visit(node.get("value"), "r")
                    text = "return " + (lab.c(node["value"]) if node.get("value") is not None else "")
                elif e[0] == "cond":
                    rw.visit(node, "r")
                    text = "test " + lab.c(node)
                else:
                    rw.visit(node, "r")
                    text = _label(lab, node)
                cache[key] = (text, frozenset(rw.R), frozenset(rw.W))
            text, R, W = cache[key]
            hkey = ("h", key)
            if hkey not in cache:
                cache[hkey] = _helper_ops(f, lab, cn, node if e[0] != "return" else node.get("value"))
            ops.extend(cache[hkey])
            # a statement that uses a temporary depends on what the temporary was computed from, as long as none of
            # that was written in between (then `auto t = e; use(t)` and `use(e)` order alike)
            R2 = set(R)
            for name in R:
                if name in temps:
                    j, Ri = temps[name]
                    if not any(overlap(w, r) for k in range(j + 1, len(ops)) for w in ops[k][2] for r in Ri):
                        R2 |= Ri
            if e[0] == "stmt":
                sn = strip(node, casts=True)
                if sn is not None and sn.get("k") == "DeclStmt":
                    for d in sn.get("decls", ()):
                        if d.get("k") == "Var" and d["id"] in lab.defs and d["id"] not in cn.defs:
                            temps[cn.lname(d["id"], d["n"])] = (len(ops), frozenset(R2))
            ops.append((text, frozenset(R2), W))
        res.append(ops)
    return res


def _label(lab, node):
    s = strip(node, casts=True)
    if s is not None and s.get("k") == "DeclStmt":
        parts = []
        for d in s.get("decls", ()):
            if d.get("k") == "Var":
                init = lab.c(d["init"]) if d.get("init") is not None else ""
                if d["id"] in lab.defs:
                    parts.append("decl " + init)
                else:
                    parts.append("decl %s = %s" % (lab.lname(d["id"], d["n"]), init))
        return "; ".join(parts)
    return lab.c(node)


def pairs(f):
    """{(a, b): kind} of conflicting operations ordered a-before-b on some path and never b-before-a."""
    fwd = {}
    for ops in operations(f):
        for i in range(len(ops)):
            ta, Ra, Wa = ops[i]
            if not (Ra or Wa):
                continue
            for j in range(i + 1, len(ops)):
                tb, Rb, Wb = ops[j]
                if ta == tb:
                    continue
                kind = None
                if any(overlap(w, r) for w in Wa for r in Rb):
                    kind = "write-read"
                elif any(overlap(r, w) for r in Ra for w in Wb):
                    kind = "read-write"
                elif any(overlap(w, w2) for w in Wa for w2 in Wb):
                    kind = "write-write"
                if kind:
                    fwd.setdefault((ta, tb), kind)
    return {k: v for k, v in fwd.items() if (k[1], k[0]) not in fwd}, fwd


def path_for(name):
    return os.path.join(GOLDEN_DIR, "dep_" + name + ".json")


def select(fx, q, nparams=None):
    fns = [f for f in fx.fns(q) if not f.is_pattern and not f.o.get("implicit") and not f.o.get("defaulted") and
           f.body is not None and (nparams is None or len(f.o["params"]) == nparams)]
    return fns


def freeze(fx, name, q, nparams=None):
    fns = select(fx, q, nparams)
    if not fns:
        raise AnalysisIncomplete("cannot freeze dependence order of %s: not instantiated" % q)
    ordered, _ = pairs(fns[0])
    d = {"function": q, "pairs": sorted([a, b, k] for (a, b), k in ordered.items())}
    if nparams is not None:
        d["nparams"] = nparams
    os.makedirs(GOLDEN_DIR, exist_ok=True)
    json.dump(d, open(path_for(name), "w"), indent=1)
    return len(d["pairs"])


def check(chk, fx, rule, name):
    p = path_for(name)
    if not os.path.exists(p):
        chk.incomplete("%s: frozen dependence order %s missing" % (rule, name))
    g = json.load(open(p))
    fns = select(fx, g["function"], g.get("nparams"))
    if not fns:
        chk.incomplete("%s: %s not found / not instantiated" % (rule, g["function"]))
    f = fns[0]
    ordered, fwd = pairs(f)
    from .canon import best_renaming, rename_text
    ref_labels = {x for a, b, _ in g["pairs"] for x in (a, b)}
    mp = best_renaming(ref_labels, {x for ab in fwd for x in ab})
    if mp:
        fwd = {(rename_text(mp, a), rename_text(mp, b)): k for (a, b), k in fwd.items()}
    labels = set()
    for a, b in fwd:
        labels.add(a)
        labels.add(b)
    matched = 0
    stable = 0

    def volatile(t):
        # the declaration of a temporary that the canonical forms replace by its initialiser: such operations come and
        # go with every refactoring, they never count towards "can the frozen order still be recognised"
        return t.startswith("decl ") and not t.startswith("decl ?v")
    for a, b, kind in g["pairs"]:
        vol = volatile(a) or volatile(b)
        if not vol:
            stable += 1
        if a not in labels or b not in labels:
            continue
        site = A.site(f)
        if (a, b) in fwd:
            matched += 0 if vol else 1
            chk.ok(rule, site, "'%s' stays before '%s' (%s)" % (a[:60], b[:60], kind))
        elif (b, a) in fwd:
            matched += 0 if vol else 1
            chk.violation(rule, site, "%s:%s:%s" % (rule, f.o["n"], _short(a, b)),
                          "in %s the operation '%s' must come before '%s' (%s dependence on %s); in the code the order "
                          "is reversed" % (f.o["n"], a[:120], b[:120], kind, _shared(f, a, b)))
    if stable and matched * 4 < stable:
        chk.defer_incomplete("%s: only %d of the %d frozen dependences of %s can be matched to the code (unknown shape)" % (
            rule, matched, stable, f.o["n"]))
    return f


def _short(a, b):
    return re.sub(r"[^A-Za-z0-9_]+", "-", (a[:28] + "<" + b[:28])).strip("-")


def _shared(f, a, b):
    import re as _re
    strip_names = lambda t: _re.sub(r"\?v\d+", "?v", t)
    a, b = strip_names(a), strip_names(b)
    for ops in operations(f):
        ops = [(strip_names(o[0]), o[1], o[2]) for o in ops]
        da = [o for o in ops if o[0] == a]
        db = [o for o in ops if o[0] == b]
        if da and db:
            for x in (da[0][1] | da[0][2]):
                for y in (db[0][1] | db[0][2]):
                    if overlap(x, y) and (x in da[0][2] or y in db[0][2]):
                        return x if len(x) <= len(y) else y
    return "shared state"


def group(chk, fx, rule, what, names, minimum=None):
    chk.rule(rule, what, minimum if minimum is not None else len(names))
    for n in names:
        check(chk, fx, rule, n)
