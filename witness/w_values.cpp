// Witness TU: non-trivial value types (std::string, std::vector, move-only), so that copies would be
// legal and silent if the library made them, and the std::vector stack specialisations are chosen.
#include <ctpg/ctpg.hpp>
#include <memory>
#include <sstream>
#include <string>
#include <vector>

using namespace ctpg;
using namespace ctpg::buffers;
using namespace ctpg::ftors;

namespace w_values
{
    constexpr char word_pattern[] = "[a-z]+";
    constexpr regex_term<word_pattern> word("word");
    constexpr typed_term sword(word, [](std::string_view sv) { return std::string(sv); });

    using list_t = std::vector<std::string>;
    constexpr nterm<list_t> list("list");
    constexpr nterm<std::string> item("item");

    // copyable but non-trivial values: std::string / std::vector<std::string>
    constexpr parser ps(
        list,
        terms(sword, ',', '!'),
        nterms(list, item),
        rules(
            list(item) >= [](std::string&& s) { list_t l; l.emplace_back(std::move(s)); return l; },
            list(list, ',', item) >= emplace_back<1, 3>{},
            list(item, '!', list) >= push_back<3, 1>{},
            list(list, error, item) >= _e1,
            item(sword) >= [](std::string s) { return s; }
        )
    );

    void all()
    {
        std::stringstream ss;
        std::string text = "a,b";
        (void)ps.parse(cstring_buffer("a,b"));          // third parser_value_stack_type specialisation
        (void)ps.parse(string_buffer("a,b"), ss);
        (void)ps.parse(parse_options{}.set_verbose(), string_view_buffer(text), ss);
        ps.write_diag_str(ss);
    }
}
