// Witness TU: non-trivial value types (std::string, std::vector, move-only), so that copies would be
// legal and silent if the library made them, and the std::vector stack specialisations are chosen.
#include <ctpg/ctpg.hpp>
#include <memory>
#include <sstream>
#include <string>
#include <vector>

using namespace ctpg;
using namespace ctpg::buffers;
using namespace ctpg::ftors;

namespace w_values
{
    constexpr char word_pattern[] = "[a-z]+";
    constexpr regex_term<word_pattern> word("word");
    constexpr typed_term sword(word, [](std::string_view sv) { return std::string(sv); });

    using list_t = std::vector<std::string>;
    constexpr nterm<list_t> list("list");
    constexpr nterm<std::string> item("item");

    // copyable but non-trivial values: std::string / std::vector<std::string>
    constexpr parser ps(
        list,
        terms(sword, ',', '!'),
        nterms(list, item),
        rules(
            list(item) >= [](std::string&& s) { list_t l; l.emplace_back(std::move(s)); return l; },
            list(list, ',', item) >= emplace_back<1, 3>{},
            list(item, '!', list) >= push_back<3, 1>{},
            list(list, error, item) >= _e1,
            item(sword) >= [](std::string s) { return s; }
        )
    );

    // functors handed over as named objects (lvalues): the parser must hold its own copies
    struct join_functor
    {
        int uses = 0;
        std::string operator()(std::string a, char, std::string b) const { return a + b; }
    };

    inline void lvalue_functors(std::stringstream& ss)
    {
        join_functor jf;
        auto ctx_single = [](int& ctx, std::string s) { ++ctx; return s; };
        parser pl(
            item,
            terms(sword, '+'),
            nterms(item),
            rules(
                item(sword, '+', item) >= jf,
                item(sword) >>= ctx_single
            )
        );
        int ctx = 0;
        (void)pl.context_parse(ctx, string_buffer("a+b"), ss);
    }

    void all()
    {
        std::stringstream ss;
        std::string text = "a,b";
        (void)ps.parse(cstring_buffer("a,b"));          // third parser_value_stack_type specialisation
        (void)ps.parse(string_buffer("a,b"), ss);
        (void)ps.parse(parse_options{}.set_verbose(), string_view_buffer(text), ss);
        ps.write_diag_str(ss);
        lvalue_functors(ss);
    }
}
