// Type-level witness (rule RULE-T): what the rule operators build, decided by the type checker. Nothing here is
// evaluated: every fact is a static_assert over decltype in an unevaluated context, so the TU keeps compiling up to the
// assertions even when a constructor body would no longer instantiate. A failing assertion is reported as a violation
// with its message; the file is compiled with -fsyntax-only, never linked or run.
#include <ctpg/ctpg.hpp>
#include <type_traits>

using namespace ctpg;

namespace w_ruletype
{
    template<typename T> struct rule_parts;
    template<bool RC, typename F, typename L, typename... R>
    struct rule_parts<detail::rule<RC, F, L, R...>>
    {
        using functor = F;
        static constexpr bool contextual = RC;
        static constexpr std::size_t arity = sizeof...(R);
    };
    template<typename T> using parts = rule_parts<std::remove_cv_t<std::remove_reference_t<T>>>;

    struct fn
    {
        int uses = 0;
        int operator()(char) const { return 0; }
        int operator()(int&, char) const { return 0; }
    };

    constexpr nterm<int> n("n");
    inline fn lv;
    inline const fn clv{};

    // the functor is stored by value (decayed) whatever the value category and constness of the argument
    static_assert(std::is_same_v<parts<decltype(n('a') >= lv)>::functor, fn>, "RULE-T: operator>= stores a copy of an lvalue functor");
    static_assert(std::is_same_v<parts<decltype(n('a') >= clv)>::functor, fn>, "RULE-T: operator>= stores a non-const copy of a const lvalue functor");
    static_assert(std::is_same_v<parts<decltype(n('a') >= fn{})>::functor, fn>, "RULE-T: operator>= stores an rvalue functor by value");
    static_assert(std::is_same_v<parts<decltype(n('a') >>= lv)>::functor, fn>, "RULE-T: operator>>= stores a copy of an lvalue functor");
    static_assert(std::is_same_v<parts<decltype(n('a') >>= clv)>::functor, fn>, "RULE-T: operator>>= stores a non-const copy of a const lvalue functor");
    static_assert(std::is_same_v<parts<decltype(n('a') >>= fn{})>::functor, fn>, "RULE-T: operator>>= stores an rvalue functor by value");
    static_assert(std::is_same_v<parts<decltype(n('a'))>::functor, std::nullptr_t>, "RULE-T: a rule without functor has the nullptr_t functor");

    // the contextual flag: >>= sets it, >= and a bare rule do not, [prec] keeps it in either order
    static_assert(!parts<decltype(n('a'))>::contextual, "RULE-T: a bare rule is not contextual");
    static_assert(!parts<decltype(n('a') >= lv)>::contextual, "RULE-T: operator>= gives a non-contextual rule");
    static_assert(parts<decltype(n('a') >>= lv)>::contextual, "RULE-T: operator>>= gives a contextual rule");
    static_assert(parts<decltype((n('a') >>= lv)[2])>::contextual, "RULE-T: [prec] after >>= keeps the rule contextual");
    static_assert(parts<decltype(n('a')[2] >>= lv)>::contextual, "RULE-T: >>= after [prec] gives a contextual rule");
    static_assert(!parts<decltype((n('a') >= lv)[2])>::contextual, "RULE-T: [prec] after >= keeps the rule non-contextual");
    static_assert(std::is_same_v<parts<decltype((n('a') >>= lv)[2])>::functor, fn>, "RULE-T: [prec] keeps the functor type");

    // literals on the right side become terms, nterms and terms stay
    static_assert(parts<decltype(n('a', "bc", n))>::arity == 3, "RULE-T: one right-side element per argument");
    static_assert(std::is_same_v<decltype(detail::make_rule_item('a')), char_term>, "RULE-T: a char literal becomes a char_term");
    static_assert(std::is_same_v<decltype(detail::make_rule_item("bc")), string_term<3>>, "RULE-T: a string literal becomes a string_term of its size");
    static_assert(std::is_same_v<decltype(detail::make_rule_item(n)), nterm<int>>, "RULE-T: an nterm stays an nterm");
}
