// Compile-fail witness for C07 (rule CEVAL): constant evaluation of REJECTED inputs must itself be a constant
// expression. If one of these initialisers is not a constant expression the TU does not compile; the check reports
// the compiler's diagnostic. This is a witness over a handful of inputs, not the deciding rule (TAG / EMPTY / ITER /
// CEX decide the causes structurally); it is kept because the property is literally about the constant evaluator.
#include <ctpg/ctpg.hpp>

using namespace ctpg;
using namespace ctpg::buffers;
using namespace ctpg::ftors;

namespace w_cexeval
{
    constexpr char number_pattern[] = "[1-9][0-9]*";
    constexpr regex_term<number_pattern> number("number");
    constexpr nterm<int> list("list");
    constexpr nterm<int> item("item");

    constexpr int to_int(std::string_view sv)
    {
        int r = 0;
        for (char c : sv) r = r * 10 + (c - '0');
        return r;
    }

    constexpr parser p(
        list,
        terms(number, ',', ';'),
        nterms(list, item),
        rules(
            list() >= val(0),
            list(list, item, ';') >= [](int a, int b, skip) { return a + b; },
            list(list, error, ';') >= _e1,
            item(number) >= [](std::string_view sv) { return to_int(sv); },
            item(item, ',', number) >= [](int a, skip, std::string_view sv) { return a + to_int(sv); }
        )
    );

    // no error rules: a syntax error unwinds the whole stack
    constexpr nterm<int> s("s");
    constexpr parser q(s, terms('a', 'b'), nterms(s), rules(s('a') >= val(1), s(s, 'b') >= [](int x, skip) { return x + 1; }));

    constexpr auto recovered = p.parse(cstring_buffer("1,,2; 3;"));
    static_assert(recovered.has_value() && recovered.value() == 3);
    constexpr auto lex_error = p.parse(cstring_buffer("1,2; ?"));
    static_assert(!lex_error.has_value());
    constexpr auto syn_error = p.parse(cstring_buffer("1,2"));
    static_assert(!syn_error.has_value());


    constexpr auto unwound = q.parse(cstring_buffer("ba"));
    static_assert(!unwound.has_value());
    constexpr auto lex2 = q.parse(cstring_buffer("a?"));
    static_assert(!lex2.has_value());

    // a literal value type without a default constructor: the fixed-capacity value stack (and with it constant
    // evaluation) exists only if the value variant itself stays default-constructible
    struct amount
    {
        int v;
        constexpr explicit amount(int v) : v(v) {}
    };
    constexpr nterm<amount> total("total");
    constexpr parser pa(total, terms(number, '+'), nterms(total),
        rules(
            total(number) >= [](std::string_view sv) { return amount(to_int(sv)); },
            total(total, '+', number) >= [](amount a, skip, std::string_view sv) { return amount(a.v + to_int(sv)); }
        ));
    constexpr auto sum_ok = pa.parse(cstring_buffer("1+20+300"));
    static_assert(sum_ok.has_value() && sum_ok.value().v == 321);
    constexpr auto sum_bad = pa.parse(cstring_buffer("1++2"));
    static_assert(!sum_bad.has_value());

    constexpr char pattern[] = "a(b|c)*";
    constexpr regex::expr<pattern> r;
    constexpr bool m2 = r.match("xb");
    constexpr bool m3 = r.match("abx");
    static_assert(!m2 && !m3);
}
