// Witness TU (never executed): forces instantiation of the parser machinery in the shapes the
// rules need to see. Compiled with -fsyntax-only by the extractor.
#include <ctpg/ctpg.hpp>
#include <sstream>
#include <string>
#include <vector>

using namespace ctpg;
using namespace ctpg::buffers;
using namespace ctpg::ftors;

namespace w_core
{
    constexpr char number_pattern[] = "[1-9][0-9]*";
    constexpr char ident_pattern[] = "[a-z]+";

    constexpr regex_term<number_pattern> number("number");
    constexpr regex_term<ident_pattern> ident("ident", 0, associativity::no_assoc);
    constexpr char_term o_plus('+', 1, associativity::ltor);
    constexpr char_term o_minus('-', 1, associativity::ltor);
    constexpr char_term o_mul('*', 2, associativity::ltor);
    constexpr char_term o_pow('^', 3, associativity::rtol);
    constexpr string_term kw_let("let");
    constexpr typed_term tnum(number, [](std::string_view sv) { return int(sv.size()); });

    struct ctx_t
    {
        int reductions = 0;
    };

    struct nocopy_ctx
    {
        nocopy_ctx() = default;
        nocopy_ctx(const nocopy_ctx&) = delete;
        nocopy_ctx(nocopy_ctx&&) = default;
        int reductions = 0;
    };

    constexpr nterm<int> expr("expr");
    constexpr nterm<int> stmt("stmt");
    constexpr nterm<int> stmts("stmts");
    constexpr nterm<int> opt_semi("opt_semi");
    constexpr nterm<no_type> nothing("nothing");

    constexpr int to_int(std::string_view sv)
    {
        int r = 0;
        for (char c : sv) r = r * 10 + (c - '0');
        return r;
    }

    // precedence/associativity, explicit [n], empty rules, error rules, char/string/regex/typed terms,
    // default (nullptr) functors, >= and >>=
    constexpr parser p(
        stmts,
        terms(tnum, ident, o_plus, o_minus, o_mul, o_pow, kw_let, '(', ')', ';', '=', "<-"),
        nterms(expr, stmt, stmts, opt_semi, nothing),
        rules(
            stmts() >= val(0),
            stmts(stmts, stmt, ';') >= [](int a, int b, skip) { return a + b; },
            stmts(stmts, error, ';') >= _e1,
            stmt(expr),
            stmt(kw_let, ident, '=', expr, opt_semi) >= [](skip, std::string_view, skip, int v, int) { return v; },
            stmt(ident, "<-", expr) >>= [](auto&&, std::string_view, skip, int v) { return v; },
            opt_semi() >= create<int>{},
            opt_semi(nothing, ';') >= val(1),
            nothing() >= create<no_type>{},
            expr(expr, '+', expr) >= [](int a, skip, int b) { return a + b; },
            expr(expr, '-', expr) >= [](int a, skip, int b) { return a - b; },
            expr(expr, '*', expr) >= [](int a, skip, int b) { return a * b; },
            expr(expr, '^', expr) >= [](int a, skip, int) { return a; },
            expr('-', expr)[4] >= [](skip, int a) { return -a; },
            expr('(', expr, ')') >= _e2,
            expr(tnum) >>= [](auto&&, int v) { return v; },
            expr(ident) >= [](std::string_view sv) { return int(sv.size()); }
        )
    );

    template<typename Ctx>
    void drive(Ctx&& c)
    {
        std::stringstream ss;
        std::string text = "let a = 1 + 2 * 3; a <- 4;";
        parse_options opts;
        opts.set_verbose().set_skip_newline(false);

        // cstring / string / string_view buffers x {no stream, std::ostream} x options
        (void)p.context_parse(std::forward<Ctx>(c), cstring_buffer("1+2;"));
        (void)p.context_parse(std::forward<Ctx>(c), string_buffer("1+2;"));
        (void)p.context_parse(std::forward<Ctx>(c), string_view_buffer(text));
        (void)p.context_parse(std::forward<Ctx>(c), cstring_buffer("1+2;"), ss);
        (void)p.context_parse(std::forward<Ctx>(c), string_buffer(std::move(text)), ss);
        (void)p.context_parse(std::forward<Ctx>(c), string_view_buffer("x"), ss);
        (void)p.context_parse(std::forward<Ctx>(c), opts, cstring_buffer("1+2;"), ss);
        (void)p.context_parse(std::forward<Ctx>(c), opts, string_buffer("1+2;"), ss);
        (void)p.context_parse(std::forward<Ctx>(c), opts, string_view_buffer("1"), ss);
    }

    void all()
    {
        std::stringstream ss;
        ctx_t c;
        const ctx_t cc;
        nocopy_ctx nc;

        drive(c);                 // T&
        drive(ctx_t{});           // prvalue -> T&&
        drive(nocopy_ctx{});      // move-only rvalue
        drive(nc);                // non-copyable lvalue
        (void)cc;

        (void)p.parse(cstring_buffer("1;"));
        (void)p.parse(string_buffer("1;"));
        (void)p.parse(string_view_buffer("1;"));
        (void)p.parse(cstring_buffer("1;"), ss);
        (void)p.parse(string_buffer("1;"), ss);
        (void)p.parse(string_view_buffer("1;"), ss);
        (void)p.parse(parse_options{}.set_verbose(), cstring_buffer("1;"), ss);
        (void)p.parse(parse_options{}.set_skip_whitespace(false), string_buffer("1;"), ss);
        (void)p.parse(parse_options{}, string_view_buffer("1;"), ss);

        p.write_diag_str(ss);
    }

    // const context: functors take it by const reference
    constexpr nterm<int> q("q");
    constexpr parser pc(
        q,
        terms('a'),
        nterms(q),
        rules(
            q('a') >>= [](const ctx_t& c, char) { return c.reductions; }
        )
    );

    void const_ctx()
    {
        const ctx_t cc;
        std::stringstream ss;
        (void)pc.context_parse(cc, cstring_buffer("a"));
        (void)pc.context_parse(cc, string_buffer("a"), ss);
        (void)pc.context_parse(cc, parse_options{}, string_view_buffer("a"), ss);
    }
}
