// Witness TU: user limits and a parser constructed at run time (not constexpr).
#include <ctpg/ctpg.hpp>
#include <sstream>

using namespace ctpg;
using namespace ctpg::buffers;
using namespace ctpg::ftors;

namespace w_limits
{
    struct my_limits
    {
        static const size_t state_count_cap = 40;
        static const size_t max_sit_count_per_state_cap = 30;
    };

    constexpr nterm<int> e("e");

    void all()
    {
        parser p(
            e,
            terms('a', '+'),
            nterms(e),
            rules(
                e('a') >= val(1),
                e(e, '+', e) >= [](int a, skip, int b) { return a + b; }
            ),
            use_generated_lexer{},
            my_limits{}
        );
        std::stringstream ss;
        (void)p.parse(cstring_buffer("a+a"));
        (void)p.parse(string_buffer("a+a"), ss);
        p.write_diag_str(ss);
    }
}
