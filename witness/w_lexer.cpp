// Witness TU: custom lexer, custom terms, the standalone regex matcher on every buffer / stream.
#include <ctpg/ctpg.hpp>
#include <sstream>
#include <string>

using namespace ctpg;
using namespace ctpg::buffers;
using namespace ctpg::ftors;

namespace w_lexer
{
    struct word_lexer
    {
        template<typename Iterator, typename ErrorStream>
        constexpr auto match(match_options, source_point, Iterator start, Iterator end, ErrorStream&)
        {
            if (start == end)
                return recognized_term{};
            if (*start >= '0' && *start <= '9')
                return recognized_term(0, 1);
            if (*start == ',')
                return recognized_term(1, 1);
            return recognized_term{};
        }
    };

    constexpr custom_term digit("digit", [](auto sv) { return int(sv[0]) - '0'; });
    constexpr custom_term comma("comma", [](auto) { return ','; });
    constexpr nterm<int> sum("sum");

    constexpr parser p(
        sum,
        terms(digit, comma),
        nterms(sum),
        rules(
            sum(digit),
            sum(sum, comma, digit) >= [](int a, skip, int b) { return a + b; }
        ),
        use_lexer<word_lexer>{}
    );

    constexpr char pattern[] = "(ab|c)*d{2}[^x-z]?.+";
    constexpr regex::expr<pattern> r;

    // functors that read everything a term value carries (value, source point, line, column)
    constexpr char num_pattern[] = "[0-9]+";
    constexpr regex_term<num_pattern> num("num");
    constexpr nterm<int> where("where");
    constexpr parser pw(
        where,
        terms(num, '@'),
        nterms(where),
        rules(
            where(num) >= [](term_value<std::string_view> v)
                { return int(v.get_value().size()) + int(v.get_line()) + int(v.get_column()) + int(v.get_sp().line); },
            where(where, '@', num) >= [](int a, term_value<char> at, const auto& n)
                { return a + int(at.get_column()) + int(n.get_sp().column); }
        )
    );

    void all()
    {
        (void)pw.parse(cstring_buffer("1@22"));
        std::stringstream ss;
        std::string text = "1,2";
        (void)p.parse(cstring_buffer("1,2"));
        (void)p.parse(string_buffer("1,2"), ss);
        (void)p.parse(parse_options{}.set_verbose(), string_view_buffer(text), ss);
        p.write_diag_str(ss);

        (void)r.match("abcdd");
        (void)r.match(cstring_buffer("abcdd"));
        (void)r.match(string_buffer("abcdd"));
        (void)r.match(string_view_buffer(text));
        (void)r.match(cstring_buffer("abcdd"), ss);
        (void)r.match(string_buffer("abcdd"), ss);
        (void)r.match(match_options{}.set_verbose(), string_view_buffer(text), ss);
        r.write_diag_str(ss);
        regex::expr<pattern>::debug_parse(ss);
        regex::write_regex_parser_diag_msg(ss);
    }
}
