// Witness TU: constexpr parser + constexpr parse / match (roots of the constexpr-closure rule). Only accepted inputs
// here, so that this TU compiles whenever the header does; rejected inputs are in w_cexeval.cpp.
#include <ctpg/ctpg.hpp>

using namespace ctpg;
using namespace ctpg::buffers;
using namespace ctpg::ftors;

namespace w_constexpr
{
    constexpr char number_pattern[] = "[1-9][0-9]*";
    constexpr regex_term<number_pattern> number("number");
    constexpr nterm<int> list("list");
    constexpr nterm<int> item("item");

    constexpr int to_int(std::string_view sv)
    {
        int r = 0;
        for (char c : sv) r = r * 10 + (c - '0');
        return r;
    }

    constexpr parser p(
        list,
        terms(number, ',', ';'),
        nterms(list, item),
        rules(
            list() >= val(0),
            list(list, item, ';') >= [](int a, int b, skip) { return a + b; },
            list(list, error, ';') >= _e1,
            item(number) >= [](std::string_view sv) { return to_int(sv); },
            item(item, ',', number) >= [](int a, skip, std::string_view sv) { return a + to_int(sv); }
        )
    );

    constexpr auto ok = p.parse(cstring_buffer("1,2; 3;"));
    static_assert(ok.has_value() && ok.value() == 6);
    constexpr char pattern[] = "a(b|c)*";
    constexpr regex::expr<pattern> r;
    constexpr bool m1 = r.match("abcb");
    static_assert(m1);
}
