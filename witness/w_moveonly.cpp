// Type-level witness for C14 (rule MOVE-W): a parser whose nonterminal AND typed-term values are move-only must
// compile on all three buffer kinds. Optional TU: when it does not compile the other checks still run and C14 reports
// the compiler's diagnostic (a copy of a semantic value was introduced somewhere on the transport path).
#include <ctpg/ctpg.hpp>
#include <memory>
#include <sstream>
#include <string>
#include <vector>

using namespace ctpg;
using namespace ctpg::buffers;
using namespace ctpg::ftors;

namespace w_moveonly
{
    constexpr char word_pattern[] = "[a-z]+";
    constexpr regex_term<word_pattern> word("word");

    // move-only values, nonterminal and typed term
    constexpr typed_term uword(word, [](std::string_view sv) { return std::make_unique<std::string>(sv); });
    using uptr = std::unique_ptr<std::string>;
    constexpr nterm<uptr> uitem("uitem");
    constexpr nterm<std::vector<uptr>> ulist("ulist");

    constexpr parser pu(
        ulist,
        terms(uword, ','),
        nterms(ulist, uitem),
        rules(
            ulist() >= create<std::vector<uptr>>{},
            ulist(ulist, uitem) >= emplace_back<1, 2>{},
            uitem(uword) >= [](uptr p) { return p; },
            uitem(uword, ',') >= construct<uptr, 1>{}
        )
    );


    struct mctx { int n = 0; };

    void all()
    {
        std::stringstream ss;
        std::string text = "a b";
        (void)pu.parse(cstring_buffer("a b"));
        (void)pu.parse(string_buffer("a b"), ss);
        (void)pu.parse(parse_options{}.set_verbose(), string_view_buffer(text), ss);
        mctx c;
        (void)pu.context_parse(c, string_buffer("a b"), ss);
        pu.write_diag_str(ss);
    }
}
