// Type-level witness for C13 (rules CTX-O, CTX-T): precedence applied AFTER a contextual functor, (rule >>= f)[n], must keep the
// rule contextual. The functor strictly requires the context, so losing the flag makes this TU ill-formed. Optional TU:
// when it does not compile, C13 reports the compiler's diagnostic; the other checks are unaffected.
#include <ctpg/ctpg.hpp>

using namespace ctpg;
using namespace ctpg::buffers;
using namespace ctpg::ftors;

namespace w_ctxflag
{
    struct ctx_t { int n = 0; };
    constexpr nterm<int> e("e");
    constexpr char_term minus('-', 1, associativity::ltor);

    constexpr parser p(
        e,
        terms('a', minus),
        nterms(e),
        rules(
            e('a') >= val(1),
            (e(e, '-', e) >>= [](ctx_t& c, int a, skip, int b) { ++c.n; return a - b; })[2],
            (e('-', e)[3] >>= [](ctx_t& c, skip, int a) { ++c.n; return -a; }),
            // a contextual functor that could ALSO be called without the context (rule CTX-T): it must still get it
            e('a', 'a') >>= [](auto&&... args) { return int(sizeof...(args)); }
        )
    );

    void all()
    {
        ctx_t c;
        (void)p.context_parse(c, string_buffer("a-a"));
    }
}
