#include <ctpg/ctpg.hpp>
#include <iostream>
#include <sstream>
#include <memory>
using namespace ctpg; using namespace ctpg::buffers; using namespace ctpg::ftors;
namespace d1 { constexpr nterm<int> S("S"), X("X"), Y("Y"), N("N");
constexpr parser p(S, terms('a','q','b','e','x'), nterms(S,X,Y,N), rules(
    S(X) >= [](int){return 1;}, S(Y) >= [](int){return 2;}, S('q',Y) >= [](char,int){return 3;},
    X('a',N,'b') >= [](char,int,char){return 0;}, Y('a',N,'b','e') >= [](char,int,char,char){return 0;}, N('x') >= [](char){return 0;})); }
namespace d2 { constexpr nterm<int> S("S"), A("A"), B("B"), N("N"), M("M");
constexpr parser p(S, terms('n','m','a','b','x','y'), nterms(S,N,M,A,B), rules(
    S(N,B) >= [](int,int){return 1;}, S(M,A) >= [](int,int){return 2;}, N('n') >= [](char){return 0;}, M('m') >= [](char){return 0;},
    A(B,'x') >= [](int,char){return 0;}, A('a') >= [](char){return 0;}, B(A,'y') >= [](int,char){return 0;}, B('b') >= [](char){return 0;})); }
namespace d3 { constexpr nterm<int> S("S"), X("X"), Q("Q"), N("N"), Z("Z");
constexpr parser p(S, terms('a','q','z'), nterms(S,X,Q,N,Z), rules(
    S(X) >= [](int){return 1;}, X('a',N) >= [](char,int){return 0;}, Q('q') >= [](char){return 0;}, N(Z,Q) >= [](int,int){return 0;}, Z('z') >= [](char){return 0;})); }
namespace d4 { constexpr nterm<int> S("S");
constexpr parser p(S, terms('a','b'), nterms(S), rules( S('a') >= [](char){return 1;}, S(S,'b') >= [](int,char){return 2;} ));
constexpr auto lex = p.parse(cstring_buffer("a?")); static_assert(!lex.has_value());
constexpr auto syn = p.parse(cstring_buffer("ba")); static_assert(!syn.has_value());
constexpr char pat[] = "ab"; constexpr regex::expr<pat> r; constexpr bool m1 = r.match("ab"); constexpr bool m2 = r.match("xb"); constexpr bool m3 = r.match("abc"); static_assert(m1 && !m2 && !m3); }
namespace d7 { using L = std::vector<int>; constexpr nterm<L> exprs("exprs"); constexpr nterm<int> expr("expr");
constexpr char np[] = "[0-9]+"; constexpr regex_term<np> number("number");
constexpr parser p(exprs, terms(number,'+',';'), nterms(exprs,expr), rules(
  exprs() >= create<L>{}, exprs(exprs, expr, ';') >= push_back<1,2>{}, exprs(exprs, error, ';') >= _e1,
  expr(expr,'+',expr) >= [](int a, skip, int b){return a+b;},
  expr(number) >= [](const auto& sv){ int s=0; for(char c: std::string_view(sv)) s=s*10+c-'0'; return s;})); }
namespace d12 { constexpr nterm<int> E("E"); constexpr char_term plus('+', 1, associativity::rtol);
constexpr parser p(E, terms(plus,'a'), nterms(E), rules( E('a')>=val(1), E(E,'+',E)>=[](int a,char,int b){return a+b;} )); }
namespace d13 { constexpr nterm<int> A("A"), B("B"); constexpr parser p(A, terms('b'), nterms(A,B), rules( B('b')>=val(1), A(B)>=_e1 )); }
namespace d11 { constexpr char np[]="[0-9]+"; constexpr regex_term<np> num("num");
constexpr typed_term tnum(num, [](std::string_view sv){ return std::make_shared<int>(int(sv.size())); }); }
namespace d6 { constexpr nterm<int> S("S"), A("A");
constexpr parser p(S, terms('a'), nterms(S,A), rules( S(A,A,A,A,A,A) >= [](int,int,int,int,int,int){return 1;}, A() >= val(0) )); }
struct lim { static const size_t state_count_cap = 64; static const size_t max_sit_count_per_state_cap = 6; };
template<class P> void run(const char* tag, const P& p, std::initializer_list<const char*> in){
  for (auto s : in){ std::ostringstream e; auto r = p.parse(string_buffer(s), e); std::cout<<tag<<" "<<s<<" -> "<<(r.has_value()?"ok":"REJECT")<<"\n"; } }
int main(){
  run("D1", d1::p, {"axb","axbe","qaxbe"});
  run("D2", d2::p, {"nb","nay","ma","mbx","mayx"});
  run("D3", d3::p, {"azq"});
  for (auto s : {"1+2; +; 3;", "+;1;", "1; 2 2; 3;"}) { std::ostringstream e; auto r = d7::p.parse(string_buffer(s), e); std::cout<<"D7 "<<s<<" -> "; if(!r) std::cout<<"REJECT"; else for(int x:*r) std::cout<<x<<" "; std::cout<<"\n"; }
  { std::ostringstream o; d12::p.write_diag_str(o); std::string t=o.str(); auto i=t.find("S/R"); std::cout<<"D12 "<<t.substr(i, t.find('\n',i)-i)<<"\n"; }
  { std::ostringstream o; d13::p.write_diag_str(o); std::string t=o.str(); auto i=t.find("RULES"); std::cout<<"D13 "<<t.substr(i+7, 40)<<"\n"; }
  try { auto r = d6::p.parse(cstring_buffer("")); std::cout<<"D6 "<<(r?"ok":"REJECT")<<"\n"; } catch (std::exception& e) { std::cout<<"D6 throws: "<<e.what()<<"\n"; }
  try { constexpr nterm<int> S("S"), E("E");
    parser p(S, terms('a','+','(',')'), nterms(S,E), rules( S(E)>=_e1, E(E,'+',E)>=[](int a,char,int b){return a+b;}, E('(',E,')')>=_e2, E('a')>=val(1) ), use_generated_lexer{}, lim{});
    std::cout<<"D10 constructed\n"; } catch (std::exception& e) { std::cout<<"D10 throws: "<<e.what()<<"\n"; }
}
