#!/bin/bash
# Builds the extractor plugin from source (offline, ~15 s). Everything else is Python stdlib.
set -e
cd "$(dirname "$0")"
python3 ctpgsa/facts.py --force
