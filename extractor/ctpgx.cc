// ctpgx — clang-14 frontend plugin: dumps a compact, fully resolved fact base for every function,
// record, variable and alias that is *spelled in ctpg.hpp* (template patterns and instantiations),
// one JSON object per line. The rules live in /verif/ctpgsa (Python); this file decides nothing.
//
// build: clang++ $(llvm-config-14 --cxxflags) -fno-rtti -fPIC -shared ctpgx.cc -o ctpgx.so
// run:   clang++ -std=gnu++17 -I/repo/include -fsyntax-only -fplugin=./ctpgx.so \
//          -Xclang -plugin -Xclang ctpgx -Xclang -plugin-arg-ctpgx -Xclang out=<file> tu.cpp
#include "clang/AST/ASTConsumer.h"
#include "clang/AST/ASTContext.h"
#include "clang/AST/DeclCXX.h"
#include "clang/AST/DeclTemplate.h"
#include "clang/AST/ExprCXX.h"
#include "clang/AST/RecursiveASTVisitor.h"
#include "clang/AST/StmtCXX.h"
#include "clang/Basic/SourceManager.h"
#include "clang/Frontend/CompilerInstance.h"
#include "clang/Frontend/FrontendPluginRegistry.h"
#include "llvm/Support/JSON.h"
#include "llvm/Support/raw_ostream.h"
#include <deque>
#include <map>
#include <set>
#include <string>

using namespace clang;
namespace json = llvm::json;

namespace {

struct Extractor {
  ASTContext &Ctx;
  SourceManager &SM;
  llvm::raw_ostream &Out;
  PrintingPolicy PP;
  std::string HeaderSuffix;

  std::map<const void *, unsigned> Ids;
  std::map<std::string, unsigned> TypeIds;
  std::vector<std::string> TypeTab;
  std::vector<std::string> CanonTab;   // canonical spelling of TypeTab[i] (empty for interned names)
  std::set<const FunctionDecl *> DoneFns;
  std::deque<const FunctionDecl *> Work;
  std::set<const CXXRecordDecl *> DoneRecs;
  std::set<const VarDecl *> DoneVars;
  unsigned NFn = 0, NRec = 0, NVar = 0;

  Extractor(ASTContext &C, llvm::raw_ostream &O, std::string Suffix)
      : Ctx(C), SM(C.getSourceManager()), Out(O), PP(C.getLangOpts()), HeaderSuffix(Suffix) {
    PP.SuppressTagKeyword = true;
    PP.Bool = true;
    PP.AnonymousTagLocations = true;
    PP.SuppressUnwrittenScope = false;
    PP.FullyQualifiedName = true;
  }

  unsigned id(const void *P) {
    auto It = Ids.find(P);
    if (It != Ids.end()) return It->second;
    unsigned N = Ids.size() + 1;
    Ids[P] = N;
    return N;
  }

  unsigned typeId(QualType T) {
    if (T.isNull()) return 0;
    std::string S = T.getAsString(PP);
    std::string C = T.getCanonicalType().getAsString(PP);
    // member typedefs (value_type, size_type) print alike in every instantiation: the canonical type is part of
    // the key
    std::string K = S + "\x01" + C;
    auto It = TypeIds.find(K);
    if (It != TypeIds.end()) return It->second;
    TypeTab.push_back(S);
    CanonTab.push_back(C);
    unsigned N = TypeTab.size();
    TypeIds[K] = N;
    return N;
  }

  bool inHeader(SourceLocation L) {
    if (L.isInvalid()) return false;
    SourceLocation S = SM.getSpellingLoc(SM.getExpansionLoc(L));
    StringRef F = SM.getFilename(S);
    return F.endswith(HeaderSuffix);
  }

  std::string loc(SourceLocation L) {
    if (L.isInvalid()) return "";
    SourceLocation S = SM.getExpansionLoc(L);
    PresumedLoc P = SM.getPresumedLoc(S);
    if (P.isInvalid()) return "";
    std::string R;
    StringRef F = P.getFilename();
    if (!F.endswith(HeaderSuffix)) {
      size_t Slash = F.rfind('/');
      R = (Slash == StringRef::npos ? F : F.substr(Slash + 1)).str() + ":";
    }
    R += std::to_string(P.getLine()) + ":" + std::to_string(P.getColumn());
    return R;
  }

  // qualified name without template arguments: ctpg::parser::state_analyzer::solve_conflict
  std::string qname(const NamedDecl *D) {
    std::vector<std::string> Parts;
    auto nameOf = [&](const NamedDecl *N) -> std::string {
      if (const auto *RD = dyn_cast<CXXRecordDecl>(N))
        if (RD->isLambda()) return "(lambda@" + loc(RD->getLocation()) + ")";
      std::string S = N->getNameAsString();
      if (S.empty()) S = "(anonymous)";
      return S;
    };
    Parts.push_back(nameOf(D));
    for (const DeclContext *DC = D->getDeclContext(); DC; DC = DC->getParent()) {
      if (const auto *ND = dyn_cast<NamedDecl>(DC)) {
        if (isa<TranslationUnitDecl>(DC)) break;
        if (const auto *NS = dyn_cast<NamespaceDecl>(DC))
          if (NS->isInline()) continue;
        Parts.push_back(nameOf(ND));
      }
    }
    std::string R;
    for (auto It = Parts.rbegin(); It != Parts.rend(); ++It) {
      if (!R.empty()) R += "::";
      R += *It;
    }
    return R;
  }

  // fully spelled name (with template arguments), interned in the type/string table
  unsigned fullName(const NamedDecl *D) {
    std::string S;
    llvm::raw_string_ostream OS(S);
    D->printQualifiedName(OS, PP);
    OS.flush();
    auto It = TypeIds.find(S);
    if (It != TypeIds.end()) return It->second;
    TypeTab.push_back(S);
    CanonTab.push_back("");
    unsigned N = TypeTab.size();
    TypeIds[S] = N;
    return N;
  }

  std::string declFile(const Decl *D) {
    SourceLocation S = SM.getExpansionLoc(D->getLocation());
    if (S.isInvalid()) return "";
    StringRef F = SM.getFilename(S);
    if (F.endswith(HeaderSuffix)) return "ctpg";
    size_t Slash = F.rfind('/');
    return (Slash == StringRef::npos ? F : F.substr(Slash + 1)).str();
  }

  static std::string targsOf(const TemplateArgumentList *L, const PrintingPolicy &PP) {
    std::string S;
    if (!L) return S;
    llvm::raw_string_ostream OS(S);
    for (unsigned I = 0; I < L->size(); ++I) {
      if (I) OS << " | ";
      L->get(I).print(PP, OS, true);
    }
    return OS.str();
  }

  // ------------------------------------------------------------------ decl references
  void declRef(json::OStream &J, const char *Key, const ValueDecl *D) {
    J.attributeObject(Key, [&] { declRefBody(J, D); });
  }

  void declRefBody(json::OStream &J, const ValueDecl *D) {
    J.attribute("id", id(D->getCanonicalDecl()));
    J.attribute("k", D->getDeclKindName());
    J.attribute("n", D->getNameAsString());
    J.attribute("q", qname(D));
    J.attribute("t", typeId(D->getType()));
    std::string F = declFile(D);
    J.attribute("f", F);
    if (F == "ctpg") J.attribute("dl", loc(D->getLocation()));
    if (const auto *FD = dyn_cast<FunctionDecl>(D)) {
      J.attribute("cx", FD->isConstexpr());
      if (FD->isImplicit()) J.attribute("implicit", true);
      if (FD->isTrivial()) J.attribute("trivial", true);
      if (FD->isDefaulted()) J.attribute("defaulted", true);
      if (FD->isDeleted()) J.attribute("deleted", true);
      if (const FunctionDecl *P = FD->getTemplateInstantiationPattern())
        J.attribute("pid", id(P->getCanonicalDecl()));
      if (const auto *TA = FD->getTemplateSpecializationArgs()) {
        // first template argument only (index-like arguments: std::get<I>, reduce_value<I,...>)
        if (TA->size() > 0) {
          std::string S;
          llvm::raw_string_ostream OS(S);
          TA->get(0).print(PP, OS, true);
          OS.flush();
          if (S.size() < 64) J.attribute("ta0", S);
        }
      }
      if (const auto *MD = dyn_cast<CXXMethodDecl>(FD)) {
        J.attribute("parent", qname(MD->getParent()));
        J.attribute("pname", MD->getParent()->getNameAsString());
        if (MD->isConst()) J.attribute("const", true);
        if (MD->isStatic()) J.attribute("static", true);
        if (MD->getParent()->isLambda()) J.attribute("lambda", true);
        if (const auto *CD = dyn_cast<CXXConstructorDecl>(MD)) {
          if (CD->isCopyConstructor()) J.attribute("copy", true);
          if (CD->isMoveConstructor()) J.attribute("move", true);
          if (CD->isDefaultConstructor()) J.attribute("default", true);
        }
        if (MD->isCopyAssignmentOperator()) J.attribute("copyassign", true);
        if (MD->isMoveAssignmentOperator()) J.attribute("moveassign", true);
      }
      // anything with a body spelled in the header gets its own fn record
      const FunctionDecl *Def = nullptr;
      if (FD->hasBody(Def) && Def && inHeader(Def->getLocation())) enqueue(Def);
    } else if (const auto *VD = dyn_cast<VarDecl>(D)) {
      if (VD->isConstexpr()) J.attribute("cx", true);
      if (VD->getType().isConstQualified()) J.attribute("const", true);
      if (VD->isStaticLocal()) J.attribute("staticlocal", true);
      if (VD->isStaticDataMember()) {
        J.attribute("staticmember", true);
        if (const auto *RD = dyn_cast<CXXRecordDecl>(VD->getDeclContext()))
          J.attribute("parent", qname(RD));
      }
      if (VD->hasGlobalStorage() && !VD->isStaticLocal()) J.attribute("global", true);
      if (isa<ParmVarDecl>(VD)) {
        if (const auto *PVD = dyn_cast<ParmVarDecl>(VD))
          J.attribute("pidx", PVD->getFunctionScopeIndex());
      }
      // a parameter is never a constant, whatever its default argument evaluates to
      if (!isa<ParmVarDecl>(VD)) constValue(J, VD);
    } else if (const auto *FLD = dyn_cast<FieldDecl>(D)) {
      J.attribute("parent", qname(FLD->getParent()));
      J.attribute("pname", FLD->getParent()->getNameAsString());
      if (FLD->isMutable()) J.attribute("mutable", true);
    } else if (const auto *EC = dyn_cast<EnumConstantDecl>(D)) {
      J.attribute("cv", EC->getInitVal().getExtValue());
    }
  }

  void constValue(json::OStream &J, const VarDecl *VD) {
    if (VD->getType()->isDependentType()) return;
    if (!VD->getType()->isIntegralOrEnumerationType()) return;
    if (!VD->getType().isConstQualified() && !VD->isConstexpr()) return;
    const VarDecl *Def = nullptr;
    const Expr *Init = VD->getAnyInitializer(Def);
    if (!Init || Init->isValueDependent()) return;
    if (const APValue *V = Def->evaluateValue())
      if (V->isInt()) J.attribute("cv", V->getInt().getExtValue());
  }

  void enqueue(const FunctionDecl *FD) {
    if (DoneFns.count(FD)) return;
    Work.push_back(FD);
  }

  // ------------------------------------------------------------------ statements / expressions
  void child(json::OStream &J, const char *Key, const Stmt *S) {
    if (!S) return;
    J.attributeObject(Key, [&] { node(J, S); });
  }

  void children(json::OStream &J, const Stmt *S) {
    J.attributeArray("c", [&] {
      // a defaulted argument / member initialiser stands for the expression written at the declaration
      if (const auto *DA = dyn_cast<CXXDefaultArgExpr>(S)) {
        if (const Expr *X = DA->getExpr()) { J.object([&] { node(J, X); }); }
        return;
      }
      if (const auto *DI = dyn_cast<CXXDefaultInitExpr>(S)) {
        if (const Expr *X = DI->getExpr()) { J.object([&] { node(J, X); }); }
        return;
      }
      for (const Stmt *C : S->children()) {
        if (!C) { J.value(nullptr); continue; }
        J.object([&] { node(J, C); });
      }
    });
  }

  void varDecl(json::OStream &J, const VarDecl *VD) {
    J.attribute("k", "Var");
    J.attribute("id", id(VD->getCanonicalDecl()));
    J.attribute("n", VD->getNameAsString());
    J.attribute("t", typeId(VD->getType()));
    J.attribute("l", loc(VD->getLocation()));
    if (VD->isConstexpr()) J.attribute("cx", true);
    if (VD->getType().isConstQualified()) J.attribute("const", true);
    if (VD->isStaticLocal()) J.attribute("staticlocal", true);
    if (VD->getTLSKind() != VarDecl::TLS_None) J.attribute("tls", true);
    if (VD->getType()->isReferenceType()) J.attribute("ref", true);
    if (!VD->getType()->isDependentType() && !VD->getType()->isReferenceType()) {
      if (!VD->getType().isNull() && !VD->getType()->isIncompleteType())
        J.attribute("literal", VD->getType()->isLiteralType(Ctx));
    }
    switch (VD->getInitStyle()) {
    case VarDecl::CInit: J.attribute("is", "c"); break;
    case VarDecl::CallInit: J.attribute("is", "call"); break;
    case VarDecl::ListInit: J.attribute("is", "list"); break;
    }
    if (VD->hasInit()) child(J, "init", VD->getInit());
  }

  void node(json::OStream &J, const Stmt *S) {
    J.attribute("k", S->getStmtClassName());
    std::string L = loc(S->getBeginLoc());
    if (!L.empty()) J.attribute("l", L);
    if (const auto *E = dyn_cast<Expr>(S)) {
      J.attribute("t", typeId(E->getType()));
      if (E->isLValue()) J.attribute("vk", "l");
      else if (E->isXValue()) J.attribute("vk", "x");
      expr(J, E);
      return;
    }
    stmt(J, S);
  }

  void stmt(json::OStream &J, const Stmt *S) {
    if (const auto *IS = dyn_cast<IfStmt>(S)) {
      if (IS->isConstexpr()) J.attribute("constexpr", true);
      child(J, "init", IS->getInit());
      if (IS->getConditionVariable()) J.attribute("condvar", true);
      child(J, "cond", IS->getCond());
      child(J, "then", IS->getThen());
      child(J, "else", IS->getElse());
      if (IS->isConstexpr() && !IS->getCond()->isValueDependent()) {
        if (auto V = IS->getNondiscardedCase(Ctx)) {
          // which arm survives in this instantiation
          J.attribute("taken", *V == IS->getThen() ? "then" : (*V ? "else" : "none"));
        }
      }
      return;
    }
    if (const auto *FS = dyn_cast<ForStmt>(S)) {
      child(J, "init", FS->getInit());
      child(J, "cond", FS->getCond());
      child(J, "inc", FS->getInc());
      child(J, "body", FS->getBody());
      return;
    }
    if (const auto *WS = dyn_cast<WhileStmt>(S)) {
      child(J, "cond", WS->getCond());
      child(J, "body", WS->getBody());
      return;
    }
    if (const auto *DS = dyn_cast<DoStmt>(S)) {
      child(J, "cond", DS->getCond());
      child(J, "body", DS->getBody());
      return;
    }
    if (const auto *RS = dyn_cast<CXXForRangeStmt>(S)) {
      if (const VarDecl *LV = RS->getLoopVariable())
        J.attributeObject("loopvar", [&] { varDecl(J, LV); });
      child(J, "range", RS->getRangeInit());
      child(J, "body", RS->getBody());
      return;
    }
    if (const auto *DS = dyn_cast<DeclStmt>(S)) {
      J.attributeArray("decls", [&] {
        for (const Decl *D : DS->decls()) {
          J.object([&] {
            if (const auto *VD = dyn_cast<VarDecl>(D)) varDecl(J, VD);
            else if (const auto *TD = dyn_cast<TypedefNameDecl>(D)) {
              J.attribute("k", "Alias");
              J.attribute("n", TD->getNameAsString());
              J.attribute("t", typeId(TD->getUnderlyingType()));
            } else {
              J.attribute("k", D->getDeclKindName());
              if (const auto *ND = dyn_cast<NamedDecl>(D)) J.attribute("n", ND->getNameAsString());
            }
          });
        }
      });
      return;
    }
    if (const auto *RS = dyn_cast<ReturnStmt>(S)) {
      child(J, "value", RS->getRetValue());
      return;
    }
    children(J, S);
  }

  void castInfo(json::OStream &J, const CastExpr *CE) {
    J.attribute("ck", CE->getCastKindName());
    if (const auto *EC = dyn_cast<ExplicitCastExpr>(CE))
      J.attribute("tw", typeId(EC->getTypeAsWritten()));
    if (const NamedDecl *CF = CE->getConversionFunction())
      if (const auto *VD = dyn_cast<ValueDecl>(CF)) declRef(J, "conv", VD);
  }

  void expr(json::OStream &J, const Expr *E) {
    // constant value of integral expressions when cheaply known
    if (!E->isValueDependent() && !E->getType().isNull() && E->getType()->isIntegralOrEnumerationType() &&
        (isa<SubstNonTypeTemplateParmExpr>(E) || isa<SizeOfPackExpr>(E) || isa<UnaryExprOrTypeTraitExpr>(E) ||
         isa<ConstantExpr>(E))) {
      Expr::EvalResult R;
      if (E->EvaluateAsInt(R, Ctx)) J.attribute("cv", R.Val.getInt().getExtValue());
    }
    if (const auto *DR = dyn_cast<DeclRefExpr>(E)) {
      declRef(J, "d", DR->getDecl());
      if (DR->refersToEnclosingVariableOrCapture()) J.attribute("captured", true);
      return;
    }
    if (const auto *ME = dyn_cast<MemberExpr>(E)) {
      declRef(J, "m", ME->getMemberDecl());
      if (ME->isArrow()) J.attribute("arrow", true);
      children(J, E);
      return;
    }
    if (const auto *TE = dyn_cast<CXXThisExpr>(E)) {
      if (TE->isImplicit()) J.attribute("implicit", true);
      return;
    }
    if (const auto *OC = dyn_cast<CXXOperatorCallExpr>(E)) {
      J.attribute("op", getOperatorSpelling(OC->getOperator()));
      if (const FunctionDecl *FD = OC->getDirectCallee()) declRef(J, "callee", FD);
      children(J, E);
      return;
    }
    if (const auto *CE = dyn_cast<CallExpr>(E)) {
      if (const FunctionDecl *FD = CE->getDirectCallee()) declRef(J, "callee", FD);
      else J.attribute("indirect", true);
      if (isa<CXXMemberCallExpr>(CE)) J.attribute("membercall", true);
      children(J, E);
      return;
    }
    if (const auto *CE = dyn_cast<CXXConstructExpr>(E)) {
      declRef(J, "ctor", CE->getConstructor());
      if (CE->isElidable()) J.attribute("elidable", true);
      if (CE->isListInitialization()) J.attribute("listinit", true);
      if (isa<CXXTemporaryObjectExpr>(CE)) J.attribute("temp", true);
      children(J, E);
      return;
    }
    if (const auto *CE = dyn_cast<CastExpr>(E)) {
      castInfo(J, CE);
      children(J, E);
      return;
    }
    if (const auto *BO = dyn_cast<BinaryOperator>(E)) {
      J.attribute("op", BO->getOpcodeStr());
      children(J, E);
      return;
    }
    if (const auto *UO = dyn_cast<UnaryOperator>(E)) {
      J.attribute("op", UnaryOperator::getOpcodeStr(UO->getOpcode()));
      if (UO->isPostfix()) J.attribute("postfix", true);
      children(J, E);
      return;
    }
    if (const auto *IL = dyn_cast<IntegerLiteral>(E)) {
      J.attribute("v", IL->getValue().getLimitedValue());
      return;
    }
    if (const auto *CL = dyn_cast<CharacterLiteral>(E)) {
      J.attribute("v", (int64_t)CL->getValue());
      return;
    }
    if (const auto *BL = dyn_cast<CXXBoolLiteralExpr>(E)) {
      J.attribute("v", BL->getValue());
      return;
    }
    if (const auto *SL = dyn_cast<StringLiteral>(E)) {
      if (SL->getCharByteWidth() == 1) {
        J.attributeArray("bytes", [&] {
          for (unsigned char C : SL->getBytes()) J.value((int64_t)C);
        });
      }
      return;
    }
    if (const auto *LE = dyn_cast<LambdaExpr>(E)) {
      if (const CXXMethodDecl *Op = LE->getCallOperator()) {
        J.attribute("fn", id(Op->getCanonicalDecl()));
        const FunctionDecl *Def = nullptr;
        if (Op->hasBody(Def) && Def && inHeader(Def->getLocation())) enqueue(Def);
      }
      J.attribute("generic", LE->isGenericLambda());
      J.attributeArray("captures", [&] {
        for (const LambdaCapture &C : LE->captures()) {
          J.object([&] {
            if (C.capturesVariable()) {
              J.attribute("var", id(C.getCapturedVar()->getCanonicalDecl()));
              J.attribute("n", C.getCapturedVar()->getNameAsString());
            }
            if (C.capturesThis()) J.attribute("this", true);
            J.attribute("byref", C.getCaptureKind() == LCK_ByRef);
            J.attribute("implicit", C.isImplicit());
          });
        }
      });
      if (LE->getCaptureDefault() != LCD_None)
        J.attribute("default", LE->getCaptureDefault() == LCD_ByRef ? "&" : "=");
      return;
    }
    if (const auto *DM = dyn_cast<CXXDependentScopeMemberExpr>(E)) {
      J.attribute("member", DM->getMember().getAsString());
      if (DM->isArrow()) J.attribute("arrow", true);
      if (DM->isImplicitAccess()) J.attribute("implicit", true);
      children(J, E);
      return;
    }
    if (const auto *UL = dyn_cast<UnresolvedLookupExpr>(E)) {
      J.attribute("name", UL->getName().getAsString());
      J.attributeArray("decls", [&] {
        for (const NamedDecl *D : UL->decls()) J.value((int64_t)id(D->getCanonicalDecl()));
      });
      return;
    }
    if (const auto *UM = dyn_cast<UnresolvedMemberExpr>(E)) {
      J.attribute("member", UM->getMemberName().getAsString());
      if (UM->isImplicitAccess()) J.attribute("implicit", true);
      children(J, E);
      return;
    }
    if (const auto *DD = dyn_cast<DependentScopeDeclRefExpr>(E)) {
      J.attribute("name", DD->getDeclName().getAsString());
      return;
    }
    if (const auto *UC = dyn_cast<CXXUnresolvedConstructExpr>(E)) {
      J.attribute("tw", typeId(UC->getTypeAsWritten()));
      if (UC->isListInitialization()) J.attribute("listinit", true);
      children(J, E);
      return;
    }
    if (const auto *FE = dyn_cast<CXXFoldExpr>(E)) {
      J.attribute("op", BinaryOperator::getOpcodeStr(FE->getOperator()));
      J.attribute("rightfold", FE->isRightFold());
      child(J, "pattern", FE->getPattern());
      child(J, "foldinit", FE->getInit());
      return;
    }
    if (const auto *SP = dyn_cast<SizeOfPackExpr>(E)) {
      J.attribute("pack", SP->getPack()->getNameAsString());
      return;
    }
    if (const auto *SN = dyn_cast<SubstNonTypeTemplateParmExpr>(E)) {
      J.attribute("param", SN->getParameter()->getNameAsString());
      children(J, E);
      return;
    }
    if (const auto *UE = dyn_cast<UnaryExprOrTypeTraitExpr>(E)) {
      J.attribute("ut", getTraitSpelling(UE->getKind()));
      if (UE->isArgumentType()) J.attribute("argt", typeId(UE->getArgumentType()));
      else children(J, E);
      return;
    }
    if (const auto *IL = dyn_cast<InitListExpr>(E)) {
      const InitListExpr *Sem = IL->isSemanticForm() ? IL : IL->getSemanticForm();
      if (!Sem) Sem = IL;
      if (Sem->hasArrayFiller()) child(J, "filler", Sem->getArrayFiller());
      J.attributeArray("c", [&] {
        for (const Expr *I : Sem->inits()) {
          if (!I) { J.value(nullptr); continue; }
          J.object([&] { node(J, I); });
        }
      });
      return;
    }
    if (const auto *NE = dyn_cast<CXXNewExpr>(E)) {
      (void)NE;
      children(J, E);
      return;
    }
    children(J, E);
  }

  // ------------------------------------------------------------------ top-level records
  static const char *tmplKind(const FunctionDecl *FD) {
    if (FD->isTemplateInstantiation()) return "inst";
    if (FD->isDependentContext()) return "pattern";
    // member of a class template specialization that was not itself instantiated from a member template
    return "plain";
  }

  void function(const FunctionDecl *FD) {
    if (DoneFns.count(FD)) return;
    DoneFns.insert(FD);
    if (!FD->doesThisDeclarationHaveABody()) return;
    ++NFn;
    json::OStream J(Out);
    J.object([&] {
      J.attribute("rec", "fn");
      J.attribute("id", id(FD->getCanonicalDecl()));
      J.attribute("n", FD->getNameAsString());
      J.attribute("q", qname(FD));
      J.attribute("qf", fullName(FD));
      J.attribute("l", loc(FD->getLocation()));
      J.attribute("begin", loc(FD->getBeginLoc()));
      J.attribute("end", loc(FD->getEndLoc()));
      J.attribute("tmpl", tmplKind(FD));
      if (const FunctionDecl *P = FD->getTemplateInstantiationPattern())
        J.attribute("pid", id(P->getCanonicalDecl()));
      if (const auto *TA = FD->getTemplateSpecializationArgs()) J.attribute("targs", targsOf(TA, PP));
      J.attribute("cx", FD->isConstexpr());
      J.attribute("t", typeId(FD->getType()));
      J.attribute("ret", typeId(FD->getReturnType()));
      if (FD->isImplicit()) J.attribute("implicit", true);
      if (FD->isDefaulted()) J.attribute("defaulted", true);
      if (FD->isVariadic()) J.attribute("variadic", true);
      J.attribute("dk", static_cast<const Decl *>(FD)->getDeclKindName());
      if (const auto *MD = dyn_cast<CXXMethodDecl>(FD)) {
        const CXXRecordDecl *RD = MD->getParent();
        J.attribute("parent", qname(RD));
        J.attribute("pname", RD->getNameAsString());
        J.attribute("parent_id", id(RD->getCanonicalDecl()));
        if (MD->isConst()) J.attribute("const", true);
        if (MD->isStatic()) J.attribute("static", true);
        if (RD->isLambda()) J.attribute("lambda", true);
        switch (MD->getAccess()) {
        case AS_public: J.attribute("access", "public"); break;
        case AS_protected: J.attribute("access", "protected"); break;
        case AS_private: J.attribute("access", "private"); break;
        default: break;
        }
        if (MD->getRefQualifier() == RQ_LValue) J.attribute("refq", "&");
        if (MD->getRefQualifier() == RQ_RValue) J.attribute("refq", "&&");
        record(RD);
      }
      // enclosing function (for lambdas / local classes)
      if (const auto *PF = dyn_cast_or_null<FunctionDecl>(FD->getParentFunctionOrMethod()))
        J.attribute("enclosing_fn", id(PF->getCanonicalDecl()));
      J.attributeArray("params", [&] {
        for (const ParmVarDecl *P : FD->parameters()) {
          J.object([&] {
            J.attribute("id", id(P->getCanonicalDecl()));
            J.attribute("n", P->getNameAsString());
            J.attribute("t", typeId(P->getType()));
            J.attribute("l", loc(P->getLocation()));
            if (P->getType()->isLValueReferenceType()) J.attribute("ref", "&");
            else if (P->getType()->isRValueReferenceType()) J.attribute("ref", "&&");
            if (P->getType()->isReferenceType() && P->getType().getNonReferenceType().isConstQualified())
              J.attribute("constref", true);
            if (P->isParameterPack()) J.attribute("pack", true);
            if (P->hasDefaultArg() && !P->hasUnparsedDefaultArg()) {
              const Expr *DA = P->hasUninstantiatedDefaultArg() ? P->getUninstantiatedDefaultArg() : P->getDefaultArg();
              if (DA) child(J, "default", DA);
            }
          });
        }
      });
      if (const auto *CD = dyn_cast<CXXConstructorDecl>(FD)) {
        J.attributeArray("inits", [&] {
          for (const CXXCtorInitializer *I : CD->inits()) {
            J.object([&] {
              if (I->isAnyMemberInitializer() && I->getAnyMember()) {
                J.attribute("member", I->getAnyMember()->getNameAsString());
                J.attribute("member_id", id(I->getAnyMember()->getCanonicalDecl()));
              } else if (I->isBaseInitializer()) {
                J.attribute("base", typeId(QualType(I->getBaseClass(), 0)));
              } else if (I->isDelegatingInitializer()) {
                J.attribute("delegating", true);
              }
              J.attribute("written", I->isWritten());
              if (I->isInClassMemberInitializer()) J.attribute("inclass", true);
              child(J, "init", I->getInit());
            });
          }
        });
      }
      child(J, "body", FD->getBody());
    });
    Out << "\n";
  }

  void record(const CXXRecordDecl *RD0) {
    const CXXRecordDecl *RD = RD0->getDefinition();
    if (!RD) return;
    if (DoneRecs.count(RD)) return;
    DoneRecs.insert(RD);
    if (!inHeader(RD->getLocation())) return;
    ++NRec;
    // separate stream object: records are emitted on their own line, but we may be in the middle of a
    // function line -> buffer
    std::string Buf;
    llvm::raw_string_ostream BS(Buf);
    {
      json::OStream J(BS);
      J.object([&] {
        J.attribute("rec", "record");
        J.attribute("id", id(RD->getCanonicalDecl()));
        J.attribute("n", RD->getNameAsString());
        J.attribute("q", qname(RD));
        J.attribute("qf", fullName(RD));
        J.attribute("l", loc(RD->getLocation()));
        J.attribute("ty", typeId(Ctx.getRecordType(RD)));
        bool Dep = RD->isDependentContext();
        J.attribute("tmpl", Dep ? "pattern" : (isa<ClassTemplateSpecializationDecl>(RD) ||
                                               RD->getInstantiatedFromMemberClass()) ? "inst" : "plain");
        if (const auto *SD = dyn_cast<ClassTemplateSpecializationDecl>(RD))
          J.attribute("targs", targsOf(&SD->getTemplateArgs(), PP));
        if (const CXXRecordDecl *P = RD->getTemplateInstantiationPattern())
          J.attribute("pid", id(P->getCanonicalDecl()));
        if (RD->isLambda()) J.attribute("lambda", true);
        if (RD->isUnion()) J.attribute("union", true);
        if (const auto *PR = dyn_cast<CXXRecordDecl>(RD->getDeclContext()))
          J.attribute("outer", qname(PR));
        if (!Dep) {
          J.attribute("aggregate", RD->isAggregate());
          J.attribute("trivially_destructible", RD->hasTrivialDestructor());
          J.attribute("literal", RD->isLiteral());
          J.attribute("has_mutable", RD->hasMutableFields());
        }
        J.attributeArray("bases", [&] {
          for (const CXXBaseSpecifier &B : RD->bases()) J.value((int64_t)typeId(B.getType()));
        });
        J.attributeArray("fields", [&] {
          for (const FieldDecl *F : RD->fields()) {
            J.object([&] {
              J.attribute("id", id(F->getCanonicalDecl()));
              J.attribute("n", F->getNameAsString());
              J.attribute("t", typeId(F->getType()));
              J.attribute("l", loc(F->getLocation()));
              if (F->isMutable()) J.attribute("mutable", true);
              if (F->getType()->isReferenceType()) J.attribute("ref", true);
              if (F->getType().isConstQualified()) J.attribute("const", true);
              switch (F->getAccess()) {
              case AS_public: J.attribute("access", "public"); break;
              case AS_protected: J.attribute("access", "protected"); break;
              case AS_private: J.attribute("access", "private"); break;
              default: break;
              }
              if (F->hasInClassInitializer()) child(J, "init", F->getInClassInitializer());
            });
          }
        });
        J.attributeArray("members", [&] {
          for (const Decl *D : RD->decls()) {
            if (const auto *VD = dyn_cast<VarDecl>(D)) {
              J.object([&] {
                J.attribute("k", "staticvar");
                J.attribute("id", id(VD->getCanonicalDecl()));
                J.attribute("n", VD->getNameAsString());
                J.attribute("t", typeId(VD->getType()));
                J.attribute("l", loc(VD->getLocation()));
                J.attribute("const", VD->getType().isConstQualified());
                J.attribute("cx", VD->isConstexpr());
                constValue(J, VD);
                if (VD->hasInit()) child(J, "init", VD->getInit());
              });
            } else if (const auto *TD = dyn_cast<TypedefNameDecl>(D)) {
              J.object([&] {
                J.attribute("k", "alias");
                J.attribute("n", TD->getNameAsString());
                J.attribute("t", typeId(TD->getUnderlyingType()));
                J.attribute("canon", typeId(TD->getUnderlyingType().getCanonicalType()));
                J.attribute("l", loc(TD->getLocation()));
              });
            } else if (const auto *MD = dyn_cast<CXXMethodDecl>(D)) {
              if (MD->isImplicit()) continue;
              J.object([&] {
                J.attribute("k", "method");
                J.attribute("id", id(MD->getCanonicalDecl()));
                J.attribute("n", MD->getNameAsString());
                J.attribute("t", typeId(MD->getType()));
                J.attribute("l", loc(MD->getLocation()));
                J.attribute("const", MD->isConst());
                J.attribute("static", MD->isStatic());
                J.attribute("cx", MD->isConstexpr());
                J.attribute("dk", static_cast<const Decl *>(MD)->getDeclKindName());
                switch (MD->getAccess()) {
                case AS_public: J.attribute("access", "public"); break;
                case AS_protected: J.attribute("access", "protected"); break;
                case AS_private: J.attribute("access", "private"); break;
                default: break;
                }
              });
            } else if (const auto *FT = dyn_cast<FunctionTemplateDecl>(D)) {
              const FunctionDecl *TD = FT->getTemplatedDecl();
              J.object([&] {
                J.attribute("k", "method_template");
                J.attribute("id", id(TD->getCanonicalDecl()));
                J.attribute("n", TD->getNameAsString());
                J.attribute("l", loc(TD->getLocation()));
                if (const auto *MD = dyn_cast<CXXMethodDecl>(TD)) {
                  J.attribute("const", MD->isConst());
                  J.attribute("static", MD->isStatic());
                  switch (MD->getAccess()) {
                  case AS_public: J.attribute("access", "public"); break;
                  case AS_protected: J.attribute("access", "protected"); break;
                  case AS_private: J.attribute("access", "private"); break;
                  default: break;
                  }
                }
                J.attribute("cx", TD->isConstexpr());
                J.attribute("dk", static_cast<const Decl *>(TD)->getDeclKindName());
              });
            } else if (const auto *FR = dyn_cast<FriendDecl>(D)) {
              (void)FR;
              J.object([&] { J.attribute("k", "friend"); });
            }
          }
        });
      });
    }
    Pending.push_back(BS.str());
  }

  std::vector<std::string> Pending;

  void flushPending() {
    for (auto &S : Pending) Out << S << "\n";
    Pending.clear();
  }

  void globalVar(const VarDecl *VD) {
    if (DoneVars.count(VD)) return;
    DoneVars.insert(VD);
    ++NVar;
    json::OStream J(Out);
    J.object([&] {
      J.attribute("rec", "var");
      J.attribute("id", id(VD->getCanonicalDecl()));
      J.attribute("n", VD->getNameAsString());
      J.attribute("q", qname(VD));
      J.attribute("l", loc(VD->getLocation()));
      J.attribute("t", typeId(VD->getType()));
      J.attribute("cx", VD->isConstexpr());
      J.attribute("const", VD->getType().isConstQualified());
      J.attribute("staticmember", VD->isStaticDataMember());
      J.attribute("dependent", VD->getDeclContext()->isDependentContext() || VD->getType()->isDependentType());
      if (VD->getTLSKind() != VarDecl::TLS_None) J.attribute("tls", true);
      if (isa<VarTemplateSpecializationDecl>(VD)) J.attribute("vartemplate_spec", true);
      if (VD->getDescribedVarTemplate()) J.attribute("vartemplate", true);
      constValue(J, VD);
      if (VD->hasInit()) child(J, "init", VD->getInit());
    });
    Out << "\n";
  }

  std::set<std::string> DoneEnums;
  void enumDecl(const EnumDecl *ED) {
    if (ED->isDependentType() && false) return;
    std::string Q = qname(ED);
    json::OStream J(Out);
    J.object([&] {
      J.attribute("rec", "enum");
      J.attribute("q", Q);
      J.attribute("l", loc(ED->getLocation()));
      J.attribute("scoped", ED->isScoped());
      J.attributeArray("constants", [&] {
        for (const EnumConstantDecl *C : ED->enumerators()) {
          J.object([&] {
            J.attribute("n", C->getNameAsString());
            J.attribute("v", C->getInitVal().getExtValue());
          });
        }
      });
    });
    Out << "\n";
  }

  void drain() {
    while (!Work.empty()) {
      const FunctionDecl *FD = Work.front();
      Work.pop_front();
      function(FD);
      flushPending();
    }
  }

  void finish() {
    json::OStream J(Out);
    J.object([&] {
      J.attribute("rec", "types");
      J.attributeArray("tab", [&] {
        for (auto &S : TypeTab) J.value(S);
      });
      J.attributeArray("ctab", [&] {
        for (auto &S : CanonTab) J.value(S);
      });
    });
    Out << "\n";
    json::OStream J2(Out);
    J2.object([&] {
      J2.attribute("rec", "summary");
      J2.attribute("functions", NFn);
      J2.attribute("records", NRec);
      J2.attribute("vars", NVar);
      J2.attribute("errors", Ctx.getDiagnostics().getNumErrors());
    });
    Out << "\n";
  }
};

class Visitor : public RecursiveASTVisitor<Visitor> {
public:
  explicit Visitor(Extractor &X) : X(X) {}
  bool shouldVisitTemplateInstantiations() const { return true; }
  bool shouldVisitImplicitCode() const { return false; }

  bool VisitFunctionDecl(FunctionDecl *FD) {
    if (!FD->doesThisDeclarationHaveABody()) return true;
    if (!X.inHeader(FD->getLocation())) return true;
    X.enqueue(FD);
    return true;
  }
  bool VisitCXXRecordDecl(CXXRecordDecl *RD) {
    if (RD->isThisDeclarationADefinition() && X.inHeader(RD->getLocation())) {
      X.record(RD);
    }
    return true;
  }
  bool VisitEnumDecl(EnumDecl *ED) {
    if (!ED->isThisDeclarationADefinition() || !X.inHeader(ED->getLocation())) return true;
    X.enumDecl(ED);
    return true;
  }
  bool VisitVarDecl(VarDecl *VD) {
    if (!X.inHeader(VD->getLocation())) return true;
    if (isa<ParmVarDecl>(VD)) return true;
    if (VD->isLocalVarDecl() && !VD->isStaticLocal()) return true;
    if (!VD->isFileVarDecl() && !VD->isStaticDataMember() && !VD->isStaticLocal()) return true;
    X.globalVar(VD);
    return true;
  }

private:
  Extractor &X;
};

class Consumer : public ASTConsumer {
  std::string OutPath, Suffix;

public:
  Consumer(std::string Out, std::string Suffix) : OutPath(std::move(Out)), Suffix(std::move(Suffix)) {}
  void HandleTranslationUnit(ASTContext &Ctx) override {
    std::error_code EC;
    llvm::raw_fd_ostream OS(OutPath, EC);
    if (EC) {
      llvm::errs() << "ctpgx: cannot open " << OutPath << ": " << EC.message() << "\n";
      return;
    }
    Extractor X(Ctx, OS, Suffix);
    Visitor V(X);
    V.TraverseDecl(Ctx.getTranslationUnitDecl());
    X.flushPending();
    X.drain();
    X.flushPending();
    X.finish();
  }
};

class Action : public PluginASTAction {
  std::string OutPath = "ctpgx.jsonl";
  std::string Suffix = "ctpg/ctpg.hpp";

protected:
  std::unique_ptr<ASTConsumer> CreateASTConsumer(CompilerInstance &, llvm::StringRef) override {
    return std::make_unique<Consumer>(OutPath, Suffix);
  }
  bool ParseArgs(const CompilerInstance &, const std::vector<std::string> &Args) override {
    for (const std::string &A : Args) {
      if (A.rfind("out=", 0) == 0) OutPath = A.substr(4);
      else if (A.rfind("header=", 0) == 0) Suffix = A.substr(7);
    }
    return true;
  }
};

} // namespace

static FrontendPluginRegistry::Add<Action> X("ctpgx", "ctpg fact extractor");
